#!/bin/bash
# run every claimed check at the given tier (default quick) and print one line each; exit non-zero if any check does
cd "$(dirname "$0")/.."
T=${1:-quick}; rc=0
for p in $(python3 -c "import json; print(' '.join(c['property_id'] for c in json.load(open('MANIFEST.json'))['checks']))"); do
  out=$(./check $p --tier $T 2>&1 | grep -v conda); r=$?
  echo "$out" | tail -1
  echo "$out" | grep -q "^VIOLATION\|^ANALYSIS-BROKEN" && { echo "$out" | grep "^VIOLATION\|^ANALYSIS-BROKEN\|^  " | head -5; rc=1; }
done
exit $rc
