#!/usr/bin/env python3
"""Run every check against behaviour-preserving changes (benign/<name>/patch.diff): each must stay silent (exit 0) or, at worst, say
ANALYSIS-BROKEN (exit 2) - a VIOLATION on such a change is a false alarm.   usage: benign.py [name-filter] [--tier thorough]"""
import json, os, shutil, subprocess, sys, tempfile
sys.path.insert(0, os.path.dirname(os.path.abspath(__file__)))
import mut

VERIF = mut.VERIF


def main():
    args = [a for a in sys.argv[1:] if not a.startswith("--")]
    flt = args[0] if args else ""
    tier = "thorough" if "--tier" in sys.argv and "thorough" in sys.argv else "quick"
    ids = [c["property_id"] for c in json.load(open(os.path.join(VERIF, "MANIFEST.json")))["checks"]]
    base = os.path.join(VERIF, "benign"); bad = 0
    for name in sorted(os.listdir(base)):
        d = os.path.join(base, name)
        if not os.path.isdir(d) or flt not in name: continue
        T = tempfile.mkdtemp(prefix="verif-benign-")
        try:
            subprocess.run("git -C /repo archive HEAD | tar -x -C %s" % T, shell=True, check=True)
            a = subprocess.run(["patch", "-p1", "-s", "-d", T, "-i", os.path.join(d, "patch.diff")], stdout=subprocess.PIPE, stderr=subprocess.STDOUT, text=True)
            if a.returncode != 0: print("%-44s PATCH DOES NOT APPLY" % name); continue
            subprocess.run("cmake -G Ninja -S %s -B %s/_b -DCMAKE_BUILD_TYPE=RelWithDebInfo >/dev/null 2>&1 && cmake --build %s/_b -j16 >/dev/null 2>&1" % (T, T, T), shell=True)
            ct = subprocess.run("ctest --test-dir %s/_b -j8 2>&1 | grep 'tests passed'" % T, shell=True, stdout=subprocess.PIPE, text=True).stdout.strip()
            shutil.rmtree(os.path.join(T, "_b"), ignore_errors=True)
            res = mut.run_checks(T, ids, tier=tier)
        finally:
            shutil.rmtree(T, ignore_errors=True)
        viol = {p: v for p, v in res.items() if v["rc"] == 1}; broken = {p: v for p, v in res.items() if v["rc"] not in (0, 1)}
        with open(os.path.join(d, "result.txt"), "w") as fh:
            fh.write("ctest: %s\n" % ct)
            for p, v in res.items():
                fh.write("%s rc=%d\n" % (p, v["rc"]))
                for x in v["violations"][:6]: fh.write("    %s\n" % x)
                if v["rc"] == 2: fh.write("    %s\n" % v["tail"])
        status = "FALSE ALARM: " + ", ".join("%s %s" % (p, v["violations"][0][:110] if v["violations"] else "") for p, v in viol.items()) if viol else ("silent" + ((" (analysis-broken: %s)" % ", ".join(broken)) if broken else ""))
        if viol: bad += 1
        print("%-44s %s  [%s]" % (name, status, ct))
    return 1 if bad else 0


if __name__ == "__main__":
    sys.exit(main())
