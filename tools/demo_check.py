#!/usr/bin/env python3
"""Re-run a sub-agent's demonstration in its worktree: must FAIL with the change applied and PASS on the clean tree.
usage: demo_check.py <PROP>  ->  prints 'changed: rc=..  clean: rc=..'"""
import re, subprocess, sys
p = sys.argv[1]; wt = "/tmp/wt-%s" % p
src = open(wt + "/_seed/demo.c").read()
m = re.search(r"/\*(.*?)\*/", src, re.S)
head = m.group(1) if m else src[:1500]
lines = [l.strip().lstrip("*").strip() for l in head.splitlines()]
cmd = ""; grab = False
for l in lines:
    if re.match(r"(cc|gcc|clang)\s", l) and not cmd: grab = True
    if grab:
        cmd += " " + l.rstrip("\\").strip()
        if not l.endswith("\\"): break
cmd = cmd.strip()
if "&&" in cmd: cmd = cmd.split("&&")[0].strip()
exe = re.search(r"-o\s+(\S+)", cmd)
exe = exe.group(1) if exe else wt + "/_seed/demo"
def run(label):
    b = subprocess.run(cmd, shell=True, stdout=subprocess.PIPE, stderr=subprocess.STDOUT, text=True)
    if b.returncode != 0: return "%s: BUILD FAILED %s" % (label, b.stdout[-300:])
    r = subprocess.run([exe], stdout=subprocess.PIPE, stderr=subprocess.STDOUT, text=True, timeout=300)
    last = [l for l in r.stdout.splitlines() if l.strip()][-1:] or [""]
    return "%s: rc=%d %s" % (label, r.returncode, last[0][:120])
print("cmd:", cmd)
# worktree := clean HEAD + the agent's own patch.diff (git stash is shared between worktrees, so it is not used)
subprocess.run(["git", "-C", wt, "checkout", "-q", "--", "src", "README.md"])
a = subprocess.run(["git", "-C", wt, "apply", wt + "/_seed/patch.diff"], stdout=subprocess.PIPE, stderr=subprocess.STDOUT, text=True)
if a.returncode != 0: print("PATCH DOES NOT APPLY:", a.stdout[-300:]); sys.exit(3)
print(run("with change"))
subprocess.run(["git", "-C", wt, "apply", "-R", wt + "/_seed/patch.diff"])
try: print(run("clean tree"))
finally: subprocess.run(["git", "-C", wt, "apply", wt + "/_seed/patch.diff"])
