#!/bin/bash
# Runs the repository's own test suite (13 ctest tests) exactly as the pinned build does, guard OFF
# (there are no hooks: nothing in /repo is guarded).  Scratch build directory is removed afterwards.
set -e
REPO=${VERIF_REPO:-/repo}
B=$(mktemp -d "${TMPDIR:-/tmp}/verif-baseline.XXXXXX")
trap 'rm -rf "$B"' EXIT
cmake -G Ninja -S "$REPO" -B "$B" -DCMAKE_BUILD_TYPE=RelWithDebInfo >"$B/configure.log" 2>&1 || { cat "$B/configure.log"; exit 1; }
cmake --build "$B" -j16 >"$B/build.log" 2>&1 || { tail -50 "$B/build.log"; exit 1; }
ctest --test-dir "$B" -j8 --timeout 900
