#!/usr/bin/env python3
"""regenerate MANIFEST.json from the table below (keeps the file valid at all times)"""
import json, os
V = os.path.dirname(os.path.dirname(os.path.abspath(__file__)))
props = [json.loads(l) for l in open(os.path.join(V, "properties.jsonl"))]
TB = "Trusted: clang-14 front end + mem2reg/sroa, the irfacts extractor, LP64 little-endian x86-64; big-endian host branches are dead code here. "
E1NOTE = ("E1 is abstract interpretation of unary integer functions over a disjunctive interval domain carrying canonical terms (value "
          "partitioning on the single input): no solver, no path formula, no concrete execution of library code; extracted closed forms are "
          "evaluated only to turn 'terms differ' into a witness. If that is judged to be symbolic execution these clauses become "
          "not-applicable (DESIGN.md App. D.2). ")
CHECKS = {
 "C17": dict(engine="E-PTS", cat="proof", ref="DESIGN.md 4/C17, 3/E-PTS",
   text="Sound may-write (Mod) analysis over every function of all library units: no function writes anything but its own non-const parameters, frame or fresh heap; no mutable globals; only thread-safe external callees. Implies data-race freedom for calls on disjoint outputs under every schedule.",
   note=TB + "glibc allocator/qsort thread-safety; API contract that distinct pointer parameters do not overlap.",
   tech="static analysis: interprocedural points-to / side-effect (Mod set) analysis on LLVM IR"),
 "C18": dict(engine="E-ALLOC", cat="other", ref="DESIGN.md 4/C18, 3/E-ALLOC",
   text="Typestate dataflow over every allocation site (52 today): NULL-tested before dereference, failure edge reaches only failure returns (or a hand-confirmed correct fallback), owned blocks released on every exit, fallible callee status not discarded or masked, owning fields not overwritten while live, the long-lived object not modified before a failure is reported (R7), realloc's result tested before it replaces the pointer it grew (R8). Covers the k-th failure of every allocation for every k. Structural clauses only; 'object remains usable' beyond no-leak/no-dangling is not decided.",
   note=TB + "Three fallbacks (AdaptiveCountUnique x2, BitmapRemove shrink, AddRange shortcut) are accepted as correct by reading; free(NULL) is a no-op; 10 known findings (discarded varintBitmapAdd/Remove status) listed in known_findings.json.",
   tech="static analysis: allocation typestate dataflow + failure-edge reachability on LLVM IR"),
}
CHECKS.update({
 "C08": dict(engine="E-PTS + E-TABLE + E-ALLOC(R4)", cat="other", ref="DESIGN.md 4/C08",
   text="Three necessary structural clauses of the set behaviour: operands of the set algebra and of every reader are deep-immutable (no store reaches memory rooted at a const bitmap, including through the captured iterator); every switch on the container type names all three enumerators; no mutator frees the live container without having read it or being dominated by an emptiness test; mutator if-chains over the container type name every enumerator; varintBitmapAdd / Remove change the cardinality by one only on an edge controlled by a membership result for the element (B4). Set semantics under histories, change reports and iterator order are NOT decided.",
   note=TB + "Set equality with a mathematical model is a behavioural property over histories and is out of reach of a sound static argument here; only the named clauses are claimed.",
   tech="static analysis: points-to Mod sets, switch-table exhaustiveness, free-without-read dataflow on LLVM IR"),
 "C15": dict(engine="E-PTS + E-UNINIT", cat="other", ref="DESIGN.md 4/C15, 3/E-UNINIT",
   text="S1: no mutable static storage and no stateful libc callee anywhere in the linked library. S2: interprocedural definite-initialisation dataflow at byte granularity over every stack and fixed-size heap object: each load, callee read-before-write, struct copy-out and constructor return is an obligation that the bytes were written on every path. S3: heap arrays written by position are written on every iteration before being read whole. S4: a cursor step over a zero-filled output region equals the filled size (4 BP128 sites). S5: the bitmap's 8 KiB bit array, when obtained with malloc, is overwritten in full before any return once it has been stored into the object. Other array cells (variable index) are not decided.",
   note=TB + "Callee summaries (upward-exposed reads, must-writes per return class) are specialised on constant integer arguments; exhaustive enum switches are assumed exhaustive only for objects received through parameters.",
   tech="static analysis: must-initialised dataflow with callee summaries + Mod-set analysis on LLVM IR"),
 "C16": dict(engine="E-META (on E-UNINIT)", cat="other", ref="DESIGN.md 4/C16, 3/E-META",
   text="For every function that writes a metadata struct (24 writer parameters today): every scalar field is definitely written on every success return (must-write per return class); the value stored to encodedSize/encodedBytes is, as a linear form over SSA values, the value the encoder returns; the count field receives the count argument; no field of a kind the property names is stored a literal constant on a success path for non-empty input; (M6) sizes reported by varintRLEAnalyze / varintPFORSize are built from the same length terms as the encoder's cursor advances; (M9) only the three confirmed in/out metadata parameters are read before being written; (M10) a stored minimum / maximum accumulated over the input comes from a loop whose only exit is its counter test; (M8) the block count reported by the four BP128 encoders equals ceil(values packed / 128) for every residue of count. Numeric truth of min/max/run counts is NOT decided; header-reader/writer layout agreement (M4) is not built.",
   note=TB + "In/out metadata parameters (FOR encoders) are exempt from M1 and covered by C15; 3 known findings (AdaptiveDecode encodedSize, AdaptiveReadMeta placeholders).",
   tech="static analysis: out-parameter must-write dataflow + SSA linear-form equality on LLVM IR"),
 "C13": dict(engine="E-BOUNDS", cat="other", ref="DESIGN.md 4/C13, 3/E-BOUNDS",
   text="For each of the 17 capacity-taking decoders every store, memset/memcpy and callee write through the output parameter is bounded: offset+size <= capacity*elemsize is proved from dominating guards, clamps and loop bounds, interprocedurally (callee write-extent summaries, and context-sensitive re-proving of a callee under the caller's facts). Local arrays and capacity-sized heap blocks inside the decoders are checked too. Sound but incomplete: unproven = reported. Does not decide whether the result is 0 or a correct prefix.",
   note=TB + "size_t arithmetic on caller-trusted capacities does not wrap; distinct pointer parameters do not overlap; asserts are compiled out (NDEBUG).",
   tech="static analysis: symbolic region-bounds analysis with linear forms, memory value numbering and a small entailment prover on LLVM IR"),
 "C14": dict(engine="E-BOUNDS", cat="other", ref="DESIGN.md 4/C14, 3/E-BOUNDS",
   text="For each of the 8 entry points that are told their input size: the length parameter must flow into a branch (directly, through a reader-object field, or in a callee), and every load, memcpy source and callee read through the input pointer is proved to end at or before the declared length from dominating conditions (end-pointer tests, n-vs-first-byte tests, switch constants, division guards, strided cursors with symbolic stride), interprocedurally. Unproven = reported. Termination is not decided.",
   note=TB + "Values decoded from input bytes are unconstrained; arithmetic is over mathematical integers (wrap of input-derived products is not modelled - see level text); 3 known findings (both Elias array decoders, varintRLEGetRunCount).",
   tech="static analysis: symbolic region-bounds analysis of reads + length-parameter use-def reachability on LLVM IR"),
 "C12": dict(engine="dataflow rules on SSA", cat="other", ref="DESIGN.md 4/C12",
   text="Every function performing the checked signed add (varintTaggedAdd, varintExternalAdd_) is matched against the decode / checked-add / measure / conditional-put shape: measured value == stored value == the intrinsic's sum (SSA identity), the put is dominated by the no-overflow edge and by the strict newWidth > oldWidth test (growth only behind force), the checked add is the signed 64-bit intrinsic and the failure branch depends on its overflow flag alone, the overflow edge returns 0 and reaches no write through the varint pointer. The byte extent of the put itself (exactly width(value) bytes) is C01's clause, referenced not re-proved.",
   note=TB + "Pattern-specific: a differently shaped implementation is reported as analysis-broken (exit 2), not as a pass.",
   tech="static analysis: SSA value-identity and dominance rules on LLVM IR"),
 "C01": dict(engine="E1 + W + E-ACC", cat="other", ref="DESIGN.md 4/C01, 3/E1",
   text="For the 9 scalar families, their reversed, fixed-width, quick-macro and 32-bit forms (100+ class tables): the lengths returned by the encoder, predicted from the value and read back from the tag byte induce the same partition of the whole value domain; lengths lie in the documented range; the written offsets are exactly [0,len); the sign helpers' relocation constant is representable (compile-fail witness); no typed multi-byte access goes through a byte pointer. decode(encode(x))==x itself is NOT decided (decoder tables not built) beyond these necessary clauses and C04's byte-exact tables.",
   note=TB + E1NOTE,
   tech="static analysis: abstract interpretation (interval-partitioned symbolic constant propagation), compile-fail witnesses, access-shape lint on LLVM IR"),
 "C04": dict(engine="E1 + W", cat="other", ref="DESIGN.md 4/C04, 3/E1",
   text="Every scalar encoder's class table (x-interval -> length, byte terms) equals an independent format table written from the documentation (tagged/sqlite4, chained/sqlite3, chained-simple/base-128, external LE/BE, the four split layouts incl. reversed forms), cell by cell on the common refinement; classes partition the domain with non-decreasing length; per-length maxima equal the header constants (52 static assertions) and the README tables; never-shrink rule holds. Elias bit codes and zig-zag are NOT decided.",
   note=TB + E1NOTE + "The format tables in sa/spec_formats.py are the trusted oracle.",
   tech="static analysis: abstract interpretation producing closed-form class tables, compared with reference tables; compile-time witnesses"),
 "C05": dict(engine="E1", cat="proof", ref="DESIGN.md 4/C05",
   text="Full property as a proof over the class table extracted from varintTaggedPut64: first-byte ranges of consecutive classes are disjoint and increasing; within a class the bytes are the most-significant-first base-256 digits of x-a plus a constant first-byte offset; the length readers are functions of byte 0 returning the class length. Lemma: memcmp order == numeric order for all 2^128 pairs and, by prefix-freeness, for all tuples.",
   note=TB + E1NOTE,
   tech="static analysis: abstract interpretation producing a closed-form class table + ordering lemma checked on the table"),
 "C09": dict(engine="E2", cat="other", ref="DESIGN.md 4/C09, 3/E2",
   text="Set/Get/SetHalf/SetIncr of every packed-array instantiation (quick: the 11 occurring in the tree, one more of each other slot type, plus the library's own; thorough: all 106 eligible width 1-32 x slot 8/16/32/64 x default/compact combinations, 15k cases) are interpreted abstractly with the element position partitioned by residue modulo SLOT/gcd(BITS,SLOT): the written slots equal the old slots with exactly the element's bits replaced by the value's bits, Get returns exactly those bits, the second slot is touched only when the element straddles, no other location is accessed; the bit position offset*BITS is not formed in arithmetic narrower than 64 bits that the index range could overflow (P4). Sorted insert/delete/member/search semantics over histories and SetIncr arithmetic are NOT decided.",
   note=TB + "Preconditions from the property: val < 2^BITS (an assert in the source), SetIncr result in range. Instantiations are generated witnesses that #include /repo/src/varintPacked.h.",
   tech="static analysis: bit-level abstract interpretation with congruence partitioning on LLVM IR"),
 "C10": dict(engine="W + E2 + structural rules", cat="other", ref="DESIGN.md 4/C10",
   text="D1: 720 static assertions over the repository's own PAIR/ROW_COUNT/COL_COUNT/IS_SPARSE/BYTE_LENGTH macros and the 144 named enumerators (a violating header does not compile). D2: the header writer places the two counts adjacently with the widths encoded in the returned dimension. D3: the cell offset is header+(row*cols+col)*w on every path and each typed accessor touches the matrix only there. D4: bit cells - Set makes the addressed bit equal to the argument, Toggle flips and returns the old value, Get reads it; no other bit/byte changes. Pack/Unpack nibble packing and float conversions are NOT decided.",
   note=TB + "Cell independence follows from D3 (disjoint [off, off+w) ranges beyond the header) under the assumption that header bytes hold the counts written by D2.",
   tech="static analysis: compile-fail witnesses, bit-level abstract interpretation, symbolic offset comparison on LLVM IR"),
 "C11": dict(engine="E2", cat="other", ref="DESIGN.md 4/C11, 3/E2",
   text="varintBitstreamSet/Get for each word type (uint8_t..uint64_t), each start-bit residue modulo the word size and each width up to the word size (thorough: all; quick: all for 8/16-bit words, 19 representative widths for 32/64): value bits land MSB-first exactly at [start, start+n), every other bit of the touched words is unchanged, the second word is touched only when straddling, Get returns exactly those bits. The sign-helper constant is representable (compile witness). restore(prepare(v))==v is NOT decided.",
   note=TB + "Precondition: val < 2^n (assert in the source); n <= bits per word.",
   tech="static analysis: bit-level abstract interpretation with congruence partitioning on LLVM IR"),
 "C06": dict(engine="E-TABLE + dataflow", cat="other", ref="DESIGN.md 4/C06",
   text="Structural necessary conditions of the adaptive container's losslessness: header byte == reported type == dispatched type (SSA identity); encode and decode dispatch tables have equal case sets, each case calls the encoder/decoder of the same codec family, and every value the selector can return is an explicit case of both; every path of the selection decision tree to BITMAP establishes fitsInBitmapRange, isSorted, uniqueCount == count and count below the exact-count threshold; no length-taking sub-decoder receives a literal length; fitsInBitmapRange is only set when every value is below the bound under which the encoder's BITMAP arm stores values; (A6) the slot width of the PFOR arm is measured for a value strictly above the largest in-range offset, so that the all-ones exception marker is never an in-range value (or the encoder compares with the marker). Losslessness of each sub-codec for every array is NOT decided (C02's reason).",
   note=TB + "2 known findings (literal 1 MiB length for the DICT and BITMAP sub-decoders: the API has no input length).",
   tech="static analysis: SSA identity, switch-table and path-condition extraction on LLVM IR"),
 "C07": dict(engine="E-TABLE + E-RANGE", cat="other", ref="DESIGN.md 4/C07",
   text="Four range/table clauses only: (T1) the fcmp decision chain of varintFloatEncodeAuto, read as a table error-interval -> precision, never selects a lossy mode whose published bound 2^-mantissaBits exceeds the interval's infimum; (T2) interval evaluation of truncateMantissa over all normal 53-bit mantissas shows the rounded result fits the stored field for each lossy width; (T3) the common-exponent delta is range-guarded before truncation to a byte. FULL-mode bit-exactness, special values and the relative error bound itself are NOT decided (value-level).",
   note=TB + "(T4) interval evaluation of varintFloatCompose's clamps over all exponents of normal doubles shows only the assembling path returns. 1 known finding (T3: one-byte exponent delta, a format limitation).",
   tech="static analysis: decision-table extraction and interval evaluation on LLVM IR"),
})
CHECKS["C03"] = dict(engine="E-SIZE + sibling size terms", cat="other", ref="DESIGN.md 4/C03, 3/E-SIZE, 10.7",
   text="Z1/Z3: for the size predictors and their encoders (FORSize/FOREncode+BatchEncode, PFORSize/PFOREncode, DictEncodedSizeWithDict/DictEncodeWithDict, GroupSize/GroupEncode, RLEAnalyze/RLEEncode) every call whose result advances the encoder's cursor is matched by a predictor term with the same extracted length table on the same quantity (or a constant maximum), and the total sizes, as polynomials over named lengths, counts and widths with loop trip counts, are equal (>= for the documented worst-case PFOR predictor). Z5: with the width field pinned to each of 1..8, every write offset+extent of the FOR, FORBatch, PFOR and Dict encoders is at most the predicted total. Z2: for 8 encoders - delta (signed, unsigned), the four 128-block packers, the two Elias array encoders, and the float encoder in its INDEPENDENT exponent mode - every write offset+size through the destination and the returned length are bounded symbolically (init + iterations x advance; block loops split into full blocks and one partial block; counters kept in a writer object summed over callees) and compared with the exact sizing function for every residue of count modulo the block size / 8. NOT decided: the maximum-size bounds of RLE (amortised), adaptive (depends on value-level selection) and float in the COMMON/DELTA exponent modes; see evidence not_decided.",
   note=TB + "Sizes and counts are non-negative and unsigned arithmetic on them does not wrap; metadata fields named alike in predictor and encoder denote the same quantity; bytes written through the Elias bit writer lie below the byte count the writer reports. 3 fixed findings (varintPFORSize index term, varintBP128MaxBytes prefix, varintAdaptiveMaxSize).",
   tech="static analysis: sibling agreement of extracted length tables / value roles, and symbolic upper bounds of output cursors (quasi-polynomials with loop trip counts, compared by residue enumeration) on LLVM IR")
NA = {
 "C02": "losslessness of array codecs is value-level equality after arithmetic; no clause has a shape in the code that static analysis can decide (DESIGN.md 4/C02)",
}
man = {"version": 1, "setup_cmd": "./tools/setup.sh",
 "hooks": {"guard": "VARINT_VERIF", "enable": "none needed: the checks analyse /repo/src as is (no instrumentation); -DVARINT_VERIF is reserved and unused",
           "baseline_off_cmd": "./tools/baseline.sh", "source_commits": [], "add_only": True},
 "engines": [{"name": "irfacts+sa", "path": "tools/irfacts.cc, sa/", "serves_properties": sorted(CHECKS),
              "kind_free_text": "custom static analyses over LLVM-14 IR facts (clang -O0 + mem2reg/sroa), Python rule engines; compile-time witnesses"}],
 "checks": [], "not_applicable": [],
 "notes": "All checks are static analyses of /repo's current working tree; nothing executes library code. Exit 2 = analysis broken (never a pass). known_findings.json lists genuine defects that are recorded rather than repaired, and the fix: commits made to /repo."}
for p in props:
    pid = p["id"]
    if pid in CHECKS:
        c = CHECKS[pid]
        man["checks"].append({"property_id": pid, "quick_cmd": "./check %s --tier quick" % pid, "thorough_cmd": "./check %s --tier thorough" % pid,
            "evidence_file": "evidence/%s.json" % pid, "replay_cmd_template": "./check %s --explain {path}" % pid, "engine": c["engine"],
            "level_claimed": {"category": c["cat"], "text": c["text"], "design_ref": c["ref"]}, "level_note": c["note"], "technique": c["tech"]})
    else:
        man["not_applicable"].append({"property_id": pid, "reason": NA.get(pid, "engine not built yet (construction in progress, see DESIGN.md 6); no weaker technique is substituted")})
json.dump(man, open(os.path.join(V, "MANIFEST.json"), "w"), indent=1)
print("claimed:", sorted(CHECKS), "n/a:", [e["property_id"] for e in man["not_applicable"]])
