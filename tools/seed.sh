#!/bin/bash
# usage: seed.sh <PROP> <name> <check ids...>   - verify a seeded change delivered by a sub-agent in /tmp/wt-<PROP>/_seed and file it
# under /verif/seeded/<name>/ together with what our checks say about it.  Nothing is committed to /repo.
set -u
P=$1; NAME=$2; shift 2
WT=/tmp/wt-$P; S=$WT/_seed; D=/verif/seeded/$NAME
[ -f $S/patch.diff ] || { echo "no patch in $S"; exit 2; }
mkdir -p $D; cp $S/patch.diff $D/; cp $S/demo.* $D/ 2>/dev/null; cp $S/notes.md $D/ 2>/dev/null
# 1. the change applies to /repo's HEAD, builds, and the 13 tests pass with it
T=$(mktemp -d /tmp/seedchk.XXXX); git -C /repo archive HEAD | tar -x -C $T
( cd $T && patch -p1 -s < $D/patch.diff ) || { echo "PATCH DOES NOT APPLY"; rm -rf $T; exit 3; }
cmake -G Ninja -S $T -B $T/_b -DCMAKE_BUILD_TYPE=RelWithDebInfo >/dev/null 2>&1 && cmake --build $T/_b -j16 >/dev/null 2>&1
CT=$(ctest --test-dir $T/_b -j8 2>&1 | grep "tests passed" )
echo "ctest with change: $CT"
# 2. our checks against the changed tree (scratch copy; /repo untouched)
python3 /verif/tools/mut.py patch $D/patch.diff "$@" > $D/checks.txt 2>&1
cat $D/checks.txt | grep -v conda
rm -rf $T
