#!/bin/sh
# irstress.sh: run every quick check on the unchanged tree with an extra semantics-preserving LLVM pass appended to the pipeline.
# A VIOLATION here is a false alarm of the analysis (the program is the same); exit 2 means the rule does not recognise the shape.
cd "$(dirname "$0")/.."
for P in "function(simplifycfg)" "function(instcombine)" "function(jump-threading)" "function(early-cse)" "function(loop-simplify,loop-rotate)" "function(sccp)" "function(reassociate)" "function(gvn)"; do
  echo "== $P"
  for c in C01 C03 C04 C05 C06 C07 C08 C09 C10 C11 C12 C13 C14 C15 C16 C17 C18; do
    out=$(VERIF_EXTRA_PASSES="$P" VERIF_OUT_DIR=/tmp/irstress-out ./check $c 2>&1 | grep -v conda); rc=$?
    echo "$out" | tail -1 | grep -q "new=0" || echo "$c: $(echo "$out" | grep -c '^VIOLATION') violations; $(echo "$out" | tail -1 | cut -c1-200)"
  done
done
rm -rf /tmp/irstress-out
