#!/usr/bin/env python3-vt
"""validate MANIFEST.json and evidence/*.json against the harness schemas (developer aid; uses the tooling venv)"""
import json, glob, sys, jsonschema
man = json.load(open('/verif/MANIFEST.json'))
jsonschema.validate(man, json.load(open('/root/.vp/MANIFEST.schema.json')))
es = json.load(open('/root/.vp/EVIDENCE.schema.json'))
ids = {json.loads(l)["id"] for l in open('/verif/properties.jsonl')}
claimed = {c["property_id"] for c in man["checks"]}; na = {e["property_id"] for e in man.get("not_applicable", [])}
assert claimed | na == ids and not (claimed & na), (ids - claimed - na, claimed & na)
for c in man["checks"]:
    ev = json.load(open('/verif/' + c["evidence_file"]))
    jsonschema.validate(ev, es)
    assert ev["property_id"] == c["property_id"]
    print(c["property_id"], ev["level"], ev["coverage"].get("obligations"), ev["coverage"].get("discharged"), "violations", ev.get("violations"))
print("manifest + %d evidence files valid" % len(man["checks"]))
