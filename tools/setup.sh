#!/bin/bash
# MANIFEST.setup_cmd: build the fact extractor from files on disk only (no network, no pip).
set -e
cd "$(dirname "$(readlink -f "$0")")/.."
mkdir -p .build .cache/tmp out evidence
clang++ $(llvm-config-14 --cxxflags) -fno-rtti -O1 tools/irfacts.cc -o .build/irfacts /usr/lib/llvm-14/lib/libLLVM-14.so
echo "irfacts built"
