#!/bin/sh
# import_benign.sh <prefix> <id>... : copy a sub-agent's behaviour-preserving change from its worktree /tmp/<prefix>-<id> into benign/<prefix>-<id>
cd "$(dirname "$0")/.."
P=$1; shift
for id in "$@"; do
  W=/tmp/$P-$id; D=benign/$P-$id
  [ -d "$W" ] || { echo "no worktree $W"; continue; }
  mkdir -p "$D"
  git -C "$W" diff -- src > "$D/patch.diff"
  [ -s "$D/patch.diff" ] || { echo "$id: empty diff"; rmdir "$D" 2>/dev/null; continue; }
  cp "$W/_seed/notes.md" "$D/notes.md" 2>/dev/null
  echo "$id: $(grep -c '^[-+][^-+]' "$D/patch.diff") changed lines"
done
