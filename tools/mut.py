#!/usr/bin/env python3
"""Selftest driver: apply one edit (regex substitution or patch file) to a scratch copy of /repo, run the named checks against the
copy, report which rules fired, delete the copy.  Never touches /repo or /verif/evidence.
usage: mut.py run <mutants.json> [name-filter]      |   mut.py patch <file.diff> <ID> [<ID>...]"""
import json, os, re, shutil, subprocess, sys, tempfile

VERIF = os.path.dirname(os.path.dirname(os.path.abspath(__file__)))


def scratch_copy():
    d = tempfile.mkdtemp(prefix="verif-mut-")
    for sub in ("src", "CMakeLists.txt", "README.md", "cmake", "examples", "docs"):
        p = os.path.join("/repo", sub)
        if os.path.isdir(p): shutil.copytree(p, os.path.join(d, sub))
        elif os.path.exists(p): shutil.copy(p, d)
    return d


def run_checks(repo, ids, tier="quick"):
    out = tempfile.mkdtemp(prefix="verif-mutout-")
    res = {}
    try:
        for pid in ids:
            env = dict(os.environ, VERIF_REPO=repo, VERIF_OUT_DIR=out)
            r = subprocess.run([os.path.join(VERIF, "check"), pid, "--tier", tier], env=env, stdout=subprocess.PIPE, stderr=subprocess.STDOUT, text=True)
            lines = [l for l in r.stdout.splitlines() if "conda" not in l]
            viol = [l.strip() for l in lines if l.startswith("  ") and "[" in l]
            res[pid] = {"rc": r.returncode, "violations": viol, "tail": lines[-3:]}
    finally:
        shutil.rmtree(out, ignore_errors=True)
    return res


def compiles(repo, file):
    r = subprocess.run(["gcc", "-std=c11", "-fsyntax-only", "-I", os.path.join(repo, "src"), os.path.join(repo, file)], stdout=subprocess.PIPE, stderr=subprocess.STDOUT, text=True)
    return r.returncode == 0, r.stdout[-500:]


def main():
    mode = sys.argv[1]
    if mode == "patch":
        d = scratch_copy()
        try:
            r = subprocess.run(["patch", "-p1", "-d", d, "-i", os.path.abspath(sys.argv[2])], stdout=subprocess.PIPE, stderr=subprocess.STDOUT, text=True)
            if r.returncode != 0: print("PATCH FAILED", r.stdout); sys.exit(3)
            res = run_checks(d, sys.argv[3:])
            for pid, v in res.items():
                print(pid, "rc=%d" % v["rc"]); [print("   ", x) for x in v["violations"][:8]]
                if v["rc"] == 2: print("   ", v["tail"])
        finally:
            shutil.rmtree(d, ignore_errors=True)
        return
    muts = json.load(open(sys.argv[2])); flt = sys.argv[3] if len(sys.argv) > 3 else ""
    ok = 0; bad = 0
    for m in muts:
        if flt and flt not in m["name"]: continue
        d = scratch_copy()
        try:
            path = os.path.join(d, m["file"]); s = open(path).read()
            s2, n = re.subn(m["regex"], m["repl"], s, count=m.get("count", 1), flags=re.S)
            if n == 0: print("MUTANT DID NOT APPLY:", m["name"]); bad += 1; continue
            open(path, "w").write(s2)
            c, msg = compiles(d, m["file"]) if m["file"].endswith(".c") else (True, "")
            if not c: print("MUTANT DOES NOT COMPILE:", m["name"], msg); bad += 1; continue
            res = run_checks(d, m["checks"])
            for pid in m["checks"]:
                v = res[pid]
                if m.get("benign"):
                    good = v["rc"] == 0
                else:
                    good = v["rc"] == 1 and any(m.get("expect", "") in x for x in v["violations"])
                print("%-4s %-44s %s rc=%d %s" % ("ok" if good else "MISS", m["name"], pid, v["rc"], (v["violations"][:1] or v["tail"][-1:])[0][:150] if not good or not m.get("benign") else ""))
                ok += good; bad += (not good)
        finally:
            shutil.rmtree(d, ignore_errors=True)
    print("selftest: %d as expected, %d not" % (ok, bad))
    sys.exit(1 if bad else 0)


if __name__ == "__main__":
    main()
