#!/bin/sh
# irstress1.sh '<passes>' <Cxx>... : run the given checks with an extra pass appended, print the violations
cd "$(dirname "$0")/.."
P="$1"; shift
for c in "$@"; do
  VERIF_EXTRA_PASSES="$P" VERIF_OUT_DIR=/tmp/irstress-out ./check $c 2>&1 | grep -v "conda\|KNOWN\|^VIOLATION" | cut -c1-${W:-330}
done
