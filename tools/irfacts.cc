// irfacts: LLVM-14 module -> JSON facts consumed by /verif/sa (see DESIGN.md 2.1, Appendix B)
#include "llvm/IR/LLVMContext.h"
#include "llvm/IR/Module.h"
#include "llvm/IR/Instructions.h"
#include "llvm/IR/IntrinsicInst.h"
#include "llvm/IR/Constants.h"
#include "llvm/IR/DataLayout.h"
#include "llvm/IR/Operator.h"
#include "llvm/IR/DebugInfoMetadata.h"
#include "llvm/IR/DebugInfo.h"
#include "llvm/IR/InlineAsm.h"
#include "llvm/IR/ModuleSlotTracker.h"
#include "llvm/IR/GetElementPtrTypeIterator.h"
#include "llvm/IRReader/IRReader.h"
#include "llvm/Support/SourceMgr.h"
#include "llvm/Support/raw_ostream.h"
#include "llvm/Support/JSON.h"
#include "llvm/ADT/SmallString.h"
using namespace llvm;

// anonymous composites are keyed by file and line (two headers may declare one on the same line number)
static std::string anonName(const DICompositeType *C){ std::string f = C->getFile() ? C->getFile()->getFilename().str() : std::string("?"); auto p=f.find_last_of('/'); if(p!=std::string::npos) f=f.substr(p+1); return "anon@"+f+":"+std::to_string(C->getLine()); }
static std::string tyStr(Type *T){ if (auto*ST=dyn_cast<StructType>(T)) if (ST->hasName()) return "%"+ST->getName().str(); std::string s; raw_string_ostream os(s); T->print(os); return os.str(); }
static std::string apStr(const APInt &A, bool sgn=false){ SmallString<40> S; A.toString(S,10,sgn); return std::string(S.str()); }

static bool pointeeConst(const DIType *T){
  while (T) { auto *D = dyn_cast<DIDerivedType>(T); if(!D) break; unsigned tag=D->getTag();
    if (tag==dwarf::DW_TAG_typedef||tag==dwarf::DW_TAG_restrict_type||tag==dwarf::DW_TAG_const_type||tag==dwarf::DW_TAG_volatile_type){T=D->getBaseType();continue;}
    if (tag==dwarf::DW_TAG_pointer_type){ const DIType*B=D->getBaseType(); while(B){ auto*BD=dyn_cast<DIDerivedType>(B); if(!BD) break; if(BD->getTag()==dwarf::DW_TAG_const_type) return true; if(BD->getTag()==dwarf::DW_TAG_typedef||BD->getTag()==dwarf::DW_TAG_volatile_type||BD->getTag()==dwarf::DW_TAG_restrict_type){B=BD->getBaseType();continue;} break;} return false; }
    break; }
  return false; }


static std::string diTypeStr(const DIType *T, int depth=0){
  if (!T) return "void"; if (depth>8) return "?";
  if (auto *D = dyn_cast<DIDerivedType>(T)) { unsigned tag=D->getTag();
    if (tag==dwarf::DW_TAG_typedef) return D->getName().str();
    if (tag==dwarf::DW_TAG_const_type) return "const " + diTypeStr(D->getBaseType(),depth+1);
    if (tag==dwarf::DW_TAG_volatile_type) return "volatile " + diTypeStr(D->getBaseType(),depth+1);
    if (tag==dwarf::DW_TAG_restrict_type) return diTypeStr(D->getBaseType(),depth+1);
    if (tag==dwarf::DW_TAG_pointer_type) return diTypeStr(D->getBaseType(),depth+1) + " *";
    return D->getName().str(); }
  if (auto *C = dyn_cast<DICompositeType>(T)) { if (C->getTag()==dwarf::DW_TAG_array_type) return diTypeStr(C->getBaseType(),depth+1)+"[]"; std::string n=C->getName().str(); if(n.empty()) n="anon"; return n; }
  return T->getName().str(); }
// strip typedef/const down to a composite
static const DICompositeType* diComposite(const DIType*T){ int n=0; while(T&&n++<16){ if(auto*C=dyn_cast<DICompositeType>(T)) return C; auto*D=dyn_cast<DIDerivedType>(T); if(!D) return nullptr; unsigned tag=D->getTag(); if(tag==dwarf::DW_TAG_typedef||tag==dwarf::DW_TAG_const_type||tag==dwarf::DW_TAG_volatile_type||tag==dwarf::DW_TAG_restrict_type){T=D->getBaseType();continue;} return nullptr;} return nullptr; }
#include <map>
struct Ctx { const DataLayout *DL; ModuleSlotTracker *MST; std::map<const Value*,int> ids; int id(const Value*V){ auto it=ids.find(V); return it==ids.end()? -1 : it->second; } };

static json::Value operand(Ctx &C, const Value *V){
  json::Object o;
  if (auto *CI = dyn_cast<ConstantInt>(V)) { o["k"]="int"; o["v"]=apStr(CI->getValue()); o["sv"]=apStr(CI->getValue(),true); o["bits"]=(int64_t)CI->getBitWidth(); }
  else if (auto *CF = dyn_cast<ConstantFP>(V)) { o["k"]="fp"; double dv = (&CF->getValueAPF().getSemantics()==&APFloat::IEEEdouble()) ? CF->getValueAPF().convertToDouble() : (&CF->getValueAPF().getSemantics()==&APFloat::IEEEsingle() ? (double)CF->getValueAPF().convertToFloat() : 0.0); if (dv==dv && dv<1.7e308 && dv>-1.7e308) o["v"]=dv; else o["v"]="nonfinite"; }
  else if (isa<ConstantPointerNull>(V)) { o["k"]="null"; }
  else if (isa<UndefValue>(V)) { o["k"]="undef"; }
  else if (auto *F = dyn_cast<Function>(V)) { o["k"]="func"; o["v"]=F->getName().str(); }
  else if (auto *G = dyn_cast<GlobalVariable>(V)) { o["k"]="global"; o["v"]=G->getName().str(); }
  else if (auto *A = dyn_cast<Argument>(V)) { o["k"]="arg"; o["v"]=(int64_t)A->getArgNo(); }
  else if (auto *B = dyn_cast<BasicBlock>(V)) { o["k"]="block"; o["v"]=(int64_t)C.id(B); }
  else if (auto *I = dyn_cast<Instruction>(V)) { o["k"]="inst"; o["v"]=(int64_t)C.id(I); }
  else if (auto *CE = dyn_cast<ConstantExpr>(V)) { o["k"]="cexpr"; o["op"]=CE->getOpcodeName(); json::Array a; for (auto &U: CE->operands()) a.push_back(operand(C,U)); o["ops"]=std::move(a);
       if (auto *GEP = dyn_cast<GEPOperator>(CE)) { APInt off(64,0); if (GEP->accumulateConstantOffset(*C.DL, off)) o["off"]=apStr(off,true); } }
  else { o["k"]="other"; std::string s; raw_string_ostream os(s); V->printAsOperand(os,true); o["v"]=os.str(); }
  o["t"]=tyStr(V->getType());
  return json::Value(std::move(o));
}

int main(int argc,char**argv){
  LLVMContext LC; SMDiagnostic E; auto M=parseIRFile(argv[1],E,LC); if(!M){E.print("irfacts",errs());return 2;}
  const DataLayout &DL=M->getDataLayout(); ModuleSlotTracker MST(M.get()); Ctx C{&DL,&MST};
  json::Object top; top["datalayout"]=DL.getStringRepresentation();
  json::Object structs; for (auto *ST: M->getIdentifiedStructTypes()){ if(ST->isOpaque()) continue; json::Object so; auto *SL=DL.getStructLayout(ST); so["size"]=(int64_t)SL->getSizeInBytes(); json::Array fs; for(unsigned i=0;i<ST->getNumElements();i++){ json::Object f; f["off"]=(int64_t)SL->getElementOffset(i); f["size"]=(int64_t)DL.getTypeStoreSize(ST->getElementType(i)).getFixedSize(); f["t"]=tyStr(ST->getElementType(i)); fs.push_back(std::move(f)); } so["fields"]=std::move(fs); structs[ST->getName().str()]=std::move(so);} top["structs"]=std::move(structs);
  json::Array globals; for (auto &G: M->globals()){ json::Object g; g["name"]=G.getName().str(); g["constant"]=G.isConstant(); g["internal"]=G.hasLocalLinkage(); g["t"]=tyStr(G.getValueType());
    if (G.hasInitializer()){ if (auto*CDS=dyn_cast<ConstantDataSequential>(G.getInitializer())){ if(true){ std::string hex; /* raw little-endian bytes of any constant data array (lookup tables of wider integers too) */ StringRef raw=CDS->getRawDataValues(); static const char*H="0123456789abcdef"; for(unsigned char ch: raw){hex.push_back(H[ch>>4]);hex.push_back(H[ch&15]);} g["bytes"]=hex; } } else if (isa<ConstantAggregateZero>(G.getInitializer())){ uint64_t n=DL.getTypeAllocSize(G.getValueType()).getFixedSize(); if(n<=65536) g["bytes"]=std::string(2*n,'0'); } else if (auto*CI=dyn_cast<ConstantInt>(G.getInitializer())){ g["int"]=apStr(CI->getValue()); g["bits"]=(int64_t)CI->getBitWidth(); } else if (auto *CS=dyn_cast<ConstantStruct>(G.getInitializer())){ json::Array a; for(auto&U:CS->operands()) a.push_back(operand(C,U)); g["struct"]=std::move(a);} }
    globals.push_back(std::move(g)); } top["globals"]=std::move(globals);
  { DebugInfoFinder DIF; DIF.processModule(*M); json::Object dits; json::Object enums; json::Object typedefs;
    for (auto *T: DIF.types()) {
      if (auto *D = dyn_cast<DIDerivedType>(T)) { if (D->getTag()==dwarf::DW_TAG_typedef) { if (auto*C=diComposite(D->getBaseType())) { std::string cn=C->getName().str(); if(cn.empty()) cn=anonName(C); typedefs[D->getName().str()]=cn; } } continue; }
      auto *C = dyn_cast<DICompositeType>(T); if(!C) continue;
      std::string cn=C->getName().str(); if(cn.empty()) cn=anonName(C);
      if (C->getTag()==dwarf::DW_TAG_enumeration_type) { json::Object e; for (auto *El: C->getElements()) if (auto*En=dyn_cast<DIEnumerator>(El)) e[En->getName().str()]=apStr(En->getValue(),!En->isUnsigned()); enums[cn]=std::move(e); continue; }
      if (C->getTag()!=dwarf::DW_TAG_structure_type && C->getTag()!=dwarf::DW_TAG_union_type) continue;
      json::Object so; so["size"]=(int64_t)(C->getSizeInBits()/8); so["union"]= C->getTag()==dwarf::DW_TAG_union_type; json::Array ms;
      for (auto *El: C->getElements()) if (auto*Mb=dyn_cast<DIDerivedType>(El)) if (Mb->getTag()==dwarf::DW_TAG_member) { json::Object m; m["name"]=Mb->getName().str(); m["off"]=(int64_t)(Mb->getOffsetInBits()/8); m["size"]=(int64_t)(Mb->getSizeInBits()/8); m["type"]=diTypeStr(Mb->getBaseType()); if (auto*IC=diComposite(Mb->getBaseType())) { std::string icn=IC->getName().str(); if(icn.empty()) icn=anonName(IC); if (IC->getTag()!=dwarf::DW_TAG_enumeration_type && IC->getTag()!=dwarf::DW_TAG_array_type) m["composite"]=icn; } ms.push_back(std::move(m)); }
      so["members"]=std::move(ms); dits[cn]=std::move(so); }
    top["ditypes"]=std::move(dits); top["enums"]=std::move(enums); top["typedefs"]=std::move(typedefs); }

  json::Array fns;
  for (auto &F:*M){ json::Object fo; fo["name"]=F.getName().str(); fo["decl"]=F.isDeclaration(); fo["ret"]=tyStr(F.getReturnType()); fo["internal"]=F.hasLocalLinkage(); fo["noreturn"]=F.doesNotReturn();
    json::Array ps; DITypeRefArray TA; bool hasTA=false; if (auto*SP=F.getSubprogram()){ TA=SP->getType()->getTypeArray(); hasTA=true; fo["file"]=SP->getFilename().str(); fo["line"]=(int64_t)SP->getLine(); }
    /* a struct returned by value is lowered to a hidden first parameter (sret): the source-level parameters are shifted by one */
    const unsigned sretShift = (F.arg_size() > 0 && F.hasParamAttribute(0, Attribute::StructRet)) ? 1 : 0; fo["sret"]=(bool)sretShift;
    for (auto &A:F.args()){ json::Object p; p["t"]=tyStr(A.getType()); unsigned i=A.getArgNo()+1-sretShift; if (sretShift && A.getArgNo()==0) i=TA.size()+1000; p["pointee_const"]= hasTA && i<TA.size() ? pointeeConst(TA[i]) : false; p["name"]=A.getName().str(); if (hasTA && i<TA.size()) p["di"]=diTypeStr(TA[i]); ps.push_back(std::move(p)); }
    fo["params"]=std::move(ps);
    if (!F.isDeclaration()){ MST.incorporateFunction(F); json::Array bs; C.ids.clear(); { int n=0; for(auto&B:F){ C.ids[&B]=n++; } int m=0; for(auto&B:F) for(auto&I:B){ if(isa<DbgInfoIntrinsic>(I)) continue; C.ids[&I]= I.getType()->isVoidTy()? -1 : m++; } }
      // arg names from dbg.declare/value are gone after mem2reg; use DILocalVariable via dbg.value
      std::map<unsigned,std::string> argNames; for(auto&B:F) for(auto&I:B) if(auto*DV=dyn_cast<DbgVariableIntrinsic>(&I)){ auto*Var=DV->getVariable(); if(Var&&Var->getArg()&&!(DV->getDebugLoc()&&DV->getDebugLoc().getInlinedAt())) argNames[Var->getArg()-1+sretShift]=Var->getName().str(); }
      std::map<const Value*,std::string> allocaNames; for(auto&B:F) for(auto&I:B) if(auto*DD=dyn_cast<DbgDeclareInst>(&I)){ if(auto*AI=dyn_cast_or_null<AllocaInst>(DD->getAddress())) if(DD->getVariable()) { allocaNames[AI]=DD->getVariable()->getName().str(); } }
      json::Object an; for(auto&kv:argNames) an[std::to_string(kv.first)]=kv.second; fo["argnames"]=std::move(an);
      for (auto&B:F){ json::Object bo; bo["id"]=(int64_t)C.id(&B); json::Array is;
        for (auto&I:B){ if (isa<DbgInfoIntrinsic>(I)) continue; json::Object io; io["op"]=I.getOpcodeName(); io["id"]=(int64_t)C.id(&I); if (I.hasName()) io["name"]=I.getName().str(); else if (!I.getType()->isVoidTy()) io["name"]=std::to_string(MST.getLocalSlot(&I)); io["t"]=tyStr(I.getType());
          if (auto&D=I.getDebugLoc()){ io["line"]=(int64_t)D.getLine(); io["col"]=(int64_t)D.getCol(); if (auto*S=D->getScope()) io["file"]=S->getFilename().str(); }
          json::Array ops; for (auto&O:I.operands()) ops.push_back(operand(C,O)); io["ops"]=std::move(ops);
          if (auto*IC=dyn_cast<ICmpInst>(&I)) io["pred"]=CmpInst::getPredicateName(IC->getPredicate()).str();
          if (auto*FC=dyn_cast<FCmpInst>(&I)) io["pred"]=CmpInst::getPredicateName(FC->getPredicate()).str();
          if (auto*AI=dyn_cast<AllocaInst>(&I)){ io["alloc_t"]=tyStr(AI->getAllocatedType()); io["alloc_size"]=(int64_t)DL.getTypeAllocSize(AI->getAllocatedType()).getFixedSize(); auto it=allocaNames.find(AI); if(it!=allocaNames.end()) io["varname"]=it->second; }
          if (auto*LI=dyn_cast<LoadInst>(&I)){ io["size"]=(int64_t)DL.getTypeStoreSize(LI->getType()).getFixedSize(); io["align"]=(int64_t)LI->getAlign().value(); if(LI->isVolatile()) io["volatile"]=true; }
          if (auto*SI=dyn_cast<StoreInst>(&I)){ io["size"]=(int64_t)DL.getTypeStoreSize(SI->getValueOperand()->getType()).getFixedSize(); io["align"]=(int64_t)SI->getAlign().value(); }
          if (auto*GEP=dyn_cast<GetElementPtrInst>(&I)){ io["src_t"]=tyStr(GEP->getSourceElementType()); int64_t coff=0; json::Array var; for (auto GTI=gep_type_begin(GEP),GE=gep_type_end(GEP);GTI!=GE;++GTI){ Value*Idx=GTI.getOperand(); if (StructType*ST=GTI.getStructTypeOrNull()){ unsigned fi=cast<ConstantInt>(Idx)->getZExtValue(); coff+=DL.getStructLayout(ST)->getElementOffset(fi); json::Object fld; fld["struct"]=ST->hasName()?ST->getName().str():"anon"; fld["field"]=(int64_t)fi; io["field"]=std::move(fld);} else { int64_t stride=DL.getTypeAllocSize(GTI.getIndexedType()).getFixedSize(); if (auto*CI=dyn_cast<ConstantInt>(Idx)) coff+=stride*CI->getSExtValue(); else { json::Object v; v["idx"]=operand(C,Idx); v["stride"]=stride; var.push_back(std::move(v)); } } } io["coff"]=coff; io["var"]=std::move(var); }
          if (auto*CB=dyn_cast<CallBase>(&I)){ if (auto*CF=CB->getCalledFunction()){ io["callee"]=CF->getName().str(); if (CF->isIntrinsic()) io["intrinsic"]=true; } else { io["callee"]=nullptr; if (CB->isInlineAsm()) io["asm"]=true; } io["nargs"]=(int64_t)CB->arg_size(); }
          if (auto*SW=dyn_cast<SwitchInst>(&I)){ json::Array cs; for (auto &Cs: SW->cases()){ json::Object c; c["v"]=apStr(Cs.getCaseValue()->getValue()); c["b"]=(int64_t)C.id(Cs.getCaseSuccessor()); cs.push_back(std::move(c)); } io["cases"]=std::move(cs); io["default"]=(int64_t)C.id(SW->getDefaultDest()); }
          if (auto*PN=dyn_cast<PHINode>(&I)){ json::Array inc; for (unsigned k=0;k<PN->getNumIncomingValues();k++){ json::Object c; c["v"]=operand(C,PN->getIncomingValue(k)); c["b"]=(int64_t)C.id(PN->getIncomingBlock(k)); inc.push_back(std::move(c)); } io["incoming"]=std::move(inc); }
          if (auto*EV=dyn_cast<ExtractValueInst>(&I)){ json::Array ix; for (unsigned x: EV->indices()) ix.push_back((int64_t)x); io["indices"]=std::move(ix); }
          if (auto*IV=dyn_cast<InsertValueInst>(&I)){ json::Array ix; for (unsigned x: IV->indices()) ix.push_back((int64_t)x); io["indices"]=std::move(ix); }
          if (auto*OB=dyn_cast<OverflowingBinaryOperator>(&I)){ io["nuw"]=OB->hasNoUnsignedWrap(); io["nsw"]=OB->hasNoSignedWrap(); }
          is.push_back(std::move(io)); }
        bo["insts"]=std::move(is); bs.push_back(std::move(bo)); }
      fo["blocks"]=std::move(bs); }
    fns.push_back(std::move(fo)); }
  top["functions"]=std::move(fns);
  outs()<<json::Value(std::move(top))<<"\n"; return 0; }
