#!/bin/sh
# scratch.sh <benign-or-seed-dir> : make a scratch copy of /repo HEAD with the patch applied, print its path (remove it yourself)
T=$(mktemp -d /tmp/verif-scr-XXXXXX)
git -C /repo archive HEAD | tar -x -C "$T"
patch -p1 -s -d "$T" -i "$(realpath "$1")/patch.diff" || exit 1
echo "$T"
