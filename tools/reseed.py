#!/usr/bin/env python3
"""Re-verify every seeded change under /verif/seeded against /repo's HEAD and record what the checks say about it.
For each seeded/<name>/ : scratch copy of HEAD -> demo on the clean tree (must pass) -> apply patch.diff -> demo (must fail) ->
cmake build + ctest (13/13 must pass) -> run the listed checks on the changed copy -> write checks.txt and meta.json.
The scratch copy is removed; nothing in /repo is touched.   usage: reseed.py [name-filter]"""
import json, os, re, shutil, subprocess, sys, tempfile
sys.path.insert(0, os.path.dirname(os.path.abspath(__file__)))
import mut

VERIF = mut.VERIF
# which checks to run per seed (the property's own check first) and the hand-written description of the change
SEEDS = {
 # ---- batch 9 ----
 "C05-tagged-9byte-native-store-endian-inverted": (["C05", "C01", "C04"], "new _varintRead64/_varintWrite64 helpers for the 9-byte tagged class take the native memcpy path when the host is little-endian (test inverted): the 8 payload bytes are stored low byte first by Put64, Put64FixedWidth and read the same way by Get", "two values >= 2^56 that differ below the top byte, compared bytewise on a little-endian host"),
 "C07-common-exponent-min-includes-zero-subnormal": (["C07"], "the COMMON_EXPONENT scan of varintFloatEncode takes min_exp over zeros and subnormals too (placeholder exponents 0 / -1022): the uint8_t per-value exponent delta wraps and normal values decode with a wrong exponent, even in FULL precision", "COMMON_EXPONENT mode with a subnormal beside a normal of exponent > -767, or a zero beside a normal >= 2^256"),
 "C17-bitstream-set-boundary-rewrites-next-slot": (["C17", "C11"], "varintBitstreamSet takes the two-slot path when the value ends exactly on a slot boundary (`> 0` for `>= 0`): the next slot is read and written back unchanged - a racing read-modify-write of storage the caller does not own (and one slot past the end for the last slot)", "(offset + bits) % 64 == 0 and a concurrent writer on the adjacent slot"),
 "C10-entry-offset-row-base-unscaled": (["C10"], "getEntryByteOffset adds the column term outside the row branches and the row base became row * cols instead of row * cols * entryWidthBytes: rows overlap for every entry wider than one byte, offsets stay inside the buffer", "entry width > 1, more than one row, a write to row >= 1 and a later read of another cell"),
 # ---- batch 8 ----
 "C01-splitfull-reversedforward-minimal-width": (["C01", "C04"], "varintSplitFullReversedPutForward_ writes the external payload with the minimal-width varintExternalPut: a 1-byte payload is no longer promoted to 2 bytes, the unused tag 11000001 appears and the length is 2 where Length_/Put_/ReversedPutReversed_ say 3",
                                                 "one of the 255 values VARINT_SPLIT_FULL_MAX_22 + 1 .. + 255 through the forward reversed writer"),
 "C03-rle-encode-end-marker-over-max": (["C03", "C16"], "varintRLEEncode appends a 2-byte end marker and Analyze/Size add 2, but varintRLEMaxSize stays count * 10", "no two adjacent values equal and every value needing 9 tagged bytes"),
 "C04-split-two-byte-level-exclusive-compare": (["C04", "C01"], "the two-byte level test of the split writers became `v - MAX_6 < 0x3fff` (inclusive maximum, exclusive compare): 16446 is written with the VAR-level code point 81 00", "exactly the value 16446"),
 "C05-tagged-3byte-bias-max2": (["C05", "C04", "C01"], "the 3-byte tagged class is biased by VARINT_TAGGED_MAX_2 (2287) instead of 2288 in encoder and decoder alike: 67823 gets payload 65536, which wraps to f9 00 00 and sorts below every other 3-byte encoding", "the value 67823 compared with any value in 2288..67822"),
 "C06-bitmap-decode-rejects-full-array": (["C06", "C08", "C14"], "varintBitmapDecode refuses an array container of exactly VARINT_BITMAP_ARRAY_MAX (4096) entries, which varintBitmapAdd legitimately produces: the adaptive BITMAP arm encodes and then decodes nothing", "exactly 4096 strictly increasing values below 65536"),
 "C07-auto-thresholds-round-to-nearest": (["C07"], "varintFloatEncodeAuto compares the requested error with u/(1+u) instead of u = 2^-m; truncateMantissa saturates instead of carrying, so the real worst case is just under 2^-m", "a requested error in [1/17, 1/16) (or the other two windows) and a value just below a power of two"),
 "C08-removerange-all-but-last-clears": (["C08"], "varintBitmapRemoveRange(vb, 0, 65535) takes a fast path that clears the whole set although the half-open range excludes 65535", "a set containing 65535 and exactly that range"),
 "C09-binary-search-mid-narrowed": (["C09"], "the binary search computes mid as (PACKED_LEN_TYPE)(min + max) >> 1: with an 8- or 16-bit length type the sum wraps before it is halved and mid can fall below min (non-termination / wrong position)", "an instantiation with a narrow length type filled past half its range"),
 "C10-togglebit-previous-unmasked": (["C10"], "ToggleBit returns dst[byte] >> bit without & 1 as the previous value: any higher bit set in the same byte makes it true", "toggling a 0 cell while a cell mapping to a higher bit of the same byte is 1"),
 "C11-set-overflow-keep-mask-wrong-shift": (["C11"], "the mask that preserves the second word in a straddling varintBitstreamSet is shifted by the low-bit position instead of the number of spilled bits", "a straddling write with a number of spilled bits != half the slot into a second word that already holds data"),
 "C12-external-add-width-never-shrinks": (["C12", "C01"], "varintExternalAdd_ measures the new width starting at the current width (never smaller) but still stores with the auto-sizing Put: a narrower sum leaves the old high bytes and the old width is returned", "an addition (of a negative amount) that crosses a byte-width boundary downward"),
 "C13-dict-decodeinto-capacity-by-dictsize": (["C13", "C14"], "varintDictDecodeInto checks dictSize > maxValues instead of count > maxValues", "uniqueValues <= capacity < count"),
 "C14-bitmap-decode-dense-total-length": (["C14"], "the dense-bitmap branch of varintBitmapDecode compares the total length, not the payload left after the 5-byte header, with 8192", "type byte 1 and a declared length of 8192..8196"),
 "C15-pfor-exception-count-from-sorted-ties": (["C15", "C16", "C03"], "varintPFORComputeThreshold derives exceptionCount from the sorted position (count - 1 - thresholdIndex): ties with the percentile value inflate it, varintPFOREncode allocates that many records, fills the real ones and writes them all", "the percentile value equal to a later sorted value (saturated / constant data)"),
 "C16-pfor-size-index-budget-from-exceptioncount": (["C16", "C03"], "varintPFORSize budgets each exception index with varintTaggedLen(meta->exceptionCount) instead of the worst case", "outliers at indices whose tagged length exceeds that of the exception count, with 9-byte values"),
 "C17-dict-find-last-hit-hint": (["C17"], "varintDictFind keeps a lastHit hint inside the caller's const varintDict (written through a cast)", "two threads sharing one pre-built dictionary"),
 "C18-float-decode-oom-inplace-expand": (["C18", "C07"], "when the packed-mantissa scratch allocation fails varintFloatDecode expands in place in the mantissa array and reports success with wrong values", "the 5th allocation failing and a special value ahead of two normal ones"),
 "C01-tagged-8byte-class-boundary-slip": (["C01", "C04", "C05"], None, None),
 "C03-rle-size-one-byte-fastpath": (["C03", "C16"], "varintRLEAnalyze (hence varintRLESize, meta->encodedSize) sizes a run length <= 255 as one byte through a new helper; the tagged one-byte form ends at 240",
                                    "a run of 241..255 equal values"),
 "C04-tagged-max3-derived-constant": (["C04", "C01"], None, None),
 "C05-tagged-6byte-low-word-first": (["C05", "C04", "C01"], "the 6-byte tagged class stores the low 32-bit word before the extra high byte (encoder, fixed-width encoder and decoder changed together, so round trips still work)",
                                     "two values in [2^32, 2^40) whose numeric order differs from the order of their low words, compared with memcmp"),
 "C06-countunique-sampling-threshold-lowered": (["C06"], "varintAdaptiveCountUnique starts sampling at count > 1000 instead of > 10000, so uniqueCount == count no longer means duplicate-free below the BITMAP gate's count < 10000",
                                                "1000 < count < 10000 ascending values < 65536, dense, with one adjacent duplicate the 1-in-10 sample does not see"),
 "C07-delta-exponent-prev-includes-specials": (["C07", "C15"], "the DELTA_EXPONENT float encoder takes each exponent delta against the previous array slot instead of the previous normal value; the decoder still chains over normal values only",
                                               "DELTA_EXPONENT mode with a special value (0, NaN, Inf, subnormal) between two normal values of different exponent"),
 "C08-clear-ignores-runs-container": (["C08"], "varintBitmapClear only resets the BITMAP container; a RUNS container keeps numRuns",
                                      "AddRange longer than 4096 on an empty set (RUNS container), then Clear, then any query"),
 "C09-set-one-slot-test-strict": (["C09"], "PACKED_ARRAY_SET takes the two-slot path when the element ends exactly at the slot boundary (<= became <)",
                                  "an element whose last bit is the last bit of its slot, with a live neighbour in the next slot / at the end of the array"),
 "C10-bitoffsets-cols-read-with-row-width": (["C10"], "the bit-matrix accessors read the column count with the row count's byte width",
                                             "a bit matrix whose row-count width differs from its column-count width, cell in row >= 1"),
 "C11-set-skips-overflow-word-when-low-bits-zero": (["C11"], "varintBitstreamSet skips the read-modify-write of the second word when the spilled part of the value is zero, so stale bits survive there",
                                                    "a field straddling two words, overwritten by a value whose low (spilled) bits are zero while the old ones were not"),
 "C12-tagged-add-keep-width-fixedwidth": (["C12", "C01"], "varintTaggedAdd re-stores a sum that needs fewer bytes with the fixed-width form of the old width; widths 2 and 3 are offset encodings and cannot hold values below their base",
                                          "a negative amount taking a width-2/3 value below 240 / 2288"),
 "C13-bp128-zero-block-fastpath": (["C13"], None, None),
 "C14-dict-bounded-read-off-by-one": (["C14"], None, None),
 "C15-float-signs-unwritten-for-specials": (["C15", "C07"], None, None),
 "C16-rle-analyze-run-size-helper": (["C16", "C03"], None, None),
 "C17-pfor-static-scratch": (["C17"], None, None),
 "C18-dictbuild-capacity-before-realloc": (["C18"], None, None),
 # ---- batch 3 (agents were told which place earlier seeds had already used) ----
 "C01-chained-len-clz-56-bits": (["C01", "C04"], "varintChainedVarintLen rewritten with count-leading-zeros; its 9-byte early-out uses bits >= 56 instead of > 56, so the predictor says 9 where encoder and decoder use 8",
                                 "values with exactly 56 significant bits"),
 "C03-elias-delta-max-bytewise-rounding": (["C03"], "varintEliasDeltaMaxBytes rewritten as count*9 + count/2 (76 bits = 9.5 bytes): rounds the half byte down, one byte short for odd counts; the companion Gamma rewrite is exactly equivalent",
                                           "odd count of values >= 2^63 and a buffer of exactly the bound"),
 "C03-for-encode-wide-store-spill": (["C03", "C13"], "varintFOREncode packs offsets with 8-byte wide stores guarded by perWord = 8 / width (rounds down): widths 3, 5, 6, 7 spill 1-3 bytes past varintFORSize",
                                     "offset width 3, 5, 6 or 7 and a buffer of exactly varintFORSize bytes"),
 "C06-bitmap-range-inclusive-65536": (["C06"], "fitsInBitmapRange uses maxValue <= 65536; the BITMAP arm of the encoder skips values >= 65536, so the last element is dropped",
                                      "ascending duplicate-free dense array whose maximum is exactly 65536"),
 "C08-runs-extend-last-run-wraps": (["C08"], "varintBitmapAdd on a RUNS container extends the last run in place (length++); the uint16_t length wraps when [0,65535) grows by one",
                                    "AddRange(0,65535) on an empty set followed by Add(65535)"),
 "C10-pairdecode-cols-at-cols-offset": (["C10"], "varintDimensionPairDecode reads the column count at pair + widthCols instead of pair + widthRows",
                                        "row-count and column-count widths differ; typed accessor; row >= 1"),
 "C12-external-add-decrement-fastpath": (["C12"], "varintExternalAdd_ returns through varintExternalPut for add <= 0 before the grow / no-grow guard: a negative sum is stored as 8 bytes into a narrower slot by the no-grow form",
                                         "no-grow add, negative amount, stored + amount < 0, slot narrower than 8 bytes"),
 "C13-rle-decode-short-run-fastpath": (["C13"], "varintRLEDecode gains a fast path for runs of length 1 or 2 that bypasses the capacity clamp",
                                       "capacity smaller than the stored count with a run of exactly 2 straddling the capacity"),
 "C14-bitmap-decode-runs-bound-wraps": (["C14"], "varintBitmapDecode's RUNS bound check multiplies numRuns by a uint32_t constant instead of dividing len: wraps modulo 2^32",
                                        "hostile numRuns >= 2^30 whose product wraps below the remaining length"),
 "C15-bp128-partial-advance-from-bitpos": (["C15", "C03", "C16"], "varintBP128Encode32's partial block advances by bitPos/8 + 1 instead of ceil(bits/8): when the bits end on a byte boundary the returned length covers a byte never written",
                                           "count % 128 != 0, (count % 128) * bitWidth a multiple of 8, dirty destination buffer"),
 "C16-pfor-exception-count-shortcut": (["C16", "C03"], "varintPFORComputeThreshold computes exceptionCount as count - 1 - thresholdIndex instead of counting values above the threshold",
                                       "duplicates of the percentile value beyond the threshold index"),
 # ---- batch 4 ----
 "C01-split-width-readback-mask": (["C01", "C04"], "varintSplitEncodingWidthBytesExternal_ reads the stored width as first byte & 0x07: the 9-byte type byte 0x88 needs bit 3, so width 8 reads back as 0",
                                   "a split varint in the 9-byte class (value >= 16446 + 2^56), forward or reversed"),
 "C14-tagged-get-length-check-off-by-one": (["C14", "C01"], "varintTaggedGet compares n with the payload size (first byte - 247) instead of the total width: an encoding cut short by one byte is accepted and read past its declared input",
                                            "a tagged varint of width >= 3 truncated by exactly one byte"),
 "C16-bp128-delta64-blockcount": (["C16"], "varintBP128DeltaEncode64 reports blockCount as (count-1)/128 + 1: one block too many when count-1 is a multiple of 128",
                                  "count = 128k + 1 with a non-NULL meta"),
 "C13-bp128-decode32-zero-tail-clamp": (["C13"], "varintBP128Decode32's capacity clamp on the trailing partial block moved into the bit-unpacking branch: the all-zero memset path uses the unclamped count",
                                        "all-zero trailing partial block, capacity between the last full-block boundary and the count"),
 "C04-splitfull-length-early-test": (["C04", "C01"], "varintSplitFullLengthVAR_ tests the value with < UINT8_MAX instead of the byte length == 1: the last value of the unused range is written as 2 bytes with the tag documented NOT USED",
                                     "exactly the value 4211004 in split-full"),
 "C17-dict-free-cache": (["C17", "C15"], "varintDictFree keeps the last freed dictionary in a file-scope static pointer and varintDictCreate hands it out again",
                         "two threads overlapping in the dictionary helpers, inputs with more than 16 distinct values"),
 "C05-tagged-addnogrow-keeps-width": (["C05", "C12", "C04"], "varintTaggedAddNoGrow keeps a 4-byte-or-wider varint at its original width when the value shrinks (padded fixed-width form): equal values no longer have identical bytes and memcmp order is wrong",
                                      "encode >= 67824, add a negative delta that drops it into a lower width class, compare bytes with another key"),
 "C07-compose-clamp-dbl-min-exp": (["C07"], "varintFloatCompose clamps with exponent < DBL_MIN_EXP (-1021) instead of -1022: the smallest normal binade is flushed to zero",
                                   "a double in [2^-1022, 2^-1021)"),
 "C11-get-single-slot-test-strict": (["C11"], "varintBitstreamGet takes the two-slot path when the field ends exactly on a slot edge: reads the following word and shifts by the word size",
                                     "(offset mod 64) + width == 64"),
 "C03-float-max-size-two-byte-exponent": (["C03"], "varintFloatMaxEncodedSize charges 2 bytes per exponent instead of 9 and takes the larger of normal and special cost instead of their sum",
                                          "FULL precision, INDEPENDENT mode, doubles whose exponent is outside [-128, 127]"),
 "C09-setincr-keep-mask-not-widened": (["C09"], "PACKED_ARRAY_SET_INCR's keep-mask for the second slot is complemented in 32 bits and zero-extended: bits 32..63 of a 64-bit slot are cleared",
                                       "64-bit slots, SetIncr on an element straddling two slots, data in the upper half of the second slot"),
 "C18-countunique-fallback-claims-all-unique": (["C18", "C06"], "the out-of-memory fallbacks of varintAdaptiveCountUnique return count (all unique) instead of count - 1: BITMAP can be selected for input with duplicates",
                                                "the first allocation fails; ascending input < 65536 with a duplicate, dense, count < 10000"),
 # ---- batch 5 ----
 "C13-bp128-delta-decode32-room-check": (["C13"], "varintBP128DeltaDecode32's room check for a full block uses decoded - 1 as the base: a full 128-value block is accepted when only 127 slots remain",
                                         "capacity an exact non-zero multiple of 128, smaller than the count"),
 "C10-row-width-macro-masked": (["C10"], "VARINT_DIMENSION_PAIR_WIDTH_ROW_COUNT masks the row width with 0x07: width 8 reads back as 0",
                                "row counts >= 2^56 (8-byte row width)"),
 "C08-add-array-full-convert-before-search": (["C08"], "varintBitmapAdd converts a full array container to a bitmap before looking the value up: an existing member is counted again",
                                              "ARRAY container with exactly 4096 members, add of an existing member"),
 "C06-for-arm-reuses-caller-meta": (["C16", "C06", "C15"], "the FOR arm of varintAdaptiveEncodeWith passes the caller's meta->encodingMeta.forMeta to varintFOREncode, which treats a meta with matching count as already analysed",
                                    "the same varintAdaptiveMeta reused for a second FOR-selected block of equal length"),
 "C01-external-be-56b-stores-8": (["C01"], "the big-endian external encoder's 7-byte case ends with an 8-byte memcpy",
                                  "big-endian external family, width exactly 7, a live byte after the encoding"),
 "C15-remove-runs-to-bitmap-malloc": (["C15", "C08"], "varintBitmapRemove's RUNS-to-BITMAP conversion allocates the bit array with malloc instead of calloc",
                                      "RUNS container (AddRange > 4096 on an empty set), Remove while cardinality >= 4096, recycled heap block"),
 "C12-tagged-add-unsigned-overflow-check": (["C12"], "VARINT_ADD_OR_ABORT_OVERFLOW_ uses the type-generic __builtin_add_overflow and varintTaggedAdd's sum became uint64_t: overflow is measured against the unsigned range",
                                            "sum outside [0, INT64_MAX]"),
 "C14-dict-decodeinto-room-from-buffer-start": (["C14"], "varintDictDecodeInto checks that the indices fit against end - buffer (the whole input) instead of end - ptr: header bytes already consumed are ignored",
                                                "input whose index area is cut short by 1..header-length bytes"),
 "C09-startoffset-multiplied-before-widening": (["C09"], "the packed array's startOffset multiplies offset * BITS in the 32-bit index type before widening",
                                                "element index with index * width >= 2^32 (arrays over 512 MiB)"),
 "C11-signbit-macro-int-shift": (["C11"], "the signed prepare/restore helpers build the sign mask with (1 << (w - 1)) in int instead of 1ULL",
                                 "negative values through the signed helpers with a field width of 32 or more"),
 "C04-chainedsimple-max-width-named-constant": (["C04", "C01"], "chained-simple's notAtMaximumWidth compares the byte offset with 9 instead of 8: values with bit 63 set are written as 10 bytes",
                                                "values >= 2^63 in the chained-simple family"),
 "C18-adaptive-suboom-falls-back-to-tagged": (["C18", "C06"], "when a sub-encoder returns 0 varintAdaptiveEncodeWith falls back to tagged encoding and reports success, but dst[0] still carries the requested type",
                                              "an allocation failure inside the PFOR or DICT arm"),
 "C03-dict-size-early-exit-8-bytes": (["C03"], "varintDictEncodedSizeWithDict stops measuring entries once one reaches 8 bytes and charges 8 for the rest; tagged values go up to 9",
                                      "a dictionary with an 8-byte-wide value and at least one larger one"),
 "C16-for-analyze-early-scan-exit": (["C16"], "varintFORAnalyze stops the min/max scan once the range exceeds 2^56: minimum and maximum are those of a prefix",
                                     "range reaching 2^56 before the end of the array with a later extreme"),
 "C18-array-grow-realloc-in-place": (["C18"], "arrayEnsureCapacity_ assigns realloc's result straight to the values field: on failure the old array is leaked and the field is NULL with cardinality > 0",
                                     "allocation failure exactly at the array growth realloc"),
 "C01-chainedsimple-decode-masks-ninth-byte": (["C01", "C04"], "varintChainedSimpleDecode64 masks every byte with 0x7f, including the ninth byte of a full-width encoding, which carries 8 payload bits",
                                               "any value >= 2^63 decoded with the 64-bit chained-simple decoder"),
 "C03-pfor-encode-threshold0-default": (["C03", "C16", "C06"], "varintPFOREncode treats threshold 0 as the default (95) while varintPFORComputeThreshold / varintPFORSize still treat it as the 0th percentile: the encoder writes more than varintPFORSize promised for the same arguments",
                                        "threshold == 0 and data where most values equal the minimum but more than 5% are large"),
 "C04-delta-zigzag-shift-31": (["C04", "C01", "C03"], "varintDeltaZigZag builds the sign mask with n >> 31 instead of n >> 63: the zig-zag map is wrong for |n| >= 2^31, the encoder writes other bytes than the format defines",
                               "a base value or delta of magnitude 2^31 or more"),
 "C05-tagged-class-from-truncated-offset": (["C05", "C04", "C01"], "varintTaggedPut64 chooses the 2- and 3-byte classes from the offset truncated to 32 bits: k*2^32 + v encodes like v",
                                            "a value k*2^32 + v with k != 0 and v in 240..67823"),
 "C06-dict-decodeinto-index-width-from-size": (["C06", "C14", "C13"], "varintDictDecodeInto (the decoder of the adaptive DICT arm) derives the index width from dictSize instead of dictSize - 1; the encoder still uses size - 1",
                                               "exactly 256 or 65536 distinct values with DICT selected or forced"),
 "C07-truncate-carry-flag-sticky": (["C07", "C15"], "a rounding carry out of the mantissa field now bumps the exponent, but the carry flag is declared outside the loop and never cleared: every later normal value is doubled",
                                    "reduced precision, an element that rounds with a carry followed by other normal values"),
 "C08-and-smaller-selector-tie": (["C08"], "varintBitmapAnd picks the smaller operand with <= and the other with <: on equal cardinalities both are vb1 and the result is a copy of vb1",
                                  "two operands of equal cardinality, at least one not an array container"),
 "C09-delete-zeroes-past-end": (["C09", "C13"], "PACKED_ARRAY_DELETE zeroes the vacated tail position at index len instead of len - 1: one element beyond the array is modified",
                                "a full array followed by other data, or an exactly sized buffer"),
 "C10-pack-level-limit-inclusive": (["C10"], "varintDimensionPack compares maxCoord > levelLimit instead of >= 2^bits: a coordinate equal to 16^k is packed at level k and its top bit spills into the row field",
                                    "max(row, col) exactly 16^k with that value in the column"),
 "C11-set-full-slot-early-out": (["C11"], "varintBitstreamSet stores a full-slot-width value straight into out[0] whatever the start bit",
                                 "width == bits per slot at an offset that is not slot aligned"),
 "C12-tagged-add-orig-width-from-value": (["C12", "C05"], "varintTaggedAdd takes the current width from the minimal width of the stored value instead of from the tag byte: on a slot stored wider than minimal the no-grow add refuses sums that fit and reports success",
                                          "a value stored with varintTaggedPut64FixedWidth wider than minimal, no-grow add crossing a width boundary"),
 "C13-elias-decode-check-after-store": (["C13", "C14"], "both Elias array decoders test decoded >= maxCount only after storing: the first element is written unconditionally",
                                        "capacity 0 with a non-empty stream"),
 "C14-dict-decode-index-room-without-width": (["C14", "C13"], "varintDictDecode compares the announced count with the bytes left instead of bytes left / indexWidth",
                                              "more than 256 dictionary entries and an input cut so that count <= bytes left < count * indexWidth"),
 "C15-adaptive-for-arm-passes-caller-meta": (["C15", "C16", "C06"], "the FOR arm of varintAdaptiveEncodeWith hands the meta of the caller,->encodingMeta.forMeta to varintFOREncode, which skips its analysis when meta->count == count",
                                             "a meta object reused from an earlier FOR encode of the same count with other data"),
 "C16-group-size-pow2-one-smear-short": (["C16", "C03"], "varintGroupSize rounds widths to a power of two with one smear step missing: a 5-byte field is sized 4... 1 byte short per such field",
                                         "a field value in [2^32, 2^40)"),
 "C17-group-getsize-lazy-static-table": (["C17", "C15"], "varintGroupGetSize walks the bitmap through a file-scope table built on first use with an unsynchronised check-then-build that accumulates with +=",
                                         "first calls overlapping in two threads on groups of at least 4 fields"),
 "C18-remove-shrink-fail-undo-keeps-count": (["C18", "C08"], "when the BITMAP->ARRAY shrink allocation fails varintBitmapRemove re-sets the bit and returns false but leaves the decremented cardinality",
                                             "Remove taking the cardinality from 4096 to 4095 with that malloc failing"),
 "C01-splitfull16-get-int-shift-sign-extends": (["C01", "C04"], "varintSplitFull16Get_ reads the 4-byte payload inline without uint64_t casts: (ptr)[4] << 24 is an int and sign-extends",
                                                "a 5-byte split-full-16 value whose top payload byte is >= 0x80"),
 "C03-dict-encode-index-width-from-size": (["C03", "C06", "C16"], "a new helper sizes the dictionary index width for dictSize instead of dictSize - 1 in the encoder and both decoders; varintDictBuild and the size predictors keep size - 1: the encoder writes count more bytes than advertised",
                                           "exactly 256, 65536 or 16777216 distinct values"),
 "C04-external-bigendian-48b-half-swap": (["C04", "C01"], "the 6-byte case of the big-endian external copy helper byte-swaps the two halves without exchanging them: the wire bytes are b1 b0 b5 b4 b3 b2",
                                          "a value in [2^40, 2^48) in the external big-endian family, read by anything but the library itself"),
 "C05-tagged-7byte-header-word-clobbers-low": (["C05", "C04", "C01"], "the 7-byte tagged class stores the low word first and then the tag plus high bytes with one 32-bit store whose zero pad byte overwrites the top byte of the low word",
                                               "values in [2^40, 2^48) differing in bits 24..31"),
 "C06-checksorted-skips-last-pair": (["C06"], "varintAdaptiveCheckSorted takes the direction from the endpoints and never compares the final pair: an array whose only descent is the last step is reported sorted and can be routed to BITMAP",
                                     "ascending except the final step, last >= first, bitmap gate otherwise satisfied"),
 "C07-decode-full-drops-implicit-bit": (["C07"], "varintFloatDecodes FULL branch no longer ORs the implicit bit back in; with varintFloatComposes zero shortcut exactly +-1.0 decodes as +-0.0",
                                        "FULL precision and a value that is exactly +-1.0"),
 "C08-bitmap-to-array-skips-65535": (["C08", "C15"], "bitmapToArray_ loops with a uint16_t index bounded by UINT16_MAX: bit 65535 is never inspected, the member is dropped while the cardinality stays",
                                     "a set containing 65535 shrinking from the bitmap to the array container"),
 "C09-deletemember-reads-past-end": (["C09"], "DeleteMember does its own binary search and Get guarded only by len > 0: for a value above every element it reads element len, a stale slot, and may delete a non-member",
                                     "member greater than all elements and the slot past the end decoding to it"),
 "C10-pairencode-rows-8byte-store": (["C10"], "varintDimensionPairEncode writes the row count as a full 8-byte store and the column count over its tail: headers shorter than 8 bytes zero the first cells of the matrix",
                                     "re-stamping a short header on a populated matrix"),
 "C11-value-bits-macro-from-valtype": (["C11"], "BITS_PER_VALUE_TYPE_ becomes sizeof(vbitsVal)*8 while valueMask is still built from ~0ULL: with a value type narrower than 64 bits the mask is all ones",
                                       "VBITSVAL uint32_t and non-zero earlier bits in the slot"),
 "C12-external-add-clears-too-many": (["C12", "C13"], "after a shrinking sum varintExternalAdd_ clears memset(p + newEncoding, 0, origEncoding) instead of origEncoding - newEncoding: bytes beyond the slot are zeroed",
                                      "external family, sum crossing a width boundary downward"),
 "C13-group-decode-capacity-zero-wrap": (["C13"], "varintGroupDecodes rejection became (size_t)count - 1 > min(maxFields, 64) - 1: with maxFields == 0 the bound wraps and nothing is rejected",
                                         "capacity exactly 0"),
 "C14-dict-decode-alloc-before-check": (["C14", "C18"], "varintDictDecode allocates count * 8 bytes right after reading the count header, before checking the count against the bytes present",
                                        "a hostile count header (allocator-visible only)"),
 "C15-bp128-delta64-width-from-scratch": (["C15"], "varintBP128DeltaEncode64 computes the partial blocks bit width over all 128 slots of the uninitialised scratch array instead of the blockSize slots written",
                                          "(count-1) % 128 != 0 and stack residue larger than the real maximum delta"),
 "C16-bitmap-range-flag-inclusive-again": (["C16", "C06"], "fitsInBitmapRange uses maxValue <= VARINT_BITMAP_MAX_VALUE (65536, exclusive): BITMAP is selected, its arm skips 65536, originalCount is reported one too many (same mechanism as the batch-3 C06 seed)",
                                           "ascending duplicate-free array with maximum exactly 65536"),
 "C17-adaptive-analysis-published-static": (["C17", "C15"], "varintAdaptiveEncode publishes its analysis through a file-scope pointer that the FOR arm of EncodeWith consults",
                                            "two threads, same element count, different min or range"),
 "C18-pfor-exception-oom-continues": (["C18"], "when the exception list allocation fails varintPFOREncode sets exceptionCount = 0 and continues: outliers are written truncated and success is reported",
                                      "second allocation of the call fails and an outlier needs more bytes than the width"),
}


def demo_cmd(src, prop, tree, sdir):
    m = re.search(r"/\*(.*?)\*/", src, re.S)
    head = m.group(1) if m else src[:1500]
    lines = [l.strip().lstrip("*").strip() for l in head.splitlines()]
    cmd = ""; grab = False
    for l in lines:
        l = re.sub(r"^\$\s+", "", l)
        if re.match(r"(\w+=\S+;\s*)?(cc|gcc|clang)\s", l) and not cmd: grab = True
        if grab:
            cmd += " " + l.rstrip("\\").strip()
            if not l.endswith("\\"): break
    cmd = cmd.strip()
    if "&&" in cmd: cmd = cmd.split("&&")[0].strip()
    mv = re.match(r"^(\w+)=(\S+);\s*", cmd)                                   # `S=/tmp/wt-C06/src; cc ... $S/x.c`
    if mv:
        cmd = cmd[mv.end():]
        val = re.sub(r"/tmp/(?:w[t0-9]|s[0-9])-[A-Za-z0-9]+", tree, mv.group(2))
        cmd = cmd.replace("${%s}" % mv.group(1), val).replace("$" + mv.group(1), val)
    cmd = cmd.replace("${SRC}", tree + "/src").replace("$SRC", tree + "/src")   # SRC given on a line of its own
    m2 = re.search(r"/tmp/(?:w[t0-9]|s[0-9])-[A-Za-z0-9]+", cmd) or re.search(r"/tmp/(?:w[t0-9]|s[0-9])-[A-Za-z0-9]+", head)
    wt = m2.group(0) if m2 else "/tmp/wt-%s" % prop
    cmd = re.sub(r"-o\s+\S+", "-o " + os.path.join(tree, "_demo"), cmd)
    cmd = cmd.replace(wt + "/_seed/demo.c", os.path.join(sdir, "demo.c")).replace(wt + "/_seed/demo", os.path.join(tree, "_demo")).replace(wt, tree)
    cmd = re.sub(r"(?<![\w/])_seed/demo\.c", os.path.join(sdir, "demo.c"), cmd); cmd = re.sub(r"(?<![\w/.])src/", tree + "/src/", cmd); cmd = re.sub(r"-I ?src\b", "-I" + tree + "/src", cmd)
    if "-o " not in cmd: cmd += " -o " + os.path.join(tree, "_demo")
    return cmd


def run_demo(cmd, tree):
    b = subprocess.run(cmd, shell=True, stdout=subprocess.PIPE, stderr=subprocess.STDOUT, text=True)
    if b.returncode != 0: return None, "BUILD FAILED " + b.stdout[-300:]
    exe = re.search(r"-o\s+(\S+)", cmd).group(1)
    try: r = subprocess.run([exe], stdout=subprocess.PIPE, stderr=subprocess.STDOUT, text=True, timeout=600, errors="replace")
    except subprocess.TimeoutExpired: return None, "TIMEOUT"
    last = [l for l in r.stdout.splitlines() if l.strip()][-1:] or [""]
    return r.returncode, last[0][:160]


def main():
    flt = sys.argv[1] if len(sys.argv) > 1 else ""
    head = subprocess.run(["git", "-C", "/repo", "rev-parse", "--short", "HEAD"], stdout=subprocess.PIPE, text=True).stdout.strip()
    rows = []
    for name in sorted(os.listdir(os.path.join(VERIF, "seeded"))):
        sdir = os.path.join(VERIF, "seeded", name)
        if not os.path.isdir(sdir) or flt not in name: continue
        if name not in SEEDS: print("!! %s is not in the SEEDS table" % name); continue
        checks, breaks, needs = SEEDS[name]; prop = name.split("-")[0]
        T = tempfile.mkdtemp(prefix="verif-seed-")
        try:
            subprocess.run("git -C /repo archive HEAD | tar -x -C %s" % T, shell=True, check=True)
            cmd = demo_cmd(open(os.path.join(sdir, "demo.c")).read(), prop, T, sdir)
            clean = run_demo(cmd, T)
            a = subprocess.run(["patch", "-p1", "-s", "-d", T, "-i", os.path.join(sdir, "patch.diff")], stdout=subprocess.PIPE, stderr=subprocess.STDOUT, text=True)
            if a.returncode != 0: print("%s: PATCH DOES NOT APPLY to %s: %s" % (name, head, a.stdout[-200:])); continue
            changed = run_demo(cmd, T)
            subprocess.run("cmake -G Ninja -S %s -B %s/_b -DCMAKE_BUILD_TYPE=RelWithDebInfo >/dev/null 2>&1 && cmake --build %s/_b -j16 >/dev/null 2>&1" % (T, T, T), shell=True)
            ct = subprocess.run("ctest --test-dir %s/_b -j8 2>&1 | grep 'tests passed'" % T, shell=True, stdout=subprocess.PIPE, text=True).stdout.strip()
            shutil.rmtree(os.path.join(T, "_b"), ignore_errors=True)
            res = mut.run_checks(T, checks)
        finally:
            shutil.rmtree(T, ignore_errors=True)
        with open(os.path.join(sdir, "checks.txt"), "w") as fh:
            fh.write("against /repo %s + patch.diff (scratch copy)\n" % head)
            for pid, v in res.items():
                fh.write("%s rc=%d\n" % (pid, v["rc"]))
                for x in v["violations"][:8]: fh.write("    %s\n" % x)
                if v["rc"] == 2: fh.write("    %s\n" % v["tail"])
        caught = [pid for pid, v in res.items() if v["rc"] == 1]
        rules = sorted({re.search(r"\[([^\]]+)\]", x).group(1) for pid in caught for x in res[pid]["violations"] if re.search(r"\[([^\]]+)\]", x)})
        mp = os.path.join(sdir, "meta.json")
        meta = json.load(open(mp)) if os.path.exists(mp) else {"property": prop}
        if breaks: meta["breaks"] = breaks
        if needs: meta["needs_to_manifest"] = needs
        meta.setdefault("origin", "independent sub-agent given only the property text and a scratch worktree (/tmp/wt-%s)" % prop)
        ok = clean[0] == 0 and changed[0] not in (0, None) and "100% tests passed" in ct
        meta["confirmed_by_me"] = ["patch applies to /repo %s" % head, "cmake+ninja build, ctest with the change: %s" % ct,
                                   "demo on the clean tree: rc=%s (%s)" % clean, "demo with the change: rc=%s (%s)" % changed]
        meta["confirmed"] = ok
        meta["checks_run"] = "tools/reseed.py: scratch copy of /repo HEAD + patch.diff, ./check <ID> --tier quick for " + ", ".join(checks) + "; see checks.txt"
        meta["result"] = ("caught by " + ", ".join(caught) + " (" + ", ".join(rules) + ")") if caught else "NOT caught: " + ", ".join("%s rc=%d" % (p, v["rc"]) for p, v in res.items())
        json.dump(meta, open(mp, "w"), indent=1)
        rows.append((name, ok, meta["result"]))
        print("%-52s confirmed=%s  %s" % (name, ok, meta["result"][:150]))
    return rows


if __name__ == "__main__":
    main()
