/* narrow value type: slot and value type both uint16_t (the configuration the header documents for small fields) */
#define VBITS uint16_t
#define VBITSVAL uint16_t
#include "varintBitstream.h"
void wbs16n_set(vbits *dst, size_t off, size_t n, vbitsVal v) { varintBitstreamSet(dst, off, n, v); }
vbitsVal wbs16n_get(const vbits *src, size_t off, size_t n) { return varintBitstreamGet(src, off, n); }
