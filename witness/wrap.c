/* Witness wrappers: one-line functions around /repo's header-only macro families so that they have
 * object code to analyse (DESIGN 2.1).  Always #include the header from /repo/src; nothing here
 * re-implements library logic. */
#include "varint.h"
#include "varintExternal.h"
#include "varintSplit.h"
#include "varintSplitFull.h"
#include "varintSplitFull16.h"
#include "varintSplitFullNoZero.h"
#include "varintTagged.h"

/* ---- tagged quick macros ---- */
varintWidth w_taggedLenQuick(uint64_t v) { return varintTaggedLenQuick(v); }
varintWidth w_taggedGetLenQuick(const uint8_t *z) { return varintTaggedGetLenQuick_(z); }
uint64_t w_taggedGet64Quick(const uint8_t *z) { return varintTaggedGet64Quick_(z); }
void w_taggedPutFixedQuick(uint8_t *dst, uint64_t v, varintWidth w) { varintTaggedPut64FixedWidthQuick_(dst, v, w); }

/* ---- external macros ---- */
varintWidth w_externalUnsignedEncoding(uint64_t v) { varintWidth e; varintExternalUnsignedEncoding(v, e); return e; }
void w_externalPutFixedQuick(uint8_t *dst, uint64_t v, varintWidth w) { varintExternalPutFixedWidthQuick_(dst, v, w); }
void w_externalPutFixedQuickMedium(uint8_t *dst, uint64_t v, varintWidth w) { varintExternalPutFixedWidthQuickMedium_(dst, v, w); }
uint64_t w_externalGetQuick(const uint8_t *src, varintWidth w) { uint64_t r; varintExternalGetQuick_(src, w, r); return r; }
uint64_t w_externalGetQuickMedium(const uint8_t *src, varintWidth w) { uint64_t r; varintExternalGetQuickMedium_(src, w, r); return r; }
uint64_t w_externalGetQuickMediumRV(const uint8_t *src, varintWidth w) { return varintExternalGetQuickMediumReturnValue_(src, w); }

/* ---- split families ---- */
#define W_FAMILY(N, P)                                                                                         \
    varintWidth w_##N##Put(uint8_t *dst, uint64_t v) { uint8_t len; P##Put_(dst, len, v); return len; }          \
    varintWidth w_##N##Len(uint64_t v) { uint8_t len; P##Length_(len, v); return len; }                          \
    varintWidth w_##N##GetLenQuick(const uint8_t *p) { return P##GetLenQuick_(p); }                              \
    varintWidth w_##N##GetLen(const uint8_t *p) { uint8_t len; P##GetLen_(p, len); return len; }                 \
    uint64_t w_##N##Get(const uint8_t *p, uint8_t *lenOut) { uint8_t len; uint64_t v; P##Get_(p, len, v); *lenOut = len; return v; }
#define W_FAMILY_REV(N, P)                                                                                     \
    varintWidth w_##N##RevPutRev(uint8_t *dst, uint64_t v) { uint8_t len; P##ReversedPutReversed_(dst, len, v); return len; } \
    varintWidth w_##N##RevPutFwd(uint8_t *dst, uint64_t v) { uint8_t len; P##ReversedPutForward_(dst, len, v); return len; }  \
    uint64_t w_##N##RevGet(const uint8_t *p, uint8_t *lenOut) { uint8_t len; uint64_t v; P##ReversedGet_(p, len, v); *lenOut = len; return v; }

W_FAMILY(split, varintSplit)
W_FAMILY_REV(split, varintSplit)
W_FAMILY(splitFull, varintSplitFull)
W_FAMILY_REV(splitFull, varintSplitFull)
W_FAMILY(splitFullNoZero, varintSplitFullNoZero)
W_FAMILY_REV(splitFullNoZero, varintSplitFullNoZero)
W_FAMILY(splitFull16, varintSplitFull16)
