/* Round-trip witnesses: encode a value into a local buffer with the library's encoder and decode it again with the library's
 * decoder.  Nothing here re-implements library logic; the functions only give the composition an entry point so that its
 * closed form R(x) can be extracted (E1) and compared with x for every x (DESIGN 4/C01, clause L6). */
#include <string.h>
#include "varint.h"
#include "varintChained.h"
#include "varintChainedSimple.h"
#include "varintExternal.h"
#include "varintSplit.h"
#include "varintSplitFull.h"
#include "varintSplitFull16.h"
#include "varintSplitFullNoZero.h"
#include "varintTagged.h"

uint64_t rt_tagged(uint64_t x) { uint8_t b[16]; uint64_t r; varintTaggedPut64(b, x); varintTaggedGet64(b, &r); return r; }
uint64_t rt_taggedQuick(uint64_t x) { uint8_t b[16]; varintTaggedPut64(b, x); return varintTaggedGet64Quick_(b); }
uint64_t rt_taggedBounded(uint64_t x) { uint8_t b[16]; uint64_t r; varintWidth w = varintTaggedPut64(b, x); varintTaggedGet(b, (int32_t)w, &r); return r; }
uint64_t rt_chained(uint64_t x) { uint8_t b[16]; uint64_t r; varintChainedPutVarint(b, x); varintChainedGetVarint(b, &r); return r; }
uint64_t rt_chainedSimple(uint64_t x) { uint8_t b[16]; uint64_t r; varintChainedSimpleEncode64(b, x); varintChainedSimpleDecode64(b, &r); return r; }
uint64_t rt_external(uint64_t x) { uint8_t b[16]; varintWidth w = varintExternalPut(b, x); return varintExternalGet(b, w); }
uint64_t rt_externalQuick(uint64_t x) { uint8_t b[16]; uint64_t r; varintWidth w = varintExternalPut(b, x); varintExternalGetQuick_(b, w, r); return r; }
#define RT_FAMILY(N, P) \
    uint64_t rt_##N(uint64_t x) { uint8_t b[16]; uint8_t len; uint8_t len2; uint64_t r; P##Put_(b, len, x); P##Get_(b, len2, r); return r; }
RT_FAMILY(split, varintSplit)
RT_FAMILY(splitFull, varintSplitFull)
RT_FAMILY(splitFullNoZero, varintSplitFullNoZero)
RT_FAMILY(splitFull16, varintSplitFull16)
uint64_t rt_taggedRV(uint64_t x) { uint8_t b[16]; varintTaggedPut64(b, x); return varintTaggedGet64ReturnValue(b); }
uint32_t rt_chained32(uint32_t x) { uint8_t b[16]; uint32_t r; varintChainedPutVarint(b, x); varintChainedGetVarint32(b, &r); return r; }
uint32_t rt_chainedSimple32(uint32_t x) { uint8_t b[16]; uint32_t r; varintChainedSimpleEncode32(b, x); varintChainedSimpleDecode32(b, &r); return r; }
uint32_t rt_chainedSimple32Fallback(uint32_t x) { uint8_t b[16]; uint32_t r; varintChainedSimpleEncode32(b, x); varintChainedSimpleDecode32Fallback(b, &r); return r; }
#include "varintDelta.h"
uint64_t rt_zigzag(uint64_t x) { return (uint64_t)varintDeltaZigZagDecode(varintDeltaZigZag((int64_t)x)); }
uint64_t w_zigzag(uint64_t x) { return varintDeltaZigZag((int64_t)x); }
#include "varintDimension.h"
/* packed (rows, cols): the coordinate that comes back after Pack / Unpack (x itself where Pack refuses the pair) */
uint64_t rt_dimCol(uint64_t x) { uint64_t r; varintDimensionPacked d; size_t rows, cols; if (!varintDimensionPack(0, x, &r, &d)) return x; varintDimensionUnpack(&rows, &cols, r, d); return cols; }
uint64_t rt_dimRow(uint64_t x) { uint64_t r; varintDimensionPacked d; size_t rows, cols; if (!varintDimensionPack(x, 0, &r, &d)) return x; varintDimensionUnpack(&rows, &cols, r, d); return rows; }
uint64_t rt_dimColRowOfRow1(uint64_t x) { uint64_t r; varintDimensionPacked d; size_t rows, cols; if (!varintDimensionPack(1, x, &r, &d)) return 1; varintDimensionUnpack(&rows, &cols, r, d); return rows; }
