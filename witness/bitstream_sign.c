/* C11 witness: the relocation constant of the bitstream sign helpers for every width 1..64 */
#include "varintBitstream.h"
#define P(n) int64_t wbs_prep##n(int64_t v) { _varintBitstreamPrepareSigned(v, n); return v; } int64_t wbs_rest##n(int64_t v) { _varintBitstreamRestoreSigned(v, n); return v; }
P(1) P(2) P(7) P(8) P(9) P(15) P(16) P(17) P(24) P(31) P(32) P(33) P(40) P(48) P(56) P(63) P(64)
