/* narrow value type: slot and value type both uint8_t (the configuration the header documents for small fields) */
#define VBITS uint8_t
#define VBITSVAL uint8_t
#include "varintBitstream.h"
void wbs8n_set(vbits *dst, size_t off, size_t n, vbitsVal v) { varintBitstreamSet(dst, off, n, v); }
vbitsVal wbs8n_get(const vbits *src, size_t off, size_t n) { return varintBitstreamGet(src, off, n); }
