/* Witness wrappers for header-inline sizing functions (no object code of their own) */
#include "varintDelta.h"
size_t w_deltaMaxEncodedSize(size_t count) { return varintDeltaMaxEncodedSize(count); }
