/* Witness wrappers for header-inline sizing functions (no object code of their own) */
#include "varintDelta.h"
#include "varintBP128.h"
#include "varintElias.h"
#include "varintFloat.h"
size_t w_deltaMaxEncodedSize(size_t count) { return varintDeltaMaxEncodedSize(count); }
size_t w_bp128MaxBytes(size_t count) { return varintBP128MaxBytes(count); }
size_t w_eliasGammaMaxBytes(size_t count) { return varintEliasGammaMaxBytes(count); }
size_t w_eliasDeltaMaxBytes(size_t count) { return varintEliasDeltaMaxBytes(count); }
size_t w_floatMaxEncodedSize(size_t count, varintFloatPrecision precision) { return varintFloatMaxEncodedSize(count, precision); }
