/* C01-L4 witness: the sign-bit relocation constant of the 56-bit helpers must be representable in the type it is formed in.
 * Compiled with -fsyntax-only -Werror=shift-count-overflow -Werror=shift-overflow: a violating tree does not build. */
#include "varintExternal.h"
int64_t w_prepare56(int64_t v) { varintPrepareSigned64to56_(v); return v; }
int64_t w_restore56(int64_t v) { varintRestoreSigned56to64_(v) return v; }
