/* C01-L4 witness: the sign-bit relocation constant of the 24-bit helpers must be representable in the type it is formed in.
 * Compiled with -fsyntax-only -Werror=shift-count-overflow -Werror=shift-overflow: a violating tree does not build. */
#include "varintExternal.h"
int32_t w_prepare24(int32_t v) { varintPrepareSigned32to24_(v); return v; }
int32_t w_restore24(int32_t v) { varintRestoreSigned24to32_(v) return v; }
