/* C01-L4 witness: the sign-bit relocation constant of the 40-bit helpers must be representable in the type it is formed in.
 * Compiled with -fsyntax-only -Werror=shift-count-overflow -Werror=shift-overflow: a violating tree does not build. */
#include "varintExternal.h"
int64_t w_prepare40(int64_t v) { varintPrepareSigned64to40_(v); return v; }
int64_t w_restore40(int64_t v) { varintRestoreSigned40to64_(v) return v; }
