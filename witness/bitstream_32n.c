/* narrow value type: slot and value type both uint32_t (the configuration the header documents for small fields) */
#define VBITS uint32_t
#define VBITSVAL uint32_t
#include "varintBitstream.h"
void wbs32n_set(vbits *dst, size_t off, size_t n, vbitsVal v) { varintBitstreamSet(dst, off, n, v); }
vbitsVal wbs32n_get(const vbits *src, size_t off, size_t n) { return varintBitstreamGet(src, off, n); }
