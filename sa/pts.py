"""E-PTS - bottom-up effects / points-to analysis on the linked module (DESIGN 3).

Abstract roots (per function):
  ("arg", k, lvl)   lvl 0 = the object the k-th parameter points to, 1 = anything reached from it by >= 1 loads
  ("alloca", id)    a local; pointers stored into it are tracked in `contents`
  ("heap", id)      result of an allocation call (or of a callee that returns fresh memory); contents tracked
  ("global", g, lvl)
  ("unknown",)
The analysis is flow-insensitive and field-insensitive inside one object, but keeps the *level* so that writing the
fields of a local iterator is not confused with writing the (const) object it captured."""
from collections import defaultdict

ALLOC = {"malloc", "calloc"}
MEMW = ("llvm.memset", "llvm.memcpy", "llvm.memmove")
UNKNOWN = ("unknown",)

# intrinsics / libc known to have no memory effect beyond their value
PURE_PREFIX = ("llvm.dbg", "llvm.lifetime", "llvm.bswap", "llvm.ctlz", "llvm.cttz", "llvm.ctpop", "llvm.sadd.with.overflow",
               "llvm.uadd.with.overflow", "llvm.ssub.with.overflow", "llvm.usub.with.overflow", "llvm.smul.with.overflow",
               "llvm.umul.with.overflow", "llvm.fabs", "llvm.floor", "llvm.ceil", "llvm.sqrt", "llvm.fmuladd", "llvm.expect",
               "llvm.assume", "llvm.trap", "llvm.umin", "llvm.umax", "llvm.smin", "llvm.smax", "llvm.abs", "llvm.fshl", "llvm.fshr",
               "llvm.round", "llvm.trunc", "llvm.rint", "llvm.nearbyint", "llvm.copysign", "llvm.pow", "llvm.exp", "llvm.log",
               "llvm.minnum", "llvm.maxnum", "llvm.is.constant", "llvm.objectsize", "llvm.stacksave", "llvm.stackrestore",
               "llvm.x86.sse", "llvm.x86.ssse3", "llvm.x86.avx", "llvm.x86.bmi", "llvm.x86.vcvt", "llvm.x86.fma", "llvm.x86.pclmul",
               "llvm.convert", "llvm.fptoui.sat", "llvm.fptosi.sat", "llvm.fshl", "llvm.fshr", "llvm.bitreverse", "llvm.vector.reduce", "llvm.usub.sat", "llvm.uadd.sat")
PURE_LIBC = {"ldexp", "frexp", "fabs", "floor", "ceil", "log", "log2", "log10", "exp", "exp2", "pow", "sqrt", "round", "llround", "lround",
             "fmax", "fmin", "trunc", "abs", "labs", "llabs", "strlen", "memcmp", "memchr", "strcmp", "strncmp", "__assert_fail", "abort",
             "ldexpf", "fabsf", "sqrtf", "floorf", "ceilf", "isnan", "isinf", "__isnan", "__isinf", "__fpclassify", "modf", "fmod"}
# thread-safe, but with memory effects described below
ALLOC_FAMILY = {"malloc", "calloc", "realloc", "free", "qsort", "aligned_alloc", "posix_memalign"}
# hidden-state / not thread-safe: using one of these breaks C15/C17
STATEFUL = {"rand", "srand", "random", "srandom", "drand48", "lrand48", "strtok", "localtime", "gmtime", "asctime", "ctime", "getenv",
            "setenv", "putenv", "setlocale", "strerror", "time", "clock", "clock_gettime", "gettimeofday", "getpid", "printf", "fprintf",
            "puts", "putchar", "fopen", "fclose", "fread", "fwrite", "read", "write", "open", "close", "tmpnam", "rand_r", "getrandom",
            "longjmp", "setjmp", "_setjmp", "signal", "raise", "exit", "atexit"}


def is_pure_external(name):
    return name.startswith(PURE_PREFIX) or name in PURE_LIBC


def is_ptr(t): return t.endswith("*")


class Summary:
    def __init__(self):
        self.mod = {}         # abstract root (callee terms) -> witness (loc string)
        self.ret = set()      # roots of the returned pointer, callee terms, heap->("fresh",)
        self.ret_contents = set()
        self.stores_ptr = defaultdict(set)   # ("arg",k,lvl) -> roots stored into that region
        self.frees = {}       # roots passed to free() -> witness
        self.reads = set()    # ("arg",k,lvl) roots read
        self.ext = {}         # external callee -> witness
        self.indirect = []    # witness locs
        self.asm = []
    def key(self):
        return (tuple(sorted(self.mod)), tuple(sorted(self.ret)), tuple(sorted(self.ret_contents)),
                tuple(sorted((k, tuple(sorted(v))) for k, v in self.stores_ptr.items())), tuple(sorted(self.frees)),
                tuple(sorted(self.reads)), tuple(sorted(self.ext)), len(self.indirect))


class FnPts:
    """points-to state of one function under the current callee summaries"""
    def __init__(self, fn, world):
        self.fn = fn; self.w = world
        self.R = {}                       # inst id -> frozenset of roots
        self.contents = defaultdict(set)  # base -> roots
        self.mod_sites = []               # (inst, root)
        self.solve()

    def roots(self, o):
        k = o["k"]
        if k == "arg":
            return {("arg", o["v"], 0)} if is_ptr(o["t"]) or o["t"].startswith(("{", "%")) else set()
        if k == "global": return {("global", o["v"], 0)}
        if k == "inst": return self.R.get(o["v"], set())
        if k == "cexpr":
            s = set()
            for x in o.get("ops", []): s |= self.roots(x)
            return s
        if k == "func": return {("func", o["v"])}
        return set()

    def deref(self, S):
        out = set()
        for r in S:
            if r[0] in ("alloca", "heap"): out |= self.contents[r]
            elif r[0] in ("arg", "global"): out.add((r[0], r[1], 1))
            elif r[0] == "unknown": out.add(UNKNOWN)
        return out

    def deref_closure(self, S):
        D = self.deref(S)
        while True:
            n = D | self.deref(D)
            if n == D: return D
            D = n

    def map_callee_root(self, r, call):
        """callee-terms root -> caller roots at this call site"""
        if r[0] == "arg":
            if r[1] >= call["nargs"]: return {UNKNOWN}
            A = self.roots(call.ops[r[1]])
            return set(A) if r[2] == 0 else self.deref_closure(A)
        if r[0] == "fresh": return {("heap", call.id)}
        if r[0] == "global": return {r}
        if r[0] == "func": return {r}
        return {UNKNOWN}

    def solve(self):
        fn = self.fn
        changed = True; rounds = 0
        while changed and rounds < 40:
            changed = False; rounds += 1
            for b in fn.blocks:
                for i in b.insts:
                    new = None
                    op = i.op
                    if op == "alloca": new = {("alloca", i.id)}
                    elif op in ("bitcast", "getelementptr", "addrspacecast"): new = self.roots(i.ops[0])
                    elif op == "phi":
                        new = set()
                        for inc in i["incoming"]: new |= self.roots(inc["v"])
                    elif op == "select": new = self.roots(i.ops[1]) | self.roots(i.ops[2])
                    elif op == "load":
                        if is_ptr(i["t"]) or i["t"].startswith(("{", "%", "[")):
                            new = self.deref(self.roots(i.ops[0]))
                        elif i["t"] == "i64":
                            new = set()     # integers are not tracked as pointers; inttoptr yields unknown
                    elif op == "inttoptr": new = {UNKNOWN}
                    elif op == "extractvalue": new = self.roots(i.ops[0])
                    elif op == "insertvalue": new = self.roots(i.ops[0]) | self.roots(i.ops[1])
                    elif op == "store":
                        v = i.ops[0]
                        if is_ptr(v["t"]) or v["t"].startswith(("{", "%", "[")):
                            S = self.roots(v)
                            if S: changed |= self.add_contents(self.roots(i.ops[1]), S)
                    elif op == "call":
                        new, ch = self.call(i); changed |= ch
                    if new is not None and i.id >= 0:
                        new = frozenset(x for x in new if x[0] != "null")
                        if self.R.get(i.id) != new:
                            old = self.R.get(i.id, frozenset())
                            new = new | old
                            if new != old: self.R[i.id] = new; changed = True

    def type_has_ptr(self, t, depth=0):
        t = t.strip()
        if depth > 6: return True
        if t.endswith("*"): return True
        if t.startswith("["):                       # [N x T]
            return self.type_has_ptr(t[t.index(" x ") + 3:-1], depth + 1)
        if t.startswith("%"):
            st = self.fn.mod.structs.get(t[1:])
            if st is None: return True
            return any(self.type_has_ptr(f["t"], depth + 1) for f in st["fields"])
        if t.startswith("{"): return "*" in t or "%" in t
        return False                                # iN, float, double, vectors of those

    def may_hold_ptrs(self, o, size_op=None):
        """can the object `o` points to contain pointer values?  (byte buffers and integer arrays cannot)"""
        if size_op is not None and size_op["k"] == "int" and int(size_op["v"]) < 8: return False
        for _ in range(12):
            if o["k"] == "arg":
                p = self.fn.params[o["v"]]
                if o["t"] != "i8*": return self.type_has_ptr(o["t"][:-1])
                return "void" in p.get("di", "void")
            if o["k"] != "inst": return True
            i = self.fn.imap[o["v"]]
            if i.op == "bitcast":
                src = i.ops[0]
                if src["t"] != "i8*": return self.type_has_ptr(src["t"][:-1])
                o = src; continue
            if i.op == "getelementptr":
                if i["t"] != "i8*": return self.type_has_ptr(i["t"][:-1])
                o = i.ops[0]; continue
            if i.op == "alloca":
                return self.type_has_ptr(i["t"][:-1]) if i["t"] != "i8*" else True
            if i.op == "load":
                if i["t"] != "i8*": return self.type_has_ptr(i["t"][:-1])
                # an i8* loaded from a struct field is a byte pointer unless some struct in the program declares a
                # `void *` / pointer-to-pointer member (debug info; none today)
                return self.w.any_void_member
            if i.op == "phi":
                return any(self.may_hold_ptrs(inc["v"]) for inc in i["incoming"] if not (inc["v"]["k"] == "inst" and inc["v"]["v"] == i.id)) if len(i["incoming"]) < 6 else True
            if i.op == "call":
                return i["t"] != "i8*" and self.type_has_ptr(i["t"][:-1]) or i["t"] == "i8*"
            return True
        return True

    def add_contents(self, bases, S):
        ch = False
        for base in bases:
            if base[0] in ("alloca", "heap"):
                if not S <= self.contents[base]: self.contents[base] |= S; ch = True
            else:
                # a pointer stored into a caller-visible region: remembered for the summary
                key = ("cap", base)
                if not S <= self.contents[key]: self.contents[key] |= S; ch = True
        return ch

    def call(self, i):
        c = i.get("callee"); ch = False
        if c is None: return ({UNKNOWN} if is_ptr(i["t"]) else None), False
        if c in ALLOC or c in ("aligned_alloc",): return {("heap", i.id)}, False
        if c == "realloc":
            old = self.roots(i.ops[0])
            ch = self.add_contents({("heap", i.id)}, self.deref(old))
            return {("heap", i.id)} , ch
        if c.startswith(("llvm.memcpy", "llvm.memmove")):
            S = self.deref(self.roots(i.ops[1])) if self.may_hold_ptrs(i.ops[1], i.ops[2]) else set()
            if S: ch = self.add_contents(self.roots(i.ops[0]), S)
            return None, ch
        s = self.w.summ.get(c)
        if s is None:
            return ({UNKNOWN} if is_ptr(i["t"]) and not is_pure_external(c) else (set() if is_ptr(i["t"]) else None)), False
        g = self.w.mod.functions.get(c) if hasattr(self.w, "mod") else None
        def copies_pointers(r):
            """the callee copies the *contents* of a `void *` / byte-pointer parameter (e.g. a dup helper around memcpy): whether pointers
            travel with them depends on what this caller passes - decided from the actual argument's type, like a direct memcpy"""
            if not (isinstance(r, tuple) and r[0] == "arg" and len(r) > 2 and r[2] >= 1 and r[1] < i["nargs"]): return True
            if g is None or r[1] >= len(g.params) or g.params[r[1]]["t"] != "i8*": return True
            return self.may_hold_ptrs(i.ops[r[1]])
        for reg, S in s.stores_ptr.items():
            dst = self.map_callee_root(reg, i); src = set()
            for r in S:
                if copies_pointers(r): src |= self.map_callee_root(r, i)
            if src: ch |= self.add_contents(dst, src)
        new = None
        if is_ptr(i["t"]) or i["t"].startswith(("{", "%")):
            new = set()
            for r in s.ret: new |= self.map_callee_root(r, i)
            if ("fresh",) in s.ret and s.ret_contents:
                src = set()
                for r in s.ret_contents:
                    if copies_pointers(r): src |= self.map_callee_root(r, i)
                ch |= self.add_contents({("heap", i.id)}, src)
        return new, ch


def _loc(i):
    from .report import rel
    return "%s:%s" % (rel(i.d.get("file", i.fn.file)), i.d.get("line", "?"))


class World:
    def __init__(self, mod):
        self.mod = mod; self.summ = {f.name: Summary() for f in mod.defined()}
        self.fp = {}
        self.any_void_member = any(("void" in m["type"] and "*" in m["type"]) or m["type"].count("*") > 1
                                   for t in mod.ditypes.values() for m in t["members"])
        self.solve()

    def to_callee_terms(self, r):
        if r[0] == "heap": return ("fresh",)
        if r[0] == "alloca": return UNKNOWN      # address of a local escaping
        return r

    def summarize(self, fn):
        fp = FnPts(fn, self); self.fp[fn.name] = fp
        s = Summary()
        def add_mod(roots, inst, via=None):
            if not roots and inst.op == "store":
                roots = set()       # store through a pointer we know nothing about (null/undef): ignore
            for r in roots:
                fp.mod_sites.append((inst, r, via))
                if r[0] in ("alloca", "heap", "func"): continue
                s.mod.setdefault(r, _loc(inst) + (" via %s" % via if via else ""))
        for b in fn.blocks:
            for i in b.insts:
                if i.op == "store":
                    add_mod(fp.roots(i.ops[1]), i)
                elif i.op == "load":
                    for r in fp.roots(i.ops[0]):
                        if r[0] == "arg": s.reads.add(r)
                elif i.op in ("atomicrmw", "cmpxchg"):
                    add_mod(fp.roots(i.ops[0]), i)
                elif i.op == "call":
                    c = i.get("callee")
                    if c is None:
                        if i.get("asm"): s.asm.append(_loc(i))
                        else: s.indirect.append(_loc(i))
                        continue
                    if c.startswith(MEMW):
                        add_mod(fp.roots(i.ops[0]), i)
                        if not c.startswith("llvm.memset"):
                            for r in fp.roots(i.ops[1]):
                                if r[0] == "arg": s.reads.add(r)
                        continue
                    if c == "free":
                        for r in fp.roots(i.ops[0]):
                            s.frees.setdefault(self.to_callee_terms(r), _loc(i))
                        continue
                    if c == "realloc":
                        for r in fp.roots(i.ops[0]):
                            s.frees.setdefault(self.to_callee_terms(r), _loc(i))
                        continue
                    cs = self.summ.get(c)
                    if cs is None:
                        if c in ALLOC or is_pure_external(c): continue
                        s.ext.setdefault(c, _loc(i))
                        if c == "qsort":
                            add_mod(fp.roots(i.ops[0]), i, via="qsort")
                            for r in fp.roots(i.ops[3]):
                                if r[0] == "func":
                                    g = self.summ.get(r[1])
                                    if g is None or g.mod: s.mod.setdefault(UNKNOWN, _loc(i) + " via qsort comparator")
                                else:
                                    s.indirect.append(_loc(i) + " (qsort comparator is not a function constant)")
                        elif c not in ALLOC_FAMILY:
                            # unknown external: assume it may write every pointer argument
                            for n in range(i["nargs"]):
                                if is_ptr(i.ops[n]["t"]): add_mod(fp.deref_closure(fp.roots(i.ops[n])) | fp.roots(i.ops[n]), i, via=c)
                        continue
                    for r, wit in cs.mod.items():
                        add_mod(fp.map_callee_root(r, i), i, via=c)
                    for r in cs.reads:
                        for x in fp.map_callee_root(r, i):
                            if x[0] == "arg": s.reads.add(x)
                    for r, wit in cs.frees.items():
                        for x in fp.map_callee_root(r, i):
                            s.frees.setdefault(self.to_callee_terms(x), _loc(i) + " via %s" % c)
                    for e, wit in cs.ext.items(): s.ext.setdefault(e, wit)
                    s.indirect += [x for x in cs.indirect if x not in s.indirect]
                    s.asm += [x for x in cs.asm if x not in s.asm]
                elif i.op == "ret" and i.ops:
                    for r in fp.roots(i.ops[0]):
                        s.ret.add(self.to_callee_terms(r))
                        if r[0] == "heap":
                            for x in fp.deref_closure({r}):
                                if x != r: s.ret_contents.add(self.to_callee_terms(x))
        for key, S in list(fp.contents.items()):
            if key[0] == "cap":
                base = key[1]
                if base[0] in ("arg", "global"):
                    s.stores_ptr[base] |= {self.to_callee_terms(x) for x in S}
        return s

    def solve(self):
        fns = self.mod.defined()
        for rounds in range(12):
            changed = False
            for f in fns:
                s = self.summarize(f)
                if s.key() != self.summ[f.name].key(): changed = True
                self.summ[f.name] = s
            if not changed: break
        self.rounds = rounds + 1
