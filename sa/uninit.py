"""E-UNINIT / E-META - definite initialisation of aggregates at byte granularity (DESIGN 3).

Forward *must* dataflow.  Tracked objects: allocas (structs and scalars whose address is taken), small fixed-size heap blocks,
and - when computing a callee summary - the object behind each pointer parameter.  State: object -> bitmask of bytes definitely
written.  Callee summaries per pointer parameter k:
   rbw[k]  bytes that may be read before the callee has written them (upward-exposed reads)
   mw[k]   bytes written on every path to every return;   mw_ret[k][c] the same restricted to returns of constant c
Array cells (variable offsets) are outside a must-analysis and are ignored."""
import re
from collections import defaultdict
from .report import rel
from .lin import Lin

LIMIT = 512          # objects larger than this are treated as arrays and not tracked
ALL = (1 << LIMIT) - 1


def rng(off, size):
    if off < 0 or off >= LIMIT: return 0
    size = min(size, LIMIT - off)
    return ((1 << size) - 1) << off


def loc(i):
    return "%s:%s" % (rel(i.d.get("file", i.fn.file)), i.d.get("line", "?"))


class Layout:
    """padding / union information from LLVM layouts and debug info"""
    def __init__(self, mod): self.mod = mod; self._leaf = {}
    def size_of(self, t):
        t = t.strip()
        if t.endswith("*"): return 8
        m = re.match(r"i(\d+)$", t)
        if m: return (int(m.group(1)) + 7) // 8
        if t in ("double",): return 8
        if t in ("float",): return 4
        if t.startswith("%"):
            st = self.mod.structs.get(t[1:]); return st["size"] if st else None
        m = re.match(r"\[(\d+) x (.*)\]$", t)
        if m:
            e = self.size_of(m.group(2)); return int(m.group(1)) * e if e else None
        return None
    def leaf_mask(self, t):
        """bytes of type t that belong to a scalar leaf field (padding and unions excluded)"""
        t = t.strip()
        if t in self._leaf: return self._leaf[t]
        r = 0
        if t.startswith("%union."): r = 0
        elif t.startswith("%"):
            di = self.mod.ditypes.get(t[1:].split(".", 1)[1]) if "." in t else None
            st = self.mod.structs.get(t[1:])
            if di is not None and not di["union"]:
                for m in di["members"]:
                    comp = m.get("composite")
                    if comp and comp in self.mod.ditypes:
                        if self.mod.ditypes[comp]["union"]: continue
                        r |= self.di_leaf(comp) << m["off"]
                    else: r |= rng(m["off"], m["size"])
            elif st is not None:
                for f in st["fields"]:
                    if f["t"].startswith("%union."): continue
                    if f["t"].startswith("%") or f["t"].startswith("["):
                        r |= self.leaf_mask(f["t"]) << f["off"]
                    else: r |= rng(f["off"], f["size"])
        else:
            m = re.match(r"\[(\d+) x (.*)\]$", t)
            if m:
                n = int(m.group(1)); es = self.size_of(m.group(2)) or 0; em = self.leaf_mask(m.group(2))
                for k in range(min(n, 64)): r |= em << (k * es)
            else:
                s = self.size_of(t)
                r = rng(0, s) if s else 0
        self._leaf[t] = r & ALL
        return self._leaf[t]
    def di_leaf(self, name):
        di = self.mod.ditypes[name]; r = 0
        if di["union"]: return 0
        for m in di["members"]:
            comp = m.get("composite")
            if comp and comp in self.mod.ditypes:
                if self.mod.ditypes[comp]["union"]: continue
                r |= self.di_leaf(comp) << m["off"]
            else: r |= rng(m["off"], m["size"])
        return r
    def di_fields(self, name, base=0, prefix=""):
        """[(field path, off, size, is_union)] of a DI struct"""
        out = []
        di = self.mod.ditypes.get(name)
        if di is None: return out
        for m in di["members"]:
            comp = m.get("composite")
            if comp and comp in self.mod.ditypes and not self.mod.ditypes[comp]["union"] and not m["type"].endswith("*"):
                out += self.di_fields(comp, base + m["off"], prefix + m["name"] + ".")
            else:
                isu = bool(comp and comp in self.mod.ditypes and self.mod.ditypes[comp]["union"] and not m["type"].endswith("*"))
                out.append((prefix + m["name"], base + m["off"], m["size"], isu))
        return out


class Summary:
    def __init__(self, nparams):
        self.rbw = {}       # k -> mask
        self.rbw_site = {}  # k -> loc of first exposed read
        self.mw = {}        # k -> mask (all returns)
        self.mw_ret = {}    # k -> {const -> mask}, key None = non-constant returns
        self.var_reads = set()   # params read at variable offsets
    def key(self):
        return (tuple(sorted(self.rbw.items())), tuple(sorted(self.mw.items())),
                tuple(sorted((k, tuple(sorted(v.items(), key=repr))) for k, v in self.mw_ret.items())))


class FnUninit:
    def __init__(self, fn, eng, ctx=None):
        self.fn = fn; self.eng = eng; self.fi = eng.core.fi(fn).prepare()
        self.ctx = ctx or {}
        from .ival import Intervals
        self.iv = Intervals(fn, self.ctx, self.fi)
        self.dead = self.iv.dead_edges() | fn.enum_default_edges(self.fi)
        self.objs = {}          # root -> {"size","type","kind"}
        self.viol = []          # (inst, root, missing mask, why)
        self.nreads = 0         # read obligations evaluated on local / heap objects
        self.exposed = defaultdict(int); self.exposed_site = {}
        self.collect()
        self.run()
        # locals that mem2reg/sroa promoted: a read of a never-written scalar is an `undef` operand
        self.undef_uses = []
        STRICT = {"icmp", "fcmp", "add", "sub", "mul", "udiv", "sdiv", "urem", "srem", "fadd", "fsub", "fmul", "fdiv", "br", "switch",
                  "getelementptr", "ret", "sitofp", "uitofp", "fptoui", "fptosi"}
        live_b = set(); st_ = [fn.entry.id]
        while st_:
            x_ = st_.pop()
            if x_ in live_b: continue
            live_b.add(x_)
            st_ += [s_.id for s_ in fn.bmap[x_].succs if (x_, s_.id) not in self.dead]
        for i in fn.insts():
            if i.block.id not in live_b: continue                 # (behind a branch on a constant: never executed)
            if i.op in STRICT and any(o["k"] == "undef" for o in i.ops): self.undef_uses.append(i)
            elif i.op == "store" and i.ops[0]["k"] == "undef":
                # the padding bytes of a struct that SROA copies piecewise (fields as values, the gap as undef): not a use of a local
                def base_of(o, d=0):
                    while o["k"] == "inst" and d < 6 and fn.imap[o["v"]].op in ("bitcast", "getelementptr"): o = fn.imap[o["v"]].ops[0]; d += 1
                    return (o["k"], o.get("v"))
                sib = [j for j in i.block.insts if j is not i and j.op == "store" and j.ops[0]["k"] != "undef" and j.line == i.line and base_of(j.ops[1]) == base_of(i.ops[1])]
                if not sib: self.undef_uses.append(i)
            elif i.op == "call" and not (i.get("callee") or "").startswith("llvm.") and any(o["k"] == "undef" for o in i.ops[:i["nargs"]]): self.undef_uses.append(i)

    def collect(self):
        fn = self.fn; L = self.eng.layout
        for i in fn.insts():
            if i.op == "alloca":
                sz = i["alloc_size"]
                t = i["alloc_t"]
                if sz > LIMIT: continue
                if t.startswith("[") and not t.startswith("[1 x"):
                    m = re.match(r"\[(\d+) x", t)
                    if m and int(m.group(1)) > 4: continue      # arrays: element-wise init is not a must-property
                self.objs[("alloca", i.id)] = {"size": sz, "type": t, "kind": "alloca", "name": i.d.get("varname", "%%%s" % i.id), "inst": i}
            elif i.op == "call" and i.get("callee") in ("malloc", "calloc"):
                szop = i.ops[0] if i["callee"] == "malloc" else None
                if i["callee"] == "calloc":
                    a, b = i.ops[0], i.ops[1]
                    sz = int(a["v"]) * int(b["v"]) if a["k"] == "int" and b["k"] == "int" else None
                else:
                    sz = int(szop["v"]) if szop["k"] == "int" else None
                if sz is None or sz > LIMIT: continue
                # typed by the first bitcast to a struct pointer
                t = None
                for u in fn.insts():
                    if u.op == "bitcast" and u.ops[0]["k"] == "inst" and u.ops[0]["v"] == i.id and u["t"].startswith("%"):
                        t = u["t"][:-1]; break
                if t is None: continue
                self.objs[("heap", i.id)] = {"size": sz, "type": t, "kind": i["callee"], "name": "%s@%s" % (i["callee"], i.line), "inst": i}
        for k, p in enumerate(fn.params):
            t = p["t"]
            if not t.endswith("*"): continue
            pt = t[:-1]
            sz = L.size_of(pt)
            if sz is None or sz > LIMIT: continue
            if pt == "i8": sz = 16                   # byte buffers / void*: arrays of unknown length - only the first 16 bytes are tracked (enough for a scalar result written through a `void *out` / `uint8_t *out` parameter)
            self.objs[("arg", k)] = {"size": sz, "type": pt, "kind": "param", "name": fn.argnames.get(k, "#%d" % k)}

    def addr(self, o):
        root, off = self.fi.ptr(o)
        if root in self.objs and off.is_const(): return root, off.c
        if root in self.objs: return root, None
        return None, None

    def addr_alternatives(self, o, depth=0):
        """objects a phi / select of pointers may denote: [(root, constant offset)]"""
        if o["k"] != "inst" or depth > 3: return []
        i = self.fn.imap[o["v"]]
        if i.op == "phi": ops = [inc["v"] for inc in i["incoming"]]
        elif i.op == "select": ops = [i.ops[1], i.ops[2]]
        elif i.op == "bitcast": ops = [i.ops[0]]
        else: return []
        out = []
        for x in ops:
            if x["k"] == "null": continue
            r, off = self.addr(x)
            if r is not None: out.append((r, off))
            else: out += self.addr_alternatives(x, depth + 1)
        return out

    def init_state(self):
        st = {}
        for r, o in self.objs.items():
            st[r] = ALL if o["kind"] == "calloc" else 0
        return st

    def read(self, st, root, off, size, inst, why, record, mask=None):
        need = rng(off, size) if mask is None else mask
        need &= rng(0, self.objs[root]["size"])
        miss = need & ~st[root]
        if record and root[0] != "arg" and need: self.nreads += 1
        if not miss or not record: return
        if root[0] == "arg":
            if not (self.exposed[root[1]] & miss) or root[1] not in self.exposed_site: self.exposed_site.setdefault(root[1], loc(inst))
            self.exposed[root[1]] |= miss
        else:
            self.viol.append((inst, root, miss, why))

    def transfer(self, i, st, record):
        op = i.op
        if op == "load":
            root, off = self.addr(i.ops[0])
            if root is not None and off is not None:
                # a load that only feeds one arm of a select (`c ? 0 : local` after if-conversion): the value only counts where the select takes it,
                # so the object needs to be initialised under that arm's condition only
                st_r = st
                sel = self.sole_select_use(i)
                if sel is not None:
                    arms = [k for k in (1, 2) if self._feeds(sel.ops[k], i.id)]
                    if len(arms) == 1:
                        atoms = []; self._cond_parts(sel.ops[0], arms[0] == 1, atoms)
                        for (c_, truth_) in atoms: st_r = self._edge_atom(c_, truth_, st_r)
                self.read(st_r, root, off, i["size"], i, "load", record)
        elif op == "store":
            root, off = self.addr(i.ops[1])
            if root is not None and off is not None:
                st = dict(st); st[root] |= rng(off, i["size"])
            # the address of a tracked object stored somewhere: it escapes, stop tracking (assume initialised)
            v = i.ops[0]
            if v["t"].endswith("*"):
                r2, _ = self.fi.ptr(v)
                if r2 in self.objs and r2[0] != "arg":
                    st = dict(st); st[r2] = ALL
        elif op == "call":
            c = i.get("callee") or ""
            if c.startswith("llvm.memset"):
                root, off = self.addr(i.ops[0]); n = i.ops[2]
                if n["k"] != "int":
                    a = self.iv.ival(n)
                    if a[0] == a[1] and 0 <= a[0] < (1 << 31): n = {"k": "int", "v": str(int(a[0])), "sv": str(int(a[0])), "t": n["t"]}
                if root is not None and off is not None and n["k"] == "int":
                    st = dict(st); st[root] |= rng(off, int(n["v"]))
            elif c.startswith(("llvm.memcpy", "llvm.memmove")):
                n = i.ops[2]
                if n["k"] != "int":
                    # a length that is constant in this context (e.g. a size parameter of a copy helper called with sizeof(x))
                    a = self.iv.ival(n)
                    if a[0] == a[1] and 0 <= a[0] < (1 << 31): n = {"k": "int", "v": str(int(a[0])), "sv": str(int(a[0])), "t": n["t"]}
                sroot, soff = self.addr(i.ops[1])
                droot0, doff0 = self.addr(i.ops[0])
                if sroot is not None and soff is not None and droot0 is not None and doff0 is not None and n["k"] == "int" and droot0 != sroot \
                        and sroot[0] == "alloca" and droot0[0] == "alloca":
                    # one local copied into another (struct assignment, the padding bytes SROA moves separately): copying indeterminate bytes
                    # is not a use - the destination is exactly as initialised as the source was, and is judged where it is read
                    nn = int(n["v"]); m_ = (st[sroot] >> soff) & ((1 << nn) - 1)
                    st = dict(st); st[droot0] = (st[droot0] & ~rng(doff0, nn)) | (m_ << doff0)
                    return st
                if sroot is not None and soff is not None and n["k"] == "int":
                    nn = int(n["v"])
                    lm = (self.eng.layout.leaf_mask(self.objs[sroot]["type"]) if self.objs[sroot]["type"].startswith(("%", "[")) else ALL)
                    self.read(st, sroot, soff, nn, i, "copied out by memcpy", record, mask=rng(soff, nn) & lm)
                droot, doff = self.addr(i.ops[0])
                if droot is not None and doff is not None and n["k"] == "int":
                    st = dict(st); st[droot] |= rng(doff, int(n["v"]))
            elif c in ("free", "malloc", "calloc", "realloc") or c.startswith("llvm."):
                pass
            else:
                s = self.eng.summary_for(i)
                newst = None
                for n in range(i["nargs"]):
                    a = i.ops[n]
                    if not a["t"].endswith("*"): continue
                    root, off = self.addr(a)
                    if root is None:
                        # a pointer that is one of several objects (cond ? &param->field : &local): the callee may read any of them
                        # (reads are obligations for each alternative; nothing is credited as written)
                        if s is not None and s.rbw.get(n, 0):
                            for (r2, o2) in self.addr_alternatives(a):
                                if o2 is not None: self.read(st, r2, o2, 0, i, "read by callee %s (first at %s)" % (c, s.rbw_site.get(n, "?")), record, mask=(s.rbw[n] << o2))
                        continue
                    if s is None:
                        # unknown external: assume it initialises what it is given
                        newst = newst or dict(st); newst[root] = ALL; continue
                    if off is None: continue
                    need = s.rbw.get(n, 0)
                    if need:
                        self.read(st, root, off, 0, i, "read by callee %s (first at %s)" % (c, s.rbw_site.get(n, "?")), record, mask=(need << off))
                    w = s.mw.get(n, 0)
                    if w:
                        newst = newst or dict(st); newst[root] |= (w << off) & ALL
                if newst is not None: st = newst
                # per-return-class writes: remembered for refinement when the result is tested
        return st

    def edge(self, p, b, st):
        """refinements: (1) param == NULL edge: the object does not exist -> vacuously initialised;
        (2) result of a call compared with a constant: add the callee's per-return-class must-writes"""
        t = p.term
        if t.op != "br" or len(t.ops) != 3: return st
        cond = t.ops[0]; fls, tru = t.ops[1]["v"], t.ops[2]["v"]
        if fls == tru or cond["k"] != "inst": return st
        # a condition built with | / & (or their select forms): on the false side of an "or" both parts are false, on the true side of an
        # "and" both are true
        atoms = []
        self._cond_parts(cond, b.id == tru, atoms)
        for (c_, truth_) in atoms: st = self._edge_atom(c_, truth_, st)
        return st

    def _cond_parts(self, o, truth, atoms, d=0):
        if o["k"] != "inst" or d > 6: return
        x = self.fn.imap[o["v"]]
        if x.op == "xor" and x.ops[1]["k"] == "int" and int(x.ops[1]["v"]) & 1 and x["t"] == "i1": self._cond_parts(x.ops[0], not truth, atoms, d + 1); return
        is_or = (x.op == "or" and x["t"] == "i1") or (x.op == "select" and x["t"] == "i1" and x.ops[1]["k"] == "int" and int(x.ops[1]["v"]) == 1)
        is_and = (x.op == "and" and x["t"] == "i1") or (x.op == "select" and x["t"] == "i1" and x.ops[2]["k"] == "int" and int(x.ops[2]["v"]) == 0)
        if is_or and not truth:
            a_, b_ = (x.ops[0], x.ops[2]) if x.op == "select" else (x.ops[0], x.ops[1])
            self._cond_parts(a_, False, atoms, d + 1); self._cond_parts(b_, False, atoms, d + 1); return
        if is_and and truth:
            self._cond_parts(x.ops[0], True, atoms, d + 1); self._cond_parts(x.ops[1], True, atoms, d + 1); return
        if is_or or is_and: return
        atoms.append((o, truth))

    def _feeds(self, o, vid, d=0):
        """o is the value vid, possibly through casts"""
        if o["k"] != "inst" or d > 4: return False
        if o["v"] == vid: return True
        x = self.fn.imap[o["v"]]
        return x.op in ("zext", "sext", "trunc", "bitcast") and self._feeds(x.ops[0], vid, d + 1)

    def sole_select_use(self, ld):
        """the select that is the only consumer of this load (through casts), or None"""
        if not hasattr(self, "_users"):
            self._users = {}
            for j in self.fn.insts():
                ops = [x["v"] for x in j["incoming"]] if j.op == "phi" else j.ops
                for o in ops:
                    if o["k"] == "inst": self._users.setdefault(o["v"], []).append(j)
        cur = ld; sel = None
        for _ in range(5):
            us = self._users.get(cur.id, [])
            if len(us) != 1: return None
            u = us[0]
            if u.op in ("zext", "sext", "trunc", "bitcast"): cur = u; continue
            return u if u.op == "select" and not self._feeds(u.ops[0], ld.id) else None
        return None

    def _edge_atom(self, cond, taken, st):
        ci = self.fn.imap[cond["v"]]
        if ci.op != "icmp":
            # `if (helper(...))` / `if (!helper(...))` on a bool-returning callee: the same as comparing its result with 0
            neg = False; x = ci
            for _ in range(4):
                if x.op == "xor" and x.ops[1]["k"] == "int" and int(x.ops[1]["v"]) & 1 and x.ops[0]["k"] == "inst": neg = not neg; x = self.fn.imap[x.ops[0]["v"]]
                elif x.op in ("zext", "trunc") and x.ops[0]["k"] == "inst": x = self.fn.imap[x.ops[0]["v"]]
                else: break
            if x.op != "call" or x.get("callee") not in self.eng.summ: return st
            a = {"k": "inst", "v": x.id, "t": x["t"]}; bb = {"k": "int", "v": "0", "sv": "0", "t": x["t"]}; pred = "eq" if neg else "ne"
        else:
            a, bb = ci.ops; pred = ci["pred"]
        # (1)
        if pred in ("eq", "ne") and bb["k"] == "null":
            root, off = self.fi.ptr(a)
            if root in self.objs and root[0] == "arg":
                is_null_edge = (pred == "eq") == taken
                if is_null_edge:
                    st = dict(st); st[root] = ALL
            return st
        # (2)
        if bb["k"] == "int" and a["k"] == "inst":
            src = a
            for _ in range(4):
                si = self.fn.imap[src["v"]]
                if si.op in ("zext", "sext", "trunc") and si.ops[0]["k"] == "inst": src = si.ops[0]
                else: break
            si = self.fn.imap[src["v"]]
            if si.op == "call" and si.get("callee") in self.eng.summ:
                s = self.eng.summary_for(si); cval = int(bb["sv"])
                # which return classes are possible on this edge?
                def possible(rc):
                    if rc is None: return True
                    res = {"eq": rc == cval, "ne": rc != cval, "ult": rc < cval, "ule": rc <= cval, "ugt": rc > cval, "uge": rc >= cval,
                           "slt": rc < cval, "sle": rc <= cval, "sgt": rc > cval, "sge": rc >= cval}.get(pred, True)
                    return res == taken
                newst = None
                for n in range(si["nargs"]):
                    arg = si.ops[n]
                    if not arg["t"].endswith("*") or n not in s.mw_ret: continue
                    root, off = self.addr(arg)
                    if root is None or off is None: continue
                    m = ALL; anyc = False
                    for rc, mask in s.mw_ret[n].items():
                        if possible(rc): m &= mask; anyc = True
                    if anyc and m:
                        newst = newst or dict(st); newst[root] |= (m << off) & ALL
                if newst is not None: return newst
        return st

    def run(self):
        fn = self.fn; fn.dom()
        IN = {fn.entry.id: self.init_state()}; OUT = {}
        def join(a, b):
            if a is None: return dict(b)
            return {k: a[k] & b[k] for k in a}
        changed = True; rounds = 0
        while changed and rounds < 40:
            changed = False; rounds += 1
            for b in fn.rpo:
                if b is not fn.entry:
                    st = None
                    for p in b.preds:
                        if (p.id, b.id) in self.dead: continue
                        if p.id in OUT: st = join(st, self.edge(p, b, OUT[p.id]))
                    if st is None: continue
                    if IN.get(b.id) != st: IN[b.id] = st; changed = True
                st = IN[b.id]
                for i in b.insts: st = self.transfer(i, st, False)
                if OUT.get(b.id) != st: OUT[b.id] = st; changed = True
        self.IN = IN; self.OUT = OUT
        self.ret_states = []
        for b in fn.rpo:
            if b.id not in IN: continue
            st = IN[b.id]
            for i in b.insts:
                if i.op == "ret": self.ret_states.append((i, st, b))
                st = self.transfer(i, st, True)

    def ret_const(self, t, via=None):
        if not t.ops: return None
        v = t.ops[0]
        if v["k"] == "int": return int(v["sv"])
        if v["k"] == "null": return 0
        return None

    def summary(self):
        s = Summary(len(self.fn.params))
        for k, m in self.exposed.items():
            s.rbw[k] = m; s.rbw_site[k] = self.exposed_site.get(k)
        # must-writes per return; returns whose value is a phi of constants are split per incoming edge
        per_param = defaultdict(lambda: defaultdict(lambda: ALL)); allm = defaultdict(lambda: ALL)
        for (t, st, b) in self.ret_states:
            cases = []
            v = t.ops[0] if t.ops else None
            def state_via(dead2):
                """must-write state at this return over the paths that avoid the edges in dead2 (one way of choosing the returned value)"""
                saved = (self.dead, self.IN, self.OUT, self.ret_states, defaultdict(int, self.exposed), dict(self.exposed_site))
                try:
                    self.dead = dead2; self.run()
                    return next((st2 for (t2, st2, b2) in self.ret_states if t2 is t), None)
                finally:
                    self.dead, self.IN, self.OUT, self.ret_states, self.exposed, self.exposed_site = saved
            def phi_cases(val, blk, dead1, depth=0):
                """(return class, must-write state) per way the returned value was chosen.  The value is a phi merged at or before the
                return (single-exit style: `result` set before a `done:` label, clean-up and metadata fill, return).  Each class is the
                function restricted to the paths through its own edge into the merge: what it writes before and after the merge counts."""
                if val["k"] != "inst" or depth > 3: return None
                phi = self.fn.imap[val["v"]]
                if phi.op != "phi" or phi.block.id in self.fn.loops() or not self.fn.dominates(phi.block.id, blk.id): return None
                out = []
                for inc in phi["incoming"]:
                    p = self.fn.bmap[inc["b"]]
                    if p.id not in self.OUT or (p.id, phi.block.id) in self.dead: continue
                    dead2 = set(dead1) | {(q.id, phi.block.id) for q in phi.block.preds if q.id != p.id}
                    iv = inc["v"]
                    inner = None if iv["k"] in ("int", "null") else phi_cases(iv, p, dead2, depth + 1)
                    if inner is not None: out += inner; continue
                    es = state_via(dead2)
                    if es is None: continue
                    out.append(((int(iv["sv"]) if iv["k"] == "int" else 0) if iv["k"] in ("int", "null") else None, es))
                return out
            pc = phi_cases(v, b, self.dead) if v is not None else None
            if pc is not None and any(rc is not None for rc, _ in pc):
                cases = pc
            else:
                cases.append((self.ret_const(t), st))
            cases = self.expand_call_classes(cases, v if not cases or len(cases) == 1 else None, b)
            for rc, stt in cases:
                for r in self.objs:
                    if r[0] != "arg": continue
                    per_param[r[1]][rc] &= stt[r]
                    allm[r[1]] &= stt[r]
        for k in list(allm):
            size = self.objs[("arg", k)]["size"]
            s.mw[k] = allm[k] & rng(0, size)
            s.mw_ret[k] = {rc: (m & rng(0, size)) for rc, m in per_param[k].items()}
        return s


def _expand(self, cases, v, b):
    """`return f(...)`: the caller's return classes are the callee's, each with the callee's per-class must-writes"""
    if v is None or v["k"] != "inst": return cases
    src = v
    for _ in range(4):
        si = self.fn.imap[src["v"]]
        if si.op in ("zext", "sext", "trunc") and si.ops[0]["k"] == "inst": src = si.ops[0]
        else: break
    ci = self.fn.imap[src["v"]]
    if ci.op != "call" or ci.get("callee") not in self.eng.summ or len(cases) != 1 or cases[0][0] is not None: return cases
    s = self.eng.summary_for(ci); st0 = cases[0][1]
    classes = set()
    for n in s.mw_ret: classes |= set(s.mw_ret[n])
    if not classes: return cases
    out = []
    for rc in classes:
        st = dict(st0)
        for n in range(ci["nargs"]):
            a = ci.ops[n]
            if not a["t"].endswith("*") or n not in s.mw_ret: continue
            root, off = self.addr(a)
            if root is None or off is None: continue
            st[root] |= (s.mw_ret[n].get(rc, 0) << off) & ALL
        out.append((rc, st))
    return out


FnUninit.expand_call_classes = _expand


class Engine:
    def __init__(self, mod, core):
        self.mod = mod; self.core = core; self.layout = Layout(mod)
        self.summ = {}; self.fa = {}; self.spec = {}
        self.solve()

    def summary_for(self, call):
        """summary of the callee at this call site; specialised on constant integer arguments when there are any"""
        c = call.get("callee")
        base = self.summ.get(c)
        if base is None: return None
        fn = self.mod.fn(c)
        ctx = tuple((n, int(call.ops[n]["v"])) for n in range(call["nargs"]) if call.ops[n]["k"] == "int" and call.ops[n]["t"] != "i1" or (call.ops[n]["k"] == "int"))
        if not ctx or fn is None or len(fn.blocks) > 400: return base
        key = (c, ctx)
        if key not in self.spec:
            self.spec[key] = base                     # recursion guard
            fu = FnUninit(fn, self, dict(ctx))
            self.spec[key] = fu.summary()
        return self.spec[key]

    def solve(self):
        fns = self.mod.defined()
        # optimistic start for must-writes of recursive functions is not needed: summaries start empty (no credit, no reads)
        order = self.bottom_up(fns)
        for rnd in range(6):
            changed = False; self.spec = {}
            for f in order:
                fu = FnUninit(f, self); self.fa[f.name] = fu
                s = fu.summary()
                if f.name not in self.summ or self.summ[f.name].key() != s.key(): changed = True
                self.summ[f.name] = s
            if not changed: break
        self.rounds = rnd + 1

    def bottom_up(self, fns):
        names = {f.name: f for f in fns}; seen = set(); order = []
        def visit(f, depth=0):
            if f.name in seen: return
            seen.add(f.name)
            for i in f.calls():
                c = i.get("callee")
                if c in names and depth < 200: visit(names[c], depth + 1)
            order.append(f)
        for f in fns: visit(f)
        return order


def mask_ranges(mask):
    out = []; i = 0
    while mask:
        if mask & 1:
            j = i
            while mask & 1: mask >>= 1; i += 1
            out.append((j, i))
        else: mask >>= 1; i += 1
    return out


def field_names(layout, type_str, mask):
    """names of the debug-info fields of struct `type_str` that overlap `mask`"""
    if not type_str.startswith("%") or "." not in type_str: return ["bytes %s" % mask_ranges(mask)]
    di = type_str[1:].split(".", 1)[1]
    fs = layout.di_fields(di)
    out = [n for (n, off, sz, isu) in fs if rng(off, sz) & mask]
    return out or ["bytes %s" % mask_ranges(mask)]


def constructor_states(fu):
    """for every return of a pointer to a tracked heap object: (ret inst, root, state mask), per incoming edge of a returned phi"""
    fn = fu.fn; out = []
    for (t, st, b) in fu.ret_states:
        v = t.ops[0] if t.ops else None
        if v is None or not v["t"].endswith("*"): continue
        cases = []
        if v["k"] == "inst" and fn.imap[v["v"]].op == "phi" and fn.imap[v["v"]].block is b:
            for inc in fn.imap[v["v"]]["incoming"]:
                p = fn.bmap[inc["b"]]
                if p.id in fu.OUT and (p.id, b.id) not in fu.dead: cases.append((inc["v"], fu.edge(p, b, fu.OUT[p.id])))
        else: cases.append((v, st))
        for val, stt in cases:
            if val["k"] != "inst": continue
            root, off = fu.fi.ptr(val)
            if root in fu.objs and root[0] == "heap" and off.is_const() and off.c == 0:
                out.append((t, root, stt[root]))
    return out


# ======================================================================================
# S3: positional heap arrays - written in every iteration of a covering loop before being handed whole to a reader
# ======================================================================================
def array_init(eng, fn):
    """For each malloc'ed array whose elements are written *by position* (index = loop counter): if no positional write executes
    on every iteration of a loop covering the allocation, and the whole array is later read (handed to a reading callee from its
    base, or loaded by position in every iteration of another loop), report it.  Arrays filled through a separate cursor
    (compaction) or only read under per-element guards are not decided.  Returns [(malloc inst, reader inst, why)] and a count."""
    from .lin import Lin
    fi = eng.core.fi(fn).prepare(); loops = fn.loops(); fn.dom()
    pts = eng.core.pts
    res = []; ntracked = 0
    def latch_blocks(h): return [p.id for p in fn.bmap[h].preds if p.id in loops[h]]
    def every_iteration(inst, h): return all(fn.dominates(inst.block.id, l) for l in latch_blocks(h))
    def counter_of(h):
        body = loops[h]
        for j in fn.bmap[h].insts:
            if j.op != "phi" or j["t"].endswith("*") or len(j["incoming"]) != 2: continue
            o2 = [x for x in j["incoming"] if x["b"] not in body]; b2 = [x for x in j["incoming"] if x["b"] in body]
            if len(o2) == 1 and len(b2) == 1 and o2[0]["v"]["k"] == "int" and int(o2[0]["v"]["v"]) == 0 and b2[0]["v"]["k"] == "inst":
                si = fn.imap[b2[0]["v"]["v"]]
                if si.op == "add" and si.ops[1]["k"] == "int" and int(si.ops[1]["v"]) == 1 and si.ops[0]["k"] == "inst" and si.ops[0]["v"] == j.id: return j
        return None
    def loop_of(inst):
        best = None
        for h, body in loops.items():
            if inst.block.id in body and (best is None or len(body) < len(loops[best])): best = h
        return best
    for m in fn.calls("malloc"):
        root = ("heap", m.id)
        size = fi.lin(m.ops[0])
        if size.is_const(): continue                       # fixed-size objects are E-UNINIT's business
        writes = []; readers = []
        for i in fn.insts():
            if i.op == "store":
                r, off = fi.ptr(i.ops[1])
                if r == root: writes.append((i, off, i["size"], "store"))
            elif i.op == "load":
                r, off = fi.ptr(i.ops[0])
                if r == root: readers.append((i, off, "load"))
            elif i.op == "call":
                c = i.get("callee") or ""
                if c in ("free", "realloc"): continue
                if c.startswith("llvm.memset") or c.startswith(("llvm.memcpy", "llvm.memmove")):
                    r, off = fi.ptr(i.ops[0])
                    if r == root: writes.append((i, off, None, "bulk"))
                    if not c.startswith("llvm.memset"):
                        r2, off2 = fi.ptr(i.ops[1])
                        if r2 == root: readers.append((i, off2, "memcpy"))
                    continue
                s = pts.summ.get(c); us = eng.summ.get(c)
                for n in range(i["nargs"]):
                    a = i.ops[n]
                    if not a["t"].endswith("*"): continue
                    r, off = fi.ptr(a)
                    if r != root: continue
                    wr = s is not None and any(x[0] == "arg" and x[1] == n for x in s.mod)
                    rd = s is not None and ("arg", n, 0) in s.reads
                    if wr:
                        full = us is not None and us.mw.get(n, 0) != 0
                        writes.append((i, off, "callee-full" if full else "callee-some", "call"))
                    if rd and not (wr and us is not None and not us.rbw.get(n, 0)): readers.append((i, off, "call:%s" % c))
        if not writes: continue
        # positional writes: offset = stride * (loop counter)
        positional = []; other = []
        for (i, off, sz, kind) in writes:
            h = loop_of(i)
            ctr = counter_of(h) if h is not None else None
            cl = fi.lin({"k": "inst", "v": ctr.id, "t": ctr["t"]}) if ctr is not None else None
            ispos = False
            if cl is not None and len(off.t) == 1 and off.c == 0:
                (a, k), = off.t.items()
                if a in cl.atoms() and k > 0: ispos = True; stride = k
            if ispos: positional.append((i, h, stride, kind, sz))
            else: other.append((i, off, kind))
        if not positional: continue
        ntracked += 1
        if any(kind == "bulk" or (off.is_const() and off.c == 0 and kind == "call") for (i, off, kind) in other): continue     # filled wholesale somewhere
        # every path through a covering loop's body passes a positional write (possibly different writes on different paths)
        full = False
        def written_when_loop_continues(ci, h):
            """a callee that writes the element only on success: does every way of staying in loop h after the call imply success?"""
            us2 = eng.summary_for(ci)
            if us2 is None: return False
            nn = next((n for n in range(ci["nargs"]) if ci.ops[n]["t"].endswith("*") and fi.ptr(ci.ops[n])[0] == root), None)
            if nn is None or nn not in us2.mw_ret: return False
            classes = us2.mw_ret[nn]
            if not any(classes.values()): return False
            body = loops[h]
            # the test of the result: same block or the next one
            blk = ci.block; t = blk.term
            if t.op != "br" or len(t.ops) != 3 or t.ops[0]["k"] != "inst": return False
            x = fn.imap[t.ops[0]["v"]]; neg = False; pred = "ne"; cval = 0
            for _ in range(4):
                if x.op == "xor" and x.ops[1]["k"] == "int" and int(x.ops[1]["v"]) & 1 and x.ops[0]["k"] == "inst": neg = not neg; x = fn.imap[x.ops[0]["v"]]
                elif x.op in ("zext", "trunc", "sext") and x.ops[0]["k"] == "inst": x = fn.imap[x.ops[0]["v"]]
                elif x.op == "icmp" and x.ops[1]["k"] == "int" and x.ops[0]["k"] == "inst": pred = x["pred"]; cval = int(x.ops[1]["sv"]); x = fn.imap[x.ops[0]["v"]]
                else: break
            if x.id != ci.id: return False
            def possible(rc, taken):
                if rc is None: return True
                res = {"eq": rc == cval, "ne": rc != cval, "ult": rc < cval, "ule": rc <= cval, "ugt": rc > cval, "uge": rc >= cval, "slt": rc < cval, "sle": rc <= cval, "sgt": rc > cval, "sge": rc >= cval}.get(pred, True)
                return (res != neg) == taken
            for taken, succ in ((True, t.ops[2]["v"]), (False, t.ops[1]["v"])):
                unwritten_possible = any(possible(rc, taken) and not mask for rc, mask in classes.items())
                if unwritten_possible and succ in body and h in fn.reachable(succ) | {succ}: return False
            return True
        for h in {h for (_, h, _, _, _) in positional}:
            wblocks = {i.block.id for (i, hh, _, kind, sz) in positional if hh == h and not (kind == "call" and sz != "callee-full" and not written_when_loop_continues(i, h))}
            if not wblocks: continue
            body = loops[h]; seen = set(); st = [h]; escaped = False
            if h in wblocks: full = True; break
            while st:
                x = st.pop()
                if x in seen: continue
                seen.add(x)
                for s2 in fn.bmap[x].succs:
                    if s2.id == h: escaped = True          # back at the header without having met a write
                    elif s2.id in body and s2.id not in wblocks: st.append(s2.id)
            if not escaped: full = True; break
        if full: continue
        # whole-array readers
        for (r, off, kind) in readers:
            whole = False
            if kind.startswith("call") or kind == "memcpy":
                whole = False
                if off.is_const() and off.c == 0:
                    stride0 = positional[0][2]
                    if kind == "memcpy": whole = fi.lin(r.ops[2]) == size
                    else:
                        # the callee is told to look at as many elements as were allocated
                        for n2 in range(r["nargs"]):
                            a2 = r.ops[n2]
                            if not a2["t"].endswith("*") and fi.lin(a2).scale(stride0) == size: whole = True
            else:
                h = loop_of(r); ctr = counter_of(h) if h is not None else None
                if ctr is not None and every_iteration(r, h):
                    cl = fi.lin({"k": "inst", "v": ctr.id, "t": ctr["t"]})
                    whole = len(off.t) == 1 and off.c == 0 and next(iter(off.t)) in cl.atoms()
            if whole:
                w0 = positional[0][0]
                res.append((m, r, "array allocated at line %s is written by position only on some iterations (e.g. line %s is skipped on a path through the loop) but is read in full by %s at line %s" % (m.line, w0.line, kind, r.line)))
                break
    return res, ntracked
