"""E-ALLOC - allocation typestate (DESIGN 3): C18 rules R1,R2,R3,R5 and C08's R4.

Per function, a forward dataflow over the CFG on a joint state  site -> set of {U,M,O,Z,R,I,P}:
  U not allocated yet   M allocated, maybe NULL   O owned, known non-NULL   Z known NULL
  R released (freed / returned / stored into caller-visible memory)   I stored inside another fresh object
  P passed to realloc, fate depends on the realloc result
Sites are calls to malloc/calloc/realloc, calls to functions whose E-PTS summary is "returns fresh memory",
and (status sites) calls to *purely fallible* functions - functions whose failure value is only ever returned
on an allocation-failure edge."""
from collections import defaultdict
from .pts import ALLOC, is_ptr
from .report import rel

PTR_ALLOC = {"malloc", "calloc", "realloc", "aligned_alloc"}
MEMI = ("llvm.memcpy", "llvm.memmove", "llvm.memset")


def loc(i):
    return "%s:%s" % (rel(i.d.get("file", i.fn.file)), i.d.get("line", "?"))


class Site:
    def __init__(self, inst, kind, callee, ordinal):
        self.inst = inst; self.kind = kind; self.callee = callee; self.ordinal = ordinal
        self.aliases = set(); self.fail_value = 0
    def name(self): return "%s#%d" % (self.callee, self.ordinal)


class FnAlloc:
    def __init__(self, fn, eng, param_site=None):
        self.fn = fn; self.eng = eng; self.fi = eng.core.fi(fn).prepare(); self.fp = eng.pts.fp.get(fn.name)
        self.sites = []; self.r1 = []; self.r3 = []; self.double_free = []; self.null_edges = defaultdict(list)
        self.param_site = param_site
        self.collect_sites()
        if self.sites:
            for s in self.sites: self.compute_aliases(s)
            self.derived_cache = {}
            self.dataflow()

    # ---------- sites ----------
    def collect_sites(self):
        cnt = defaultdict(int)
        if self.param_site is not None:
            s = Site(None, "param", "param%d" % self.param_site, 1); s.param = self.param_site
            self.sites.append(s); return
        for i in self.fn.insts():
            if i.op != "call": continue
            c = i.get("callee")
            if c is None: continue
            kind = None
            if c in PTR_ALLOC: kind = "ptr"
            elif c in self.eng.fresh_fns and is_ptr(i["t"]): kind = "ptr"
            elif c in self.eng.pure_fallible and not is_ptr(i["t"]) and i["t"] != "void": kind = "status"
            if kind is None: continue
            cnt[c] += 1
            s = Site(i, kind, c, cnt[c])
            if kind == "status": s.fail_value = self.eng.failure_value(self.fn.mod.functions[c])
            self.sites.append(s)

    def compute_aliases(self, s):
        fn = self.fn; A = set()
        if s.kind == "param": A.add(("arg", s.param))
        else: A.add(("inst", s.inst.id))
        slots = set()    # (alloca root, const off) into which an alias is stored: loads from there are may-aliases
        changed = True
        def isal(o):
            if o["k"] == "inst": return ("inst", o["v"]) in A
            if o["k"] == "arg": return ("arg", o["v"]) in A
            return False
        while changed:
            changed = False
            for i in fn.insts():
                if i.id < 0:
                    if i.op == "store" and isal(i.ops[0]):
                        root, off = self.fi.ptr(i.ops[1])
                        if root[0] == "alloca" and off.is_const():
                            k = (root, off.c)
                            if k not in slots: slots.add(k); changed = True
                    continue
                if ("inst", i.id) in A: continue
                add = False
                if i.op in ("bitcast", "zext", "sext", "trunc", "ptrtoint", "inttoptr", "freeze"): add = isal(i.ops[0])
                elif i.op == "load":
                    src = self.fi.load_source(i)
                    if src is not None and isal(src): add = True
                    else:
                        sv = self.fi.same_value(i)
                        if sv is not None and ("inst", sv) in A: add = True
                        else:
                            root, off = self.fi.ptr(i.ops[0])
                            if root[0] == "alloca" and off.is_const() and (root, off.c) in slots: add = True
                elif i.op == "phi":
                    vals = [inc["v"] for inc in i["incoming"]]
                    nn = [v for v in vals if v["k"] not in ("null", "undef") and not (v["k"] == "int")]
                    add = bool(nn) and all(isal(v) or (v["k"] == "inst" and v["v"] == i.id) for v in nn) and any(isal(v) for v in nn)
                elif i.op == "select":
                    nn = [v for v in i.ops[1:3] if v["k"] not in ("null", "undef")]
                    add = bool(nn) and all(isal(v) for v in nn)
                if add: A.add(("inst", i.id)); changed = True
        s.aliases = A

    def is_alias(self, s, o):
        if o["k"] == "inst": return ("inst", o["v"]) in s.aliases
        if o["k"] == "arg": return ("arg", o["v"]) in s.aliases
        return False

    def derived(self, s, o, depth=0):
        """o is a pointer computed from an alias of s by GEP/bitcast (an address inside the object)"""
        if self.is_alias(s, o): return True
        if o["k"] != "inst" or depth > 10: return False
        i = self.fn.imap[o["v"]]
        if i.op in ("getelementptr", "bitcast"): return self.derived(s, i.ops[0], depth + 1)
        return False

    # ---------- condition evaluation under "site == failure value" ----------
    def const_under(self, o, s, V, depth=0):
        if depth > 8: return None
        k = o["k"]
        if k == "int": return int(o["sv"]) if "sv" in o else int(o["v"])
        if k == "null": return 0
        if self.is_alias(s, o): return V
        if k != "inst": return None
        i = self.fn.imap[o["v"]]
        if i.op in ("zext", "sext", "trunc", "bitcast", "ptrtoint", "freeze"): return self.const_under(i.ops[0], s, V, depth + 1)
        if i.op == "phi" and i["t"] in ("i1", "i8") and i.block.id not in self.fn.loops():
            # a flag that is constant on some paths and a test of the site on the others: its value when the site failed, if that is one value
            vals = {self.const_under(c["v"], s, V, depth + 1) for c in i["incoming"]}
            return vals.pop() if len(vals) == 1 and None not in vals else None
        if i.op == "xor":
            a = self.const_under(i.ops[0], s, V, depth + 1); b = self.const_under(i.ops[1], s, V, depth + 1)
            if a is None or b is None: return None
            return a ^ b
        if i.op == "icmp":
            a = self.const_under(i.ops[0], s, V, depth + 1); b = self.const_under(i.ops[1], s, V, depth + 1)
            if a is None or b is None: return None
            p = i["pred"]
            if p == "eq": return int(a == b)
            if p == "ne": return int(a != b)
            if p in ("slt", "ult"): return int(a < b)
            if p in ("sle", "ule"): return int(a <= b)
            if p in ("sgt", "ugt"): return int(a > b)
            if p in ("sge", "uge"): return int(a >= b)
        return None

    def mentions(self, o, s, depth=0):
        if self.is_alias(s, o): return True
        if o["k"] != "inst" or depth > 8: return False
        i = self.fn.imap[o["v"]]
        if i.op in ("zext", "sext", "trunc", "bitcast", "ptrtoint", "xor", "icmp", "freeze"):
            return any(self.mentions(x, s, depth + 1) for x in i.ops)
        if i.op == "phi" and i["t"] in ("i1", "i8") and i.block.id not in self.fn.loops():
            # a flag variable: `ok = false; if (...) { p = malloc(n); ok = (p != NULL); }`
            return any(self.mentions(c["v"], s, depth + 1) for c in i["incoming"])
        return False

    def edge_refine(self, p, b, st):
        """state after taking CFG edge p->b"""
        t = p.term
        if t.op != "br" or len(t.ops) != 3: return st
        cond = t.ops[0]; fls, tru = t.ops[1]["v"], t.ops[2]["v"]
        if fls == tru: return st
        taken = (b.id == tru)
        out = None
        for k, s in enumerate(self.sites):
            if not self.mentions(cond, s): continue
            V = 0 if s.kind != "status" else s.fail_value
            cv = self.const_under(cond, s, V)
            if cv is None: continue
            fail_edge = (bool(cv) == taken)       # this edge is the one taken when the site failed
            cur = st[k]
            if fail_edge:
                # on this edge the site MAY be the failure value (for eq/ne tests: IS the failure value)
                exact = self.is_exact_test(cond, s)
                if exact:
                    new = set()
                    for x in cur:
                        if x in ("M", "J"): new.add("Z")
                        elif x in ("O", "I"): continue      # infeasible: known non-null
                        else: new.add(x)
                else: new = set(cur)
                if cur & {"M", "J"}:            # a failure edge only if the allocation result has not been tested yet
                    self.null_edges[k].append((p.id, b.id))
            else:
                new = set()
                for x in cur:
                    if x == "M": new.add("O")
                    elif x == "J": new.add("I")
                    elif x == "Z": continue
                    else: new.add(x)
                # a successful realloc released its old block
                if s.kind == "ptr" and s.callee == "realloc":
                    for k2, s2 in enumerate(self.sites):
                        if k2 != k and "P" in (out or st)[k2] and self.realloc_old.get(k) == k2:
                            out = list(out or st); out[k2] = frozenset(("R" if x == "P" else x) for x in out[k2])
            if fail_edge and s.kind == "ptr" and s.callee == "realloc":
                for k2, s2 in enumerate(self.sites):
                    if k2 != k and "P" in (out or st)[k2] and self.realloc_old.get(k) == k2:
                        out = list(out or st); out[k2] = frozenset(("O" if x == "P" else x) for x in out[k2])
            out = list(out or st); out[k] = frozenset(new)
        return tuple(out) if out is not None else st

    def is_exact_test(self, cond, s):
        """the condition is (an i1 view of) `alias == V` / `alias != V` - so the failing edge pins the value"""
        if cond["k"] != "inst": return self.is_alias(s, cond)
        i = self.fn.imap[cond["v"]]
        if self.is_alias(s, cond): return True
        if i.op == "xor": return self.is_exact_test(i.ops[0], s)
        if i.op in ("zext", "trunc"): return self.is_exact_test(i.ops[0], s)
        if i.op == "icmp" and i["pred"] in ("eq", "ne"): return True
        if i.op == "icmp": return s.kind == "status"      # r < 0 for a -1 failure value
        return False

    # ---------- transfer ----------
    def transfer_inst(self, i, st, record):
        sites = self.sites; out = None
        def setk(k, v):
            nonlocal out
            if out is None: out = list(st)
            out[k] = frozenset(v)
        cur = lambda k: (out or st)[k]
        if i.op == "call":
            c = i.get("callee")
            for k, s in enumerate(sites):
                if s.inst is i:
                    if record and cur(k) & {"O", "M"} and s.kind == "ptr":
                        self.r3.append((s, i, "allocation executed again while the previous block is still owned (loop)"))
                    setk(k, {"M"})
            if c == "free":
                for k, s in enumerate(sites):
                    if s.kind != "status" and self.is_alias(s, i.ops[0]):
                        if record and cur(k) == frozenset({"R"}) and s.kind == "ptr":
                            self.double_free.append((s, i))
                        # raw free of an object that still holds other owned blocks
                        if record:
                            for k2, s2 in enumerate(sites):
                                if self.inside.get(k2) == k and (cur(k2) & {"I", "J"}):
                                    self.r3.append((s2, i, "block stored inside %s is lost: the container is released with plain free()" % s.name()))
                        setk(k, {("R" if x in ("O", "M", "Z", "P", "I", "J") else x) for x in cur(k)})
                # `done: free(scratch);` where scratch merges NULL and the results of several allocation sites at this join: per incoming
                # edge, the site whose pointer arrives is released; on the other edges the site keeps the state it had there
                x = i.ops[0]
                while x["k"] == "inst" and self.fn.imap[x["v"]].op == "bitcast": x = self.fn.imap[x["v"]].ops[0]
                ph = self.fn.imap[x["v"]] if x["k"] == "inst" else None
                OUT_ = getattr(self, "_OUT", None); IN_ = getattr(self, "_IN", None)
                if ph is not None and ph.op == "phi" and ph.block is i.block and OUT_ is not None and i.block.id in IN_:
                    for k, s in enumerate(sites):
                        if s.kind == "status" or self.is_alias(s, i.ops[0]): continue
                        incs = [(inc, self.is_alias(s, inc["v"])) for inc in ph["incoming"]]
                        if not any(a for _, a in incs) or cur(k) != IN_[i.block.id][k]: continue
                        new = set()
                        for inc, a in incs:
                            pb = self.fn.bmap[inc["b"]]
                            if (pb.id, i.block.id) in self.dead_edges or pb.id not in OUT_: continue
                            est = self.edge_refine(pb, i.block, OUT_[pb.id])[k]
                            new |= {("R" if z in ("O", "M", "Z", "P", "I", "J") else z) for z in est} if a else set(est)
                        if new: setk(k, new)
            elif c == "realloc":
                for k, s in enumerate(sites):
                    if s.inst is not i and s.kind != "status" and self.is_alias(s, i.ops[0]):
                        setk(k, {("P" if x in ("O", "M") else x) for x in cur(k)})
                        for k2, s2 in enumerate(sites):
                            if s2.inst is i: self.realloc_old[k2] = k
            elif c is not None and not c.startswith(MEMI):
                summ = self.eng.pts.summ.get(c)
                for n in range(i["nargs"]):
                    a = i.ops[n]
                    for k, s in enumerate(sites):
                        if s.kind == "status" or not self.is_alias(s, a): continue
                        if record and (cur(k) & {"M", "Z", "J"}) and self.eng.null_intolerant(c, n):
                            self.r1.append((s, i, "passed to %s, which dereferences parameter %d without a NULL test" % (c, n), "Z" in cur(k)))
                        if summ is not None:
                            frees0 = ("arg", n, 0) in summ.frees
                            captured = any(("arg", n, 0) in S for S in summ.stores_ptr.values())
                            if frees0 or captured:
                                setk(k, {("R" if x in ("O", "M", "Z", "I", "J") else x) for x in cur(k)})
            # dereference through memory intrinsics
            if c is not None and c.startswith(MEMI) and record:
                for n in ((0,) if c.startswith("llvm.memset") else (0, 1)):
                    for k, s in enumerate(sites):
                        if s.kind != "status" and self.derived(s, i.ops[n]) and (cur(k) & {"M", "Z", "J"}):
                            if not self.zero_len(i.ops[2]):
                                self.r1.append((s, i, "%s through a possibly-NULL pointer" % c.split(".")[1], "Z" in cur(k)))
            if c == "qsort" and record:
                for k, s in enumerate(sites):
                    if s.kind != "status" and self.derived(s, i.ops[0]) and (cur(k) & {"M", "Z", "J"}):
                        self.r1.append((s, i, "qsort on a possibly-NULL pointer", "Z" in cur(k)))
        elif i.op in ("load", "store"):
            addr = i.ops[0] if i.op == "load" else i.ops[1]
            if record:
                for k, s in enumerate(sites):
                    if s.kind != "status" and self.derived(s, addr) and (cur(k) & {"M", "Z", "J"}):
                        self.r1.append((s, i, "%s through a possibly-NULL pointer" % i.op, "Z" in cur(k)))
            if i.op == "store":
                v = i.ops[0]
                for k, s in enumerate(sites):
                    if s.kind == "status" or not self.is_alias(s, v): continue
                    # where does it go?
                    dest = None
                    for k2, s2 in enumerate(sites):
                        if k2 != k and s2.kind != "status" and self.derived(s2, i.ops[1]): dest = ("site", k2)
                    if dest is None:
                        roots = self.fp.roots(i.ops[1]) if self.fp else set()
                        if any(r[0] in ("arg", "global") for r in roots): dest = ("caller",)
                        elif any(r[0] == "heap" for r in roots): dest = ("heapother",)
                        elif any(r[0] == "unknown" for r in roots) or not roots: dest = ("caller",)
                    if dest is None: continue
                    if dest[0] == "site":
                        self.inside[k] = dest[1]
                        setk(k, {("I" if x == "O" else "J" if x == "M" else x) for x in cur(k)})
                    elif dest[0] in ("caller", "heapother"):
                        setk(k, {("R" if x in ("O", "M", "I", "J") else x) for x in cur(k)})
        return tuple(out) if out is not None else st

    def inner_nonnull_possible(self, k2, cur):
        return bool(cur(k2) & {"I"})

    def zero_len(self, o):
        return o["k"] == "int" and int(o["v"]) == 0

    def dataflow(self):
        fn = self.fn; fn.dom(); n = len(self.sites)
        self.inside = {}; self.realloc_old = {}
        self.dead_edges = fn.enum_default_edges(self.fi)
        init = tuple(frozenset({"M"}) if s.kind == "param" else frozenset({"U"}) for s in self.sites)
        IN = {fn.entry.id: init}; OUT = {}
        self._IN = IN; self._OUT = OUT
        def join(a, b):
            if a is None: return b
            return tuple(x | y for x, y in zip(a, b))
        changed = True; rounds = 0
        while changed and rounds < 60:
            changed = False; rounds += 1
            for b in fn.rpo:
                if b is not fn.entry:
                    st = None
                    for p in b.preds:
                        if (p.id, b.id) in self.dead_edges: continue
                        if p.id in OUT: st = join(st, self.edge_refine(p, b, OUT[p.id]))
                    if st is None: continue
                    if IN.get(b.id) != st: IN[b.id] = st; changed = True
                st = IN[b.id]
                for i in b.insts: st = self.transfer_inst(i, st, False)
                if OUT.get(b.id) != st: OUT[b.id] = st; changed = True
        self.IN = IN; self.OUT = OUT
        self.null_edges = defaultdict(list)
        # recording pass
        for b in fn.rpo:
            if b.id not in IN: continue
            for p in b.preds:
                if p.id in OUT: self.edge_refine(p, b, OUT[p.id])
            st = IN[b.id]
            for i in b.insts[:-1]: st = self.transfer_inst(i, st, True)
            t = b.term
            if t.op == "ret":
                self.check_ret(b, t, st)
            else:
                self.transfer_inst(t, st, True)
        for k in self.null_edges: self.null_edges[k] = sorted(set(self.null_edges[k]))

    def check_ret(self, b, t, st_before):
        """R3 at a return: per incoming edge when the block is just phi(+casts)+ret"""
        simple = all(i.op in ("phi", "bitcast", "zext", "trunc", "ret") for i in b.insts)
        retv = t.ops[0] if t.ops else None
        cases = []
        if simple and retv is not None and retv["k"] == "inst" and self.fn.imap[retv["v"]].op == "phi" and self.fn.imap[retv["v"]].block is b:
            phi = self.fn.imap[retv["v"]]
            for inc in phi["incoming"]:
                p = self.fn.bmap[inc["b"]]
                if p.id in self.OUT: cases.append((self.edge_refine(p, b, self.OUT[p.id]), inc["v"], p))
        else:
            cases.append((st_before, retv, None))
        for st, v, p in cases:
            for k, s in enumerate(self.sites):
                if s.kind != "ptr": continue
                cur = st[k]
                if v is not None and self.is_alias(s, v): continue     # returned: ownership moves to the caller
                if cur & {"O", "M"}:
                    self.r3.append((s, t, "still owned at return%s (not freed, returned or stored into caller-visible memory)" %
                                    (" (path through block of line %s)" % (p.term.line,) if p is not None else "")))

    # ---------- R2: where does the failure edge lead? ----------
    def failure_exits(self, k):
        """for site k: list of (ret inst, returned operand or None, via-pred) reachable from its failure edges.
        Phi nodes crossed on the way are resolved along the path when their incoming value is a constant."""
        fn = self.fn; out = []; seen = set()
        stack = [(p, b, ()) for (p, b) in self.null_edges.get(k, [])]
        while stack:
            p, b, env = stack.pop()
            key = (p, b, tuple((a, c["k"], c.get("v")) for a, c in env))
            if key in seen or len(seen) > 4000: continue
            seen.add(key)
            blk = fn.bmap[b]; e = dict(env)
            for i in blk.insts:
                if i.op != "phi": break
                for inc in i["incoming"]:
                    if inc["b"] == p:
                        v = inc["v"]
                        if v["k"] == "inst" and v["v"] in e: v = e[v["v"]]
                        if v is not None and v["k"] in ("int", "null", "arg"): e[i.id] = v
                        else: e.pop(i.id, None)
            t = blk.term
            if t.op == "ret":
                v = t.ops[0] if t.ops else None
                if v is not None and v["k"] == "inst" and v["v"] in e: v = e[v["v"]]
                elif v is not None and v["k"] == "inst" and fn.imap[v["v"]].op == "phi" and fn.imap[v["v"]].block is blk:
                    inc = next((c for c in fn.imap[v["v"]]["incoming"] if c["b"] == p), None)        # what this path hands to the return (`return discard_(x)`)
                    if inc is not None: v = inc["v"]
                out.append((t, v, p))
                continue
            if t.op == "unreachable": continue
            succs = [s.id for s in blk.succs]
            if t.op == "br" and len(t.ops) == 3 and t.ops[1]["v"] != t.ops[2]["v"]:
                # the site holds its failure value all along this path: a later test of it (or of a flag that records it) goes one way only
                st_ = self.sites[k]
                if self.mentions(t.ops[0], st_):
                    cv = self.const_under(t.ops[0], st_, 0 if st_.kind != "status" else st_.fail_value)
                    if cv is not None: succs = [t.ops[2]["v"] if cv else t.ops[1]["v"]]
            for sid in succs:
                stack.append((b, sid, tuple(sorted(e.items(), key=lambda kv: kv[0]))))
        return out


class Engine:
    def __init__(self, mod, core, pts):
        self.mod = mod; self.core = core; self.pts = pts
        self.fresh_fns = {n for n, s in pts.summ.items() if ("fresh",) in s.ret and is_ptr(mod.functions[n].d["ret"])}
        self._intol = {}; self.pure_fallible = set(); self.fallible = set()
        self.fail_override = {}
        self.fa = {}
        self.solve()

    def failure_value(self, fn):
        if fn.name in self.fail_override: return self.fail_override[fn.name]
        t = fn.d["ret"]
        if t == "void": return None
        return 0

    def null_intolerant(self, callee, k):
        key = (callee, k)
        if key in self._intol: return self._intol[key]
        fn = self.mod.fn(callee)
        if fn is None:
            r = callee in ("qsort", "strlen", "memcmp")     # externals that dereference
            self._intol[key] = r; return r
        if k >= len(fn.params) or not is_ptr(fn.params[k]["t"]):
            self._intol[key] = False; return False
        self._intol[key] = False                            # optimistic for recursion
        fa = FnAlloc(fn, self, param_site=k)
        r = bool(fa.r1)
        self._intol[key] = r
        return r

    def analyse(self, fn):
        fa = FnAlloc(fn, self); self.fa[fn.name] = fa
        return fa

    def solve(self):
        """fixpoint on the sets of fallible / purely fallible functions"""
        for rnd in range(8):
            before = (set(self.fallible), set(self.pure_fallible))
            for fn in self.mod.defined():
                fa = self.analyse(fn)
                fv = self.failure_value(fn)
                if fv is None: continue
                fail_ret_edges = set(); any_fail = False
                for k, s in enumerate(fa.sites):
                    ex = fa.failure_exits(k)
                    good = [e for e in ex if e[1] is not None and self.is_const(e[1], fv)]
                    if good: any_fail = True
                    for (t, v, p) in good: fail_ret_edges.add((p, t.block.id))
                if any_fail:
                    self.fallible.add(fn.name)
                    if self.only_via_failure(fn, fa, fv): self.pure_fallible.add(fn.name)
            if before == (self.fallible, self.pure_fallible): break

    @staticmethod
    def is_const(o, val):
        if o["k"] == "null": return val == 0
        if o["k"] == "int": return int(o.get("sv", o["v"])) == val
        return False

    def only_via_failure(self, fn, fa, fv):
        """every return of the failure value is reachable only through a failure edge of some site"""
        cut = set()
        for k in range(len(fa.sites)): cut |= set(fa.null_edges.get(k, []))
        # explore from entry without crossing cut edges; collect returned operands
        seen = set(); stack = [(None, fn.entry.id)]
        while stack:
            p, b = stack.pop()
            if (p, b) in seen: continue
            seen.add((p, b))
            blk = fn.bmap[b]; t = blk.term
            if t.op == "ret":
                v = t.ops[0] if t.ops else None
                if v is None: continue
                if v["k"] == "inst":
                    pi = fn.imap[v["v"]]
                    if pi.op == "phi" and pi.block is blk:
                        for inc in pi["incoming"]:
                            if inc["b"] == p: v = inc["v"]
                if self.is_const(v, fv): return False
                if v["k"] != "int" and v["k"] != "null" and not is_ptr(fn.d["ret"]):
                    return False        # a computed status could coincide with the failure value
                continue
            for s in blk.succs:
                if (b, s.id) in cut: continue
                stack.append((b, s.id))
        return True


# ======================================================================================
# R5, R4, R6: rules that do not need the joint typestate
# ======================================================================================
def uses_of(fn, inst_id):
    out = []
    for i in fn.insts():
        for o in i.ops:
            if o["k"] == "inst" and o["v"] == inst_id: out.append(i); break
        if i.op == "phi":
            for inc in i["incoming"]:
                if inc["v"]["k"] == "inst" and inc["v"]["v"] == inst_id: out.append(i); break
    return out


def result_fate(fn, call, fi=None):
    """what happens to a call result: 'consumed' (tested, returned unchanged, or passed on), 'masked' (only ever fed into
    arithmetic, so the failure value is never recognised), or 'discarded' (no use at all)."""
    seen = set(); work = [call.id]; tested = False; arith = False; any_use = False
    slots = set()
    while work:
        v = work.pop()
        if v in seen: continue
        seen.add(v)
        for u in uses_of(fn, v):
            any_use = True
            if u.op in ("icmp", "br", "switch", "ret", "call", "fcmp"): tested = True
            elif u.op in ("phi", "zext", "sext", "trunc", "select", "freeze", "bitcast"):
                if u.op == "select" and u.ops[0]["k"] == "inst" and u.ops[0]["v"] == v: tested = True
                elif u.id >= 0: work.append(u.id)
            elif u.op in ("or", "and", "xor") and u["t"] in ("i1", "i8", "i32"):
                work.append(u.id)          # boolean accumulation: changed |= f()
            elif u.op == "store":
                if u.ops[0]["k"] == "inst" and u.ops[0]["v"] == v:
                    if fi is not None:
                        root, off = fi.ptr(u.ops[1])
                        if root[0] == "alloca" and off.is_const(): slots.add((root, off.c))
                        else: tested = True   # escapes to caller-visible memory: someone else may test it
                    else: tested = True
            else: arith = True
    if fi is not None and slots:
        for i in fn.insts():
            if i.op == "load":
                root, off = fi.ptr(i.ops[0])
                if off.is_const() and (root, off.c) in slots:
                    sub = result_fate(fn, i, None)
                    if sub == "consumed": tested = True
                    elif sub == "masked": arith = True
    if tested: return "consumed"
    if arith: return "masked"
    return "discarded" if not any_use else "masked"


def discarded_results(eng, fn):
    """R5: calls to fallible callees -> (call, callee, ordinal, fate)"""
    out = []; cnt = defaultdict(int)
    fi = eng.core.fi(fn).prepare()
    for i in fn.calls():
        c = i.get("callee")
        if c not in eng.fallible or i["t"] == "void": continue
        cnt[c] += 1
        out.append((i, c, cnt[c], result_fate(fn, i, fi)))
    return out


def _strip(fn, o):
    while o["k"] == "inst" and fn.imap[o["v"]].op in ("bitcast",):
        o = fn.imap[o["v"]].ops[0]
    return o


def loaded_loc(fa, o):
    """if o is (a cast of) a load from a constant-offset location, return that location (root, off)"""
    fn = fa.fn; o = _strip(fn, o)
    if o["k"] != "inst": return None
    i = fn.imap[o["v"]]
    if i.op == "phi":
        locs = {loaded_loc(fa, inc["v"]) for inc in i["incoming"] if inc["v"]["k"] not in ("null", "undef")}
        return locs.pop() if len(locs) == 1 else None
    if i.op != "load": return None
    root, off = fa.fi.ptr(i.ops[0])
    if not off.is_const(): return None
    return (root, off.c)


def param_reachable(fa, addr_op):
    roots = fa.fp.roots(addr_op) if fa.fp else set()
    return bool(roots) and all(r[0] == "arg" for r in roots), roots


def destructors(eng):
    """functions that free the object a parameter points to (and hence may legitimately drop its contents)"""
    out = {}
    for n, s in eng.pts.summ.items():
        for r in s.frees:
            if r[0] == "arg" and r[2] == 0: out.setdefault(n, set()).add(r[1])
    return out


def destructible_types(eng):
    """DI pointee types T for which some function frees both a T* parameter and something reachable from it"""
    out = set()
    for n, ks in destructors(eng).items():
        fn = eng.mod.functions[n]; s = eng.pts.summ[n]
        for k in ks:
            if ("arg", k, 1) in s.frees:
                di = fn.params[k].get("di", "")
                if di.endswith("*"): out.add(di.replace("const ", "").rstrip("* ").strip())
    return out


def unread_frees(eng, fn):
    """R4: free() of a pointer loaded from parameter-reachable memory whose pointee is never read in this function
    before the free (the live contents are discarded unread).  Returns [(free inst, loc, has_read)]"""
    fa = eng.fa.get(fn.name) or FnAlloc(fn, eng)
    if fa.fp is None: return []
    dtor = destructors(eng).get(fn.name, set())
    res = []
    frees = []
    for i in fn.calls("free"):
        loc_ = loaded_loc(fa, i.ops[0])
        if loc_ is None: continue
        o = _strip(fn, i.ops[0])
        ld = fn.imap[o["v"]]
        if ld.op != "load": continue
        ok, roots = param_reachable(fa, ld.ops[0])
        if not ok: continue
        if any(r[1] in dtor for r in roots): continue        # destructor of that very object
        frees.append((i, loc_))
    if not frees: return []
    # content reads: loads / memcpy sources whose address derives from a load of the same location
    reads = defaultdict(list)
    def base_loc(o, depth=0):
        o = _strip(fn, o)
        if o["k"] != "inst" or depth > 8: return None
        j = fn.imap[o["v"]]
        if j.op == "getelementptr": return base_loc(j.ops[0], depth + 1)
        if j.op == "load": return loaded_loc(fa, o)
        if j.op == "phi":
            ls = {base_loc(inc["v"], depth + 1) for inc in j["incoming"]}
            ls.discard(None)
            return ls.pop() if len(ls) == 1 else None
        return None
    for i in fn.insts():
        if i.op == "load":
            bl = base_loc(i.ops[0])
            if bl is not None: reads[bl].append(i)
        elif i.op == "call":
            c = i.get("callee") or ""
            if c.startswith(("llvm.memcpy", "llvm.memmove")):
                bl = base_loc(i.ops[1])
                if bl is not None: reads[bl].append(i)
            elif c == "realloc":
                bl = base_loc(i.ops[0])
                if bl is not None: reads[bl].append(i)
            elif c in eng.pts.summ:
                s = eng.pts.summ[c]
                for n in range(i["nargs"]):
                    bl = base_loc(i.ops[n])
                    if bl is not None and ("arg", n, 0) in s.reads: reads[bl].append(i)
    for (fr, loc_) in frees:
        has = False
        for r in reads.get(loc_, []):
            if r.block.id == fr.block.id:
                if r.idx < fr.idx: has = True
            elif fr.block.id in fn.reachable(r.block.id): has = True
        res.append((fr, loc_, has))
    return res


def owned_field_overwrites(eng, fn):
    """R6: a fresh block is stored into a pointer field of a destructible parameter object while the field's previous
    block has not been freed / realloc'ed on every path.  Returns [(store inst, loc, released_on_all_paths)]"""
    fa = eng.fa.get(fn.name) or FnAlloc(fn, eng)
    if fa.fp is None: return []
    dtypes = destructible_types(eng)
    def dest_loc(st):
        ok, roots = param_reachable(fa, st.ops[1])
        if not ok: return None
        good = False
        for r in roots:
            di = fn.params[r[1]].get("di", "").replace("const ", "").rstrip("* ").strip()
            if di in dtypes and r[2] == 0: good = True
        if not good: return None
        root, off = fa.fi.ptr(st.ops[1])
        if not off.is_const() or root[0] != "arg": return None
        return (root, off.c)
    targets = []
    for i in fn.insts():
        if i.op == "store" and is_ptr(i.ops[0]["t"]) and any(fa.is_alias(s, i.ops[0]) for s in fa.sites if s.kind == "ptr"):
            L = dest_loc(i)
            if L is not None: targets.append((i, L))
    if not targets: return []
    fn.dom(); dead = fn.enum_default_edges(fa.fi)
    IN = {fn.entry.id: frozenset()}; OUT = {}
    def transfer(b, st, probe=None):
        st = set(st)
        for i in b.insts:
            if probe is not None and i is probe[0]: probe[1].append(frozenset(st))
            if i.op == "call" and i.get("callee") in ("free", "realloc"):
                L = loaded_loc(fa, i.ops[0])
                if L is not None: st.add(L)
            elif i.op == "call" and i.get("callee") in eng.pts.summ and any(r[0] == "arg" and len(r) > 2 and r[2] == 1 for r in eng.pts.summ[i["callee"]].frees):
                # a helper that frees a block held in a field of the object it is given (e.g. "release the container"): every
                # targeted field of that object counts as released
                for r in eng.pts.summ[i["callee"]].frees:
                    if r[0] == "arg" and len(r) > 2 and r[2] == 1 and r[1] < i["nargs"]:
                        root, off = fa.fi.ptr(i.ops[r[1]])
                        for (st_i, L2) in targets:
                            if L2[0] == root: st.add(L2)
            elif i.op == "store" and is_ptr(i.ops[0]["t"]):
                root, off = fa.fi.ptr(i.ops[1])
                if off.is_const(): st.discard((root, off.c))
        return frozenset(st)
    changed = True
    while changed:
        changed = False
        for b in fn.rpo:
            if b is not fn.entry:
                ps = [OUT[p.id] for p in b.preds if p.id in OUT and (p.id, b.id) not in dead]
                if not ps: continue
                st = ps[0]
                for x in ps[1:]: st = st & x
                if IN.get(b.id) != st: IN[b.id] = st; changed = True
            o = transfer(b, IN[b.id])
            if OUT.get(b.id) != o: OUT[b.id] = o; changed = True
    res = []
    for (i, L) in targets:
        got = []
        if i.block.id in IN: transfer(i.block, IN[i.block.id], (i, got))
        res.append((i, L, bool(got) and L in got[0]))
    return res


def partial_updates(eng, fn, fa, k):
    """R7: stores into a long-lived (destructible) parameter object that can execute before the failure edge of site k is
    taken, when that edge leads to the function's failure return: the object is left half-updated although failure is reported.
    Returns [(store inst, param index)]"""
    if fa.fp is None or not fa.null_edges.get(k): return []
    dtypes = destructible_types(eng)
    params = [j for j, p in enumerate(fn.params) if p.get("di", "").replace("const ", "").rstrip("* ").strip() in dtypes and p["t"].endswith("*")]
    if not params: return []
    srcs = {p for (p, b) in fa.null_edges[k]}
    # blocks from which a failure-edge source is reachable
    can_reach = set()
    for b in fn.blocks:
        if fn.reachable(b.id) & srcs: can_reach.add(b.id)
    site = fa.sites[k].inst
    out = []
    for b in fn.blocks:
        if b.id not in can_reach: continue
        for i in b.insts:
            if i.op != "store": continue
            # only stores that precede the failing allocation on the path (same block: earlier index; other blocks: reach the site)
            if site is not None:
                if i.block is site.block and i.idx > site.idx: continue
                if i.block is not site.block and site.block.id not in fn.reachable(i.block.id): continue
            roots = fa.fp.roots(i.ops[1])
            for r in roots:
                if r[0] == "arg" and r[1] in params and r[2] == 0: out.append((i, r[1])); break
    return out


def realloc_into_source(eng, fn):
    """R8: `p->f = realloc(p->f, n)` - the result of realloc is stored into the very location its argument was loaded from on a path
    where it may be NULL: on failure the old block (still allocated) is no longer referenced and the object holds NULL.
    Returns [(realloc call, store inst or None, guarded)] for every realloc whose argument is loaded from a constant-offset location."""
    fa = eng.fa.get(fn.name) or FnAlloc(fn, eng)
    out = []
    fn.dom()
    for c in fn.calls():
        if c.get("callee") != "realloc": continue
        L = loaded_loc(fa, c.ops[0])
        if L is None: continue
        # values that are the realloc result (through casts)
        al = {c.id}; grew = True
        while grew:
            grew = False
            for i in fn.insts():
                if i.op in ("bitcast",) and i.ops[0]["k"] == "inst" and i.ops[0]["v"] in al and i.id not in al: al.add(i.id); grew = True
        # blocks where the result is known non-NULL: dominated by the non-null successor of a test of it
        nonnull = []
        for b in fn.blocks:
            t = b.term
            if t.op == "br" and len(t.ops) == 3 and t.ops[0]["k"] == "inst":
                ci = fn.imap[t.ops[0]["v"]]
                if ci.op == "icmp" and ci["pred"] in ("eq", "ne") and ci.ops[0]["k"] == "inst" and ci.ops[0]["v"] in al and ci.ops[1]["k"] == "null":
                    nn = t.ops[2]["v"] if ci["pred"] == "ne" else t.ops[1]["v"]
                    if [pb.id for pb in fn.bmap[nn].preds] == [b.id]: nonnull.append(nn)
        stores = []
        for i in fn.insts():
            if i.op == "store" and i.ops[0]["k"] == "inst" and i.ops[0]["v"] in al:
                root, off = fa.fi.ptr(i.ops[1])
                if off.is_const() and (root, off.c) == L: stores.append(i)
        if not stores: out.append((c, None, True)); continue
        for st in stores:
            out.append((c, st, any(fn.dominates(nn, st.block.id) for nn in nonnull)))
    return out
