"""Scalar varint families: instance tables, class-table extraction (E1) and comparison helpers shared by C01 / C04 / C05."""
from . import e1, spec_formats as SP
from .e1 import norm, show, ev, is_c, monotone
from .build import AnalysisBroken

ENC = dict()                 # encoder: dst param 0, value param 1
LEN = dict(input_arg=0, dst_arg=-1)
B0 = dict(input_kind="byte0", input_bits=8, dst_arg=-1)

# family -> description.  `range` is the documented length range; `spec` the independent format table; `maxconst` names the
# header constants that must equal the per-length maxima (checked by the W engine).
FAMILIES = {
    "tagged": dict(enc="varintTaggedPut64", lens=["varintTaggedLen", "w_taggedLenQuick"], readback=["varintTaggedGetLen", "w_taggedGetLenQuick"],
                   range=(1, 9), spec=SP.tagged, tag="first"),
    "external": dict(enc="varintExternalPut", lens=["w_externalUnsignedEncoding"], readback=[], range=(1, 8), spec=lambda: SP.external(False), tag=None),
    "externalBE": dict(enc="varintExternalBigEndianPut", lens=[], readback=[], range=(1, 8), spec=lambda: SP.external(True), tag=None),
    "chained": dict(enc="varintChainedPutVarint", lens=["varintChainedVarintLen"], readback=[], range=(1, 9), spec=SP.chained, tag=None),
    "chainedSimple": dict(enc="varintChainedSimpleEncode64", lens=["varintChainedSimpleLength"], readback=[], range=(1, 9), spec=SP.chained_simple, tag=None),
    "split": dict(enc="w_splitPut", lens=["w_splitLen"], readback=["w_splitGetLenQuick", "w_splitGetLen"], range=(1, 9), spec=SP.split, tag="first",
                  rev=[("w_splitRevPutRev", "rev_rev"), ("w_splitRevPutFwd", "rev_fwd")]),
    "splitFull": dict(enc="w_splitFullPut", lens=["w_splitFullLen"], readback=["w_splitFullGetLenQuick", "w_splitFullGetLen"], range=(1, 9), spec=SP.split_full, tag="first",
                      rev=[("w_splitFullRevPutRev", "rev_rev"), ("w_splitFullRevPutFwd", "rev_fwd")]),
    "splitFullNoZero": dict(enc="w_splitFullNoZeroPut", lens=["w_splitFullNoZeroLen"], readback=["w_splitFullNoZeroGetLenQuick", "w_splitFullNoZeroGetLen"],
                            range=(1, 9), spec=SP.split_full_nozero, tag="first", in_lo=1,
                            rev=[("w_splitFullNoZeroRevPutRev", "rev_rev"), ("w_splitFullNoZeroRevPutFwd", "rev_fwd")]),
    "splitFull16": dict(enc="w_splitFull16Put", lens=["w_splitFull16Len"], readback=["w_splitFull16GetLenQuick", "w_splitFull16GetLen"], range=(2, 9),
                        spec=SP.split_full16, tag="first"),
}
EXTRA_LEN = {"externalSigned": dict(fn="varintExternalSignedEncoding", family="external", hi=(1 << 63) - 1)}
ENC32 = {"chainedSimple32": dict(fn="varintChainedSimpleEncode32", bits=32, spec=lambda: SP.chained_simple(32))}


class EncoderNotInjective(AnalysisBroken):
    """the class table cannot be built because the function chooses a class from a narrowed value, and two witnesses of that show equal output"""
    def __init__(self, fn, ex):
        AnalysisBroken.__init__(self, "E1: %s: %s" % (fn, ex)); self.fn = fn; self.ex = ex


def extract(mod, fn, kind, in_lo=0, in_hi=None, bits=64, const_args=None):
    if mod.fn(fn) is None: raise AnalysisBroken("anchor function vanished: %s" % fn)
    kw = dict(ENC if kind == "enc" else LEN if kind == "len" else B0)
    if kind != "b0":
        kw["in_lo"] = in_lo
        if in_hi is not None: kw["in_hi"] = in_hi
        kw["input_bits"] = bits
    if const_args: kw["const_args"] = const_args
    try:
        return e1.table(mod, fn, **kw)
    except e1.NotInjective as e:
        raise EncoderNotInjective(fn, e)
    except e1.Unsupported as e:
        raise AnalysisBroken("E1: %s is outside the supported term language: %s" % (fn, e))
    except RecursionError:
        raise AnalysisBroken("E1: %s: exploration too deep" % fn)


def ret_const(cls):
    """[(lo, hi, int length)] from a class table whose return terms are constants; raises if one is not"""
    out = []
    for lo, hi, ret, st in cls:
        r = norm(ret, lo, hi) if ret is not None else None
        if r is None or not is_c(r): return None
        out.append((lo, hi, r[1]))
    return out


def merge(parts):
    """merge adjacent pieces with the same value"""
    out = []
    for lo, hi, v in sorted(parts):
        if out and out[-1][2] == v and out[-1][1] + 1 == lo: out[-1] = (out[-1][0], hi, v)
        else: out.append((lo, hi, v))
    return out


def first_diff(pa, pb):
    """first x on which two merged partitions (lo, hi, value) disagree, or None"""
    ia = ib = 0
    while ia < len(pa) and ib < len(pb):
        a, b = pa[ia], pb[ib]
        lo = max(a[0], b[0]); hi = min(a[1], b[1])
        if lo <= hi and a[2] != b[2]: return (lo, a[2], b[2])
        if a[1] <= b[1]: ia += 1
        if b[1] <= a[1]: ib += 1
    return None


def eval_len_at(cls, x):
    for lo, hi, ret, st in cls:
        if lo <= x <= hi: return ev(ret, x)
    return None


def refine(points, lo, hi):
    """sub-intervals of [lo, hi] cut at the given break points"""
    ps = sorted({p for p in points if lo < p <= hi})
    out = []; a = lo
    for p in ps: out.append((a, p - 1)); a = p
    out.append((a, hi))
    return out
