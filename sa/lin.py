"""Linear integer expressions over hashable atoms."""
from fractions import Fraction

class Lin:
    __slots__ = ("c", "t")
    def __init__(self, c=0, t=None):
        self.c = c; self.t = {k: v for k, v in (t or {}).items() if v != 0}
    @staticmethod
    def atom(a): return Lin(0, {a: 1})
    @staticmethod
    def const(c): return Lin(c)
    def __add__(self, o):
        o = o if isinstance(o, Lin) else Lin(o)
        t = dict(self.t)
        for k, v in o.t.items(): t[k] = t.get(k, 0) + v
        return Lin(self.c + o.c, t)
    def __neg__(self): return Lin(-self.c, {k: -v for k, v in self.t.items()})
    def __sub__(self, o):
        o = o if isinstance(o, Lin) else Lin(o)
        return self + (-o)
    def scale(self, k): return Lin(self.c * k, {a: v * k for a, v in self.t.items()})
    def is_const(self): return not self.t
    def atoms(self): return set(self.t)
    def coeff(self, a): return self.t.get(a, 0)
    def subst(self, a, e):
        if a not in self.t: return self
        k = self.t[a]; t = dict(self.t); del t[a]
        return Lin(self.c, t) + e.scale(k)
    def key(self): return (self.c, tuple(sorted(self.t.items(), key=repr)))
    def __eq__(self, o): return isinstance(o, Lin) and self.key() == o.key()
    def __hash__(self): return hash(self.key())
    def __repr__(self):
        parts = []
        for a, v in sorted(self.t.items(), key=repr):
            parts.append(("%+d*" % v if v not in (1, -1) else ("+" if v == 1 else "-")) + fmt_atom(a))
        if self.c or not parts: parts.append("%+d" % self.c)
        return " ".join(parts)

def fmt_atom(a):
    if isinstance(a, tuple):
        return a[0] + "(" + ",".join(str(x) for x in a[1:]) + ")"
    return str(a)
