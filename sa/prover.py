"""Prototype facts + prover (symbolic upper bounds from dominating conditions)."""
from .lin import Lin
from .ir import type_bits
from .core import okey

class Facts:
    def __init__(self, fi):
        self.fi = fi; self.fn = fi.fn
        self._edge = {}; self._at = {}

    # ----- condition -> list of Lin (each <= 0), and disequalities -----
    def cond_facts(self, cond_op, truth):
        fi = self.fi
        if cond_op["k"] == "int":
            return [], []
        if cond_op["k"] != "inst": return [], []
        i = self.fn.imap[cond_op["v"]]
        if i.op == "xor" and i.ops[1]["k"] == "int" and int(i.ops[1]["v"]) == 1:
            return self.cond_facts(i.ops[0], not truth)
        if i.op == "phi":
            # short-circuit && / || lowered to an i1 phi: keep the facts when only one incoming can yield `truth`
            alts = []
            for inc in i["incoming"]:
                v = inc["v"]; p = self.fn.bmap[inc["b"]]
                if v["k"] == "int":
                    if bool(int(v["v"])) != truth: continue
                    le, ne = self.at_block(p); le2, ne2 = self.edge_facts(p, i.block)
                    alts.append((list(le) + list(le2), list(ne) + list(ne2)))
                else:
                    le, ne = self.at_block(p); le2, ne2 = self.edge_facts(p, i.block)
                    le3, ne3 = self.cond_facts(v, truth)
                    alts.append((list(le) + list(le2) + list(le3), list(ne) + list(ne2) + list(ne3)))
            if len(alts) == 1: return alts[0]
            return [], []
        if i.op == "call" and i.get("callee") in self.fn.mod.functions:
            g = self.fn.mod.functions[i["callee"]]
            if not g.decl and len(g.blocks) == 1 and g.blocks[0].term.op == "ret":
                r = g.blocks[0].term.ops[0]
                if r["k"] == "inst" and g.imap[r["v"]].op == "icmp":
                    ci = g.imap[r["v"]]
                    def actual(o):
                        if o["k"] == "arg": return i.ops[o["v"]]
                        if o["k"] == "int": return o
                        return None
                    a2, b2 = actual(ci.ops[0]), actual(ci.ops[1])
                    if a2 is not None and b2 is not None:
                        return self._cmp_facts(ci["pred"], a2, b2, truth)
            return [], []
        if i.op != "icmp": return [], []
        if i["pred"] not in ("eq", "ne") and not getattr(self, "assume_no_wrap", False):
            # an unsigned `x - k` that can wrap (x may be smaller than k here) does not compare like the mathematical difference:
            # `count - 1 > limit - 1` says nothing when limit can be 0
            for o in i.ops:
                if self._sub_may_wrap(o, i.block): return [], []
        return self._cmp_facts(i["pred"], i.ops[0], i.ops[1], truth)

    def _sub_may_wrap(self, o, block):
        fn = self.fn
        for _ in range(3):
            if o["k"] == "inst" and fn.imap[o["v"]].op in ("zext", "trunc"): o = fn.imap[o["v"]].ops[0]
        if o["k"] != "inst": return False
        x = fn.imap[o["v"]]
        k = None
        if x.op == "add" and x.ops[1]["k"] == "int" and int(x.ops[1]["sv"]) < 0: k = -int(x.ops[1]["sv"])
        elif x.op == "sub" and x.ops[1]["k"] == "int" and int(x.ops[1]["sv"]) > 0: k = int(x.ops[1]["sv"])
        if k is None: return False
        from .ival import Intervals
        iv = self.__dict__.get("_wiv")
        if iv is None: iv = self._wiv = Intervals(fn, None, self.fi)
        try: (lo, hi), _ex = iv.ival_at(x.ops[0], block)
        except RecursionError: return False
        return lo < k

    def _cmp_facts(self, pred, a_op, b_op, truth):
        fi = self.fi
        if a_op["t"].endswith("*"):
            ra, oa = fi.ptr(a_op); rb, ob = fi.ptr(b_op)
            if ra[0] == "null" or rb[0] == "null" or ra != rb: return [], []
            a, b = oa, ob
        else:
            a, b = fi.lin(a_op), fi.lin(b_op)
            # signed compare against negative constant etc.: use signed constant reading
            if pred.startswith("s"):
                if b_op["k"] == "int": b = Lin.const(int(b_op["sv"]))
                if a_op["k"] == "int": a = Lin.const(int(a_op["sv"]))
        p = pred[1:] if pred[0] in "us" and pred not in ("eq", "ne") else pred
        neg = {"lt": "ge", "le": "gt", "gt": "le", "ge": "lt", "eq": "ne", "ne": "eq"}
        if not truth: p = neg[p]
        if p == "lt": return [a - b + 1], []
        if p == "le": return [a - b], []
        if p == "gt": return [b - a + 1], []
        if p == "ge": return [b - a], []
        if p == "eq": return [a - b, b - a], []
        # a != b ; with unsigned values and b == 0 this is a >= 1
        ind = self._unit_induction(a_op, b) or self._unit_induction(b_op, a)
        if ind is not None: return [ind], [(a - b)]
        if b.is_const() and b.c == 0: return [Lin.const(1) - a], [(a - b)]
        if a.is_const() and a.c == 0: return [Lin.const(1) - b], [(a - b)]
        return [], [(a - b)]          # a - b != 0

    def _unit_induction(self, iv_op, bound):
        """iv = phi(init, iv+1) at a loop header, exit test iv != bound, init <= bound provable
        (init constant 0 against an unsigned bound) => inside the loop iv <= bound - 1"""
        if iv_op["k"] != "inst": return None
        i = self.fn.imap[iv_op["v"]]
        if i.op != "phi" or i.block.id not in self.fn.loops() or len(i["incoming"]) != 2: return None
        init = step = None
        for inc in i["incoming"]:
            v = inc["v"]
            if v["k"] == "inst":
                j = self.fn.imap[v["v"]]
                if j.op == "add" and j.ops[0].get("v") == i.id and j.ops[0]["k"] == "inst" and j.ops[1]["k"] == "int" and int(j.ops[1]["v"]) == 1:
                    step = 1; continue
            init = v
        if step != 1 or init is None or init["k"] != "int" or int(init["v"]) != 0: return None
        return self.fi.lin(iv_op) - bound + 1

    def edge_facts(self, p, s):
        """facts implied by taking CFG edge p -> s"""
        key = (p.id, s.id)
        if key in self._edge: return self._edge[key]
        t = p.term; le = []; ne = []
        if t.op == "br" and len(t.ops) == 3:
            fls, tru = t.ops[1]["v"], t.ops[2]["v"]
            if tru != fls:
                if s.id == tru: le, ne = self.cond_facts(t.ops[0], True)
                elif s.id == fls: le, ne = self.cond_facts(t.ops[0], False)
        elif t.op == "switch":
            v = self.fi.lin(t.ops[0])
            cs = [c for c in t["cases"] if c["b"] == s.id]
            if s.id != t["default"] and len(cs) == 1:
                c = Lin.const(int(cs[0]["v"])); le = [v - c, c - v]
            elif s.id == t["default"] and not cs:
                ne = [v - Lin.const(int(c["v"])) for c in t["cases"]]
        self._edge[key] = (le, ne)
        return le, ne

    def at_block(self, b):
        """facts holding on entry to block b (from dominating single-pred edges)"""
        if b.id in self._at: return self._at[b.id]
        le = []; ne = []
        fn = self.fn; idom = fn.dom()
        x = b
        while True:
            if len(x.preds) == 1:
                l, n = self.edge_facts(x.preds[0], x); le += l; ne += n
            if x.id not in idom or idom[x.id] == x.id: break
            x = fn.bmap[idom[x.id]]
        self._at[b.id] = (le, ne)
        return le, ne

def _alts(self, b, _stack=None):
    """alternative fact sets holding on entry to b: at a join that is not a loop header the facts of each incoming path
    are kept apart (an obligation must then be proved once per alternative).  Dominator-chain facts hold in all of them."""
    key = ("alts", b.id)
    if key in self._at: return self._at[key]
    _stack = _stack or set()
    base = self.at_block(b)
    loops = self.fn.loops()
    x = b; le = []; ne = []
    while len(x.preds) == 1:
        l, n = self.edge_facts(x.preds[0], x); le += l; ne += n; x = x.preds[0]
    out = None
    if len(x.preds) > 1 and x.id not in loops and x.id not in _stack and len(x.preds) <= 8 and len(_stack) < 12:
        out = []; st2 = _stack | {x.id}
        for p in x.preds:
            l2, n2 = self.edge_facts(p, x)
            for (l3, n3) in _alts(self, p, st2):
                out.append((le + list(l2) + list(l3), ne + list(n2) + list(n3)))
                if len(out) > 32: out = None; break
            if out is None: break
        if out is not None:
            # dominator facts are already contained in every path's facts except where a path was cut: add them once
            out = [(list(base[0]) + l, list(base[1]) + n) for (l, n) in out]
    if out is None: out = [(list(base[0]) + le, list(base[1]) + ne)]
    self._at[key] = out
    return out


Facts.alts = _alts


class Prover:
    def __init__(self, fi, facts, assume=()):
        self.fi = fi; self.fn = fi.fn; self.facts = facts; self.assume = list(assume)
        self.log = []
    # atom knowledge -------------------------------------------------------
    def atom_inst(self, a):
        if isinstance(a, tuple) and a[0] in ("v", "trunc", "and", "i", "ld", "mul", "wrap"):
            if a[0] == "v" and a[1] == "inst": return self.fn.imap.get(a[2])
            if a[0] in ("trunc", "and", "i", "ld", "mul", "wrap"): return self.fn.imap.get(a[1])
        return None
    def intrinsic_upper(self, a):
        """list of Lin facts (<=0) known about atom a by construction"""
        out = []
        i = self.atom_inst(a)
        A = Lin.atom(a)
        for eq in self.conserved().get(a, ()): out.append(eq)            # a + other - entry == 0, used as a + other - entry <= 0
        if isinstance(a, tuple) and a[0] == "entry":
            bits = a[1][2] * 8
            if bits < 64: out.append(A - ((1 << bits) - 1))
            return out
        if i is None: return out
        if isinstance(a, tuple) and a[0] == "wrap":
            # a product that may wrap in its (narrow) type is at most the mathematical product and at most the type's maximum
            x, y = i.ops
            cx = int(x["v"]) if x["k"] == "int" else None; cy = int(y["v"]) if y["k"] == "int" else None
            if i.op == "shl" and cy is not None: out.append(A - self.fi.lin(x).scale(1 << cy))
            elif i.op == "mul" and cy is not None: out.append(A - self.fi.lin(x).scale(cy))
            elif i.op == "mul" and cx is not None: out.append(A - self.fi.lin(y).scale(cx))
            bits = type_bits(i["t"])
            if bits and bits < 64: out.append(A - ((1 << bits) - 1))
            return out
        if i.op == "trunc":
            out.append(A - self.fi.lin(i.ops[0]))                       # trunc(v) <= v
            bits = type_bits(i["t"]);  out.append(A - ((1 << bits) - 1))
        elif i.op == "and" and i.ops[1]["k"] == "int":
            out.append(A - int(i.ops[1]["v"])); out.append(A - self.fi.lin(i.ops[0]))
        elif i.op == "load":
            bits = type_bits(i["t"])
            if bits and bits < 64: out.append(A - ((1 << bits) - 1))
        elif i.op in ("udiv", "lshr"):
            out.append(A - self.fi.lin(i.ops[0]))
        elif i.op == "urem" and i.ops[1]["k"] == "int":
            out.append(A - (int(i.ops[1]["v"]) - 1))
        return out
    def _is_loop_phi(self, a):
        i = self.atom_inst(a)
        return i is not None and i.op == "phi" and i.block.id in self.fn.loops()

    def conserved(self):
        """loop headers where an integer phi r and a pointer phi p move in opposite directions by the same amount on every back edge
        (`p += w; remaining -= w`): r + offset(p) keeps its entry value.  Returns {atom: [Lin == 0]}."""
        if hasattr(self, "_cons"): return self._cons
        self._cons = out = {}
        fn = self.fn; fi = self.fi; loops = fn.loops()
        for h, body in loops.items():
            phis = [i for i in fn.bmap[h].insts if i.op == "phi"]
            ptrs = [i for i in phis if i["t"].endswith("*")]; ints = [i for i in phis if not i["t"].endswith("*")]
            for P in ptrs:
                try: rootP, offP = fi.ptr({"k": "inst", "v": P.id, "t": P["t"]})
                except RecursionError: continue
                pa = ("pv", P.id)
                if offP != Lin.atom(pa): continue
                for R in ints:
                    lr = fi.lin({"k": "inst", "v": R.id, "t": R["t"]})
                    if lr.c != 0 or len(lr.t) != 1 or list(lr.t.values()) != [1]: continue
                    ra = next(iter(lr.t))
                    ok = True; entry = None; ratio = None; ins = []
                    for incP in P["incoming"]:
                        incR = next((x for x in R["incoming"] if x["b"] == incP["b"]), None)
                        if incR is None: ok = False; break
                        r2, o2 = fi.ptr(incP["v"]); l2 = fi.lin(incR["v"])
                        if incP["b"] in body:
                            if r2 == ("pending",): dP = o2                      # computed relative to the phi itself
                            elif r2 == rootP: dP = o2 - offP
                            else: ok = False; break
                            dR = l2 - Lin.atom(ra)
                            if dP == Lin() or pa in dP.atoms() or ra in dP.atoms(): ok = False; break
                            if dP + dR == Lin(): k = 1                                                  # p advances by exactly what r loses
                            elif dP.is_const() and dR.is_const() and dR.c and dP.c * dR.c < 0 and dP.c % dR.c == 0: k = -dP.c // dR.c      # `*out++ = ..; remaining--`: one element per count
                            else: ok = False; break
                            if ratio is not None and ratio != k: ok = False; break
                            ratio = k
                            continue
                        if r2 != rootP: ok = False; break
                        ins.append((o2, l2))
                    if not ok or ratio is None or not ins: continue
                    for (o2, l2) in ins:
                        e0 = o2 + l2.scale(ratio)
                        if entry is not None and entry != e0: ok = False; break
                        entry = e0
                    if not ok or entry is None or pa in entry.atoms() or ra in entry.atoms(): continue
                    eq = Lin.atom(pa) + Lin.atom(ra).scale(ratio) - entry
                    out.setdefault(pa, []).append(eq); out.setdefault(ra, []).append(eq)
            # two integer counters moving in opposite directions (`values[decoded++] = v; room--`): decoded + room keeps its entry value
            single = []
            for R in ints:
                lr = fi.lin({"k": "inst", "v": R.id, "t": R["t"]})
                if lr.c == 0 and len(lr.t) == 1 and list(lr.t.values()) == [1]: single.append((R, next(iter(lr.t))))
            for x in range(len(single)):
                for y in range(len(single)):
                    if x == y: continue
                    (U, ua), (D, da) = single[x], single[y]
                    ok = True; ratio = None; ins = []
                    for incU in U["incoming"]:
                        incD = next((z for z in D["incoming"] if z["b"] == incU["b"]), None)
                        if incD is None: ok = False; break
                        lu, ld = fi.lin(incU["v"]), fi.lin(incD["v"])
                        if incU["b"] in body:
                            dU = lu - Lin.atom(ua); dD = ld - Lin.atom(da)
                            if not (dU.is_const() and dD.is_const() and dU.c > 0 and dD.c < 0 and dU.c % (-dD.c) == 0): ok = False; break
                            k = dU.c // (-dD.c)
                            if ratio is not None and ratio != k: ok = False; break
                            ratio = k
                        else: ins.append((lu, ld))
                    if not ok or ratio is None or not ins: continue
                    entry = None
                    for (lu, ld) in ins:
                        e0 = lu + ld.scale(ratio)
                        if entry is not None and entry != e0: ok = False; break
                        entry = e0
                    if not ok or entry is None or ua in entry.atoms() or da in entry.atoms(): continue
                    eq = Lin.atom(ua) + Lin.atom(da).scale(ratio) - entry
                    out.setdefault(ua, []).append(eq); out.setdefault(da, []).append(eq)
        return out

    def prod_upper(self, a, facts):
        """upper bounds of a product atom prod(x, y) from the current facts (all atoms are non-negative):
           x <= N - c        =>  x*y <= N*y - c*y
           x <= K (const)    =>  x*y <= K*y
           N <= udiv(X, y)   =>  N*y <= X"""
        out = []
        if not (isinstance(a, tuple) and a[0] == "prod"): return out
        A = Lin.atom(a)
        from .core import prod_atom
        for (x, y) in ((a[1], a[2]), (a[2], a[1])):
            X, Y = Lin.atom(x), Lin.atom(y)
            for f in facts:
                if f.coeff(x) != 1: continue
                rest = f - X                       # x + rest <= 0
                if rest.is_const():
                    out.append(A - Y.scale(-rest.c))
                    continue
                if len(rest.t) == 1:
                    (n, k), = rest.t.items()
                    if k == -1:
                        # x <= n - c
                        ni = self.atom_inst(n)
                        pn = prod_atom(Lin.atom(n), Y)
                        if pn is not None and rest.c >= 0: out.append(A - Lin.atom(pn) + Y.scale(rest.c))
                        if ni is not None and ni.op == "udiv" and rest.c >= 0:
                            d = self.fi.lin(ni.ops[1])
                            if d == Y: out.append(A - self.fi.lin(ni.ops[0]))
        return out
    def prod_lower(self, a, facts):
        """lower bounds of a product atom prod(x, y) from the current facts (all atoms are non-negative):  x >= K (const >= 1)  =>  x*y >= K*y"""
        out = []
        if not (isinstance(a, tuple) and a[0] == "prod"): return out
        A = Lin.atom(a)
        for (x, y) in ((a[1], a[2]), (a[2], a[1])):
            Y = Lin.atom(y)
            for f in facts:
                if f.coeff(x) != -1: continue
                rest = f + Lin.atom(x)                   # rest - x <= 0
                if rest.is_const() and rest.c >= 1: out.append(Y.scale(rest.c) - A)
        return out
    rewrite = None
    def split_values(self, a):
        """for phi/select atoms: list of (Lin value, extra facts) alternatives, else None"""
        alts = self._split_values(a)
        if alts is not None and self.rewrite is not None:
            alts = [(self.rewrite(v), [self.rewrite(f) for f in ex]) for v, ex in alts]
        return alts
    def _split_values(self, a):
        if isinstance(a, tuple) and a[0] == "mphi":
            b = self.fn.bmap[a[1]]
            if b.id in self.fn.loops(): return None
            alts = []
            for pid, tok in self.fi.mphi[a].items():
                p = self.fn.bmap[pid]
                le, _ = self.facts.at_block(p); le2, _ = self.facts.edge_facts(p, b)
                alts.append((self.fi.token_lin(tok), list(le) + list(le2)))
            return alts
        i = self.atom_inst(a)
        if i is None: return None
        if i.op == "select":
            c = i.ops[0]
            alts = []
            for val, truth in ((i.ops[1], True), (i.ops[2], False)):
                le, _ = self.facts.cond_facts(c, truth)
                alts.append((self.fi.lin(val), le))
            return alts
        if i.op == "phi":
            loops = self.fn.loops()
            if i.block.id in loops:
                # a loop-header phi: it is the entry value or the value the back edge brings, each under the facts of its own edge
                # (a rotated loop tests `i + 1 < n` on the back edge, which bounds the next i directly).  Only tried when every back value
                # is the phi plus a constant, so that the substituted goal is about the same atom and the back-edge facts can close it.
                A_ = Lin.atom(a); alts = []
                for inc in i["incoming"]:
                    p = self.fn.bmap[inc["b"]]; v = self.fi.lin(inc["v"])
                    if inc["b"] in loops[i.block.id] and not (v - A_).is_const(): return None
                    le, _ = self.facts.at_block(p); le2, _ = self.facts.edge_facts(p, i.block)
                    if inc["b"] in loops[i.block.id]:
                        # on the back edge only facts that speak about the value being carried over are kept (facts about the old phi
                        # value belong to the previous iteration and are still true of it, which is what makes this an induction step)
                        alts.append((v, list(le) + list(le2)))
                    else: alts.append((v, list(le) + list(le2)))
                if getattr(self, "_loop_split_depth", 0) >= 2: return None
                return alts
            alts = []
            for inc in i["incoming"]:
                p = self.fn.bmap[inc["b"]]
                le, _ = self.facts.at_block(p)
                le2, _ = self.facts.edge_facts(p, i.block)
                alts.append((self.fi.lin(inc["v"]), list(le) + list(le2)))
            return alts
        return None
    def derived(self, facts):
        """N + k <= udiv(X, c)  =>  c*N + c*k <= X     (and the same for lshr by a constant)"""
        out = []
        for f in facts:
            for a, co in f.t.items():
                if co != -1: continue
                i = self.atom_inst(a)
                if i is None or i.op not in ("udiv", "lshr") or i.ops[1]["k"] != "int": continue
                c = int(i.ops[1]["v"]) if i.op == "udiv" else (1 << int(i.ops[1]["v"]))
                if c <= 0: continue
                rest = f + Lin.atom(a)                     # rest <= a = X / c
                out.append(rest.scale(c) - self.fi.lin(i.ops[0]))
        return out
    def infeasible(self, facts, ne=()):
        """the single-atom facts (and atoms >= 0) admit no value for some atom: the program point is unreachable"""
        lo = {}; hi = {}
        for f in facts:
            if len(f.t) != 1: continue
            (a, k), = f.t.items()
            # k*a + c <= 0
            if k > 0: hi[a] = min(hi.get(a, float("inf")), (-f.c) // k)
            else: lo[a] = max(lo.get(a, 0), (f.c + (-k) - 1) // (-k))      # ceil(c / -k)
        for a in set(lo) | set(hi):
            if lo.get(a, 0) > hi.get(a, float("inf")): return True
        return False
    def prove_at(self, e, block, extra_le=(), extra_ne=(), trim=None, rewrite=None):
        """prove e <= 0 at the entry of `block`, once per alternative incoming fact set"""
        self.rewrite = rewrite
        for (le, ne) in self.facts.alts(block):
            if rewrite is not None: le = [rewrite(f) for f in le]; ne = [rewrite(f) for f in ne]
            fs = list(le) + list(extra_le); ns = list(ne) + list(extra_ne)
            fs = fs + self.derived(fs)
            if trim is not None: fs = trim(fs, ns)
            if self.infeasible(fs): continue
            self._ne = ns
            if not self.prove_le0(e, fs): return False
        return True
    # proving ---------------------------------------------------------------
    def prove_le0(self, e, facts, depth=0, seen=None):
        """prove e <= 0 assuming every f in facts is <= 0 and all atoms >= 0"""
        if depth == 0:
            self._fail = {}; self._fid = {}
            # de-duplicate the facts once
            uniq = {}; 
            for f in facts: uniq.setdefault(f.key(), f)
            facts = list(uniq.values())
        seen = seen if seen is not None else set()
        k = e.key()
        if k in seen: return False
        pos = [a for a, c in e.t.items() if c > 0]
        if not pos and e.c <= 0: return True
        if depth > 7: return False
        fk = self._fid.setdefault(tuple(sorted(id(f) for f in facts)) if len(facts) < 64 else len(facts), len(self._fid))
        mk = (k, fk)
        if mk in self._fail and self._fail[mk] <= depth: return False
        seen = seen | {k}
        r = self._prove(e, facts, depth, seen)
        if not r: self._fail[mk] = min(depth, self._fail.get(mk, 99))
        return r

    def _prove(self, e, facts, depth, seen):
        for a in sorted(e.t, key=lambda x: (e.t[x] < 0, repr(x))):     # positive atoms first
            c = e.t[a]
            if c > 0:
                alts = self.split_values(a)
                if alts is not None:
                    ok = True
                    lp = self._is_loop_phi(a)
                    for val, extra in alts:
                        # for a loop-header phi the substituted goal speaks about the value of the previous iteration (or the entry value):
                        # what is known about the current value at this site does not carry over
                        base_f = [f for f in facts if f.coeff(a) == 0] if lp else facts
                        if self.infeasible(base_f + extra): continue
                        # an alternative excluded by a disequality known here (x != c on this path, alternative x == c)
                        if not lp and any((nf.subst(a, val)).is_const() and (nf.subst(a, val)).c == 0 for nf in (getattr(self, "_ne", None) or []) if nf.coeff(a) != 0): continue
                        if not self.prove_le0(e.subst(a, val), base_f + extra, depth + 1, seen): ok = False; break
                    if ok: return True
                iu = self.intrinsic_upper(a)
                if self.rewrite is not None: iu = [self.rewrite(f) for f in iu]        # callee-local facts in the caller's terms (context proofs)
                cands = list(facts) + iu + self.prod_upper(a, facts)
            else:
                # a lower bound is needed: a value that is one of several (phi / select) is bounded below on each alternative
                alts = self.split_values(a) if depth < 4 else None
                if alts is not None:
                    ok = True
                    lp = self._is_loop_phi(a)
                    for val, extra in alts:
                        base_f = [f for f in facts if f.coeff(a) == 0] if lp else facts
                        if self.infeasible(base_f + extra): continue
                        if not lp and any((nf.subst(a, val)).is_const() and (nf.subst(a, val)).c == 0 for nf in (getattr(self, "_ne", None) or []) if nf.coeff(a) != 0): continue
                        fx = base_f + extra; ne0 = getattr(self, "_ne", None)
                        if ne0 and not lp:
                            from .bounds import trim as _trim
                            self._ne = [nf.subst(a, val) if nf.coeff(a) != 0 else nf for nf in ne0]     # the disequalities speak about this alternative's value now
                            fx = _trim(fx, self._ne)                  # x >= c and x != c on this alternative  =>  x >= c + 1
                        try: r_ = self.prove_le0(e.subst(a, val), fx, depth + 1, seen)
                        finally: self._ne = ne0
                        if not r_: ok = False; break
                    if ok: return True
                cands = list(facts) + [-eq for eq in self.conserved().get(a, ())] + self.prod_lower(a, facts)
            for f in cands:
                d = f.coeff(a)
                if d == 0 or (d > 0) != (c > 0): continue
                e2 = e.scale(abs(d)) - f.scale(abs(c))
                if self.prove_le0(e2, facts, depth + 1, seen): return True
        return False

def facts_at_inst(fi, inst, assume=()):
    F = Facts(fi)
    le, ne = F.at_block(inst.block)
    return F, list(le) + list(assume), ne
