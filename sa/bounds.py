"""E-BOUNDS - symbolic extents of written / read regions (DESIGN 3; grown from the design-phase prototype).

For a pointer root R of a function (a parameter, an alloca, a heap block) every access through a pointer derived from R is
collected as (instruction, kind, byte offset as a linear form, size as a linear form or None = unbounded).  An obligation
`offset + size <= extent` is proved from the branch facts that dominate the access (prover.py).  Callee accesses are
summarised per pointer parameter as  none | const K | scale * (integer parameter j) | unbounded."""
from .lin import Lin
from .core import MEM_INTR, ALLOC_FUNCS
from .prover import Facts, Prover


def trim(le, ne):
    """use disequalities to tighten constant lower bounds: a >= c and a != c  =>  a >= c+1"""
    le = list(le); changed = True
    while changed:
        changed = False
        for d in ne:
            if len(d.t) != 1: continue
            (a, k), = d.t.items()
            if abs(k) != 1: continue
            cval = -d.c * k
            for f in le:
                if len(f.t) == 1 and f.coeff(a) == -1 and f.c == cval:
                    nf = Lin.const(cval + 1) - Lin.atom(a)
                    if nf not in le: le.append(nf); changed = True
    return le


class Bounds:
    def __init__(self, world):
        self.world = world; self.mod = world.mod
        self.wmemo = {}; self.rmemo = {}
        self._fp = {}
        self.contracts = {}      # (function, param) -> summary taken from the instance table: callers are judged against the
                                 # callee's contract, so a callee that breaks it is reported once, at the root cause

    def fp(self, fn):
        if fn.name not in self._fp:
            fi = self.world.fi(fn).prepare(); F = Facts(fi); self._fp[fn.name] = (fi, F, Prover(fi, F))
        return self._fp[fn.name]

    # ---------------- accesses ----------------
    def accesses(self, fn, root, mode):
        """mode 'w' or 'r'"""
        fi = self.world.fi(fn)
        for b in fn.blocks:
            for i in b.insts:
                if i.op == "store" and mode == "w":
                    r, off = fi.ptr(i.ops[1])
                    if r == root: yield (i, "store", off, Lin.const(i["size"]))
                elif i.op == "load" and mode == "r":
                    r, off = fi.ptr(i.ops[0])
                    if r == root: yield (i, "load", off, Lin.const(i["size"]))
                elif i.op == "call":
                    c = i.get("callee")
                    if c and c.startswith(MEM_INTR):
                        if mode == "w":
                            r, off = fi.ptr(i.ops[0])
                            if r == root: yield (i, c.split(".")[1], off, fi.lin(i.ops[2]))
                        elif not c.startswith("llvm.memset"):
                            r, off = fi.ptr(i.ops[1])
                            if r == root: yield (i, c.split(".")[1] + "-src", off, fi.lin(i.ops[2]))
                    elif c and (c.startswith("llvm.") or c in ALLOC_FUNCS or c == "free"): continue
                    else:
                        for n in range(i["nargs"]):
                            a = i.ops[n]
                            if not a["t"].endswith("*"): continue
                            r, off = fi.ptr(a)
                            if r != root: continue
                            w = self.summary(c, n, mode) if c else ("inf", "indirect call")
                            if w[0] == "none": continue
                            if w[0] == "inf": yield (i, "call:%s" % c, off, None)
                            elif w[0] == "const": yield (i, "call:%s" % c, off, Lin.const(w[1]))
                            elif w[0] == "arg": yield (i, "call:%s" % c, off, fi.lin(i.ops[w[1]]).scale(w[2]))

    def summary(self, name, k, mode):
        """extent of param k of function `name`: ('none',) | ('const',K) | ('arg',j,scale) | ('inf',why)"""
        memo = self.wmemo if mode == "w" else self.rmemo
        key = (name, k)
        if mode == "w" and key in self.contracts: return self.contracts[key]
        if key in memo: return memo[key]
        memo[key] = ("inf", "recursion")
        fn = self.mod.functions.get(name)
        if fn is None or fn.decl:
            if mode == "w":
                w = self.world.writes(name)
                r = ("none",) if (w is not None and k not in w) else ("inf", "external %s" % name)
            else:
                from .pts import is_pure_external
                r = ("inf", "external %s" % name) if not is_pure_external(name) else ("none",)
                if name == "qsort": r = ("inf", "qsort")
            memo[key] = r; return r
        fi, F, P = self.fp(fn)
        accs = list(self.accesses(fn, ("arg", k), mode))
        if not accs: memo[key] = ("none",); return ("none",)
        if any(sz is None for *_, sz in accs):
            memo[key] = ("inf", "callee unbounded"); return memo[key]
        def all_le(bound):
            for i, kind, off, sz in accs:
                le, ne = F.at_block(i.block)
                if not P.prove_le0(off + sz - bound, trim(le, ne)): return False
            return True
        for K in (1, 2, 3, 4, 5, 8, 9, 16, 18, 32, 64, 128, 256, 512, 1024, 8192):
            if all_le(Lin.const(K)):
                memo[key] = ("const", K); return memo[key]
        for j, p in enumerate(fn.params):
            if p["t"] in ("i64", "i32", "i16", "i8"):
                for s in (1, 2, 4, 8):
                    if all_le(Lin.atom(("arg", j)).scale(s)):
                        memo[key] = ("arg", j, s); return memo[key]
        memo[key] = ("inf", "no template bound")
        return memo[key]

    # ---------------- obligations ----------------
    def check(self, fn, root, extent, mode, assume=()):
        """returns (n, [(inst, kind, why)]) for all accesses to `root` against `extent` (Lin, bytes)"""
        fi, F, P = self.fp(fn)
        n = 0; bad = []; okl = []
        for i, kind, off, sz in self.accesses(fn, root, mode):
            n += 1
            if sz is None:
                # no closed-form summary: prove the callee's own accesses under the facts known at this call site
                why = self.prove_in_callee(fn, i, root, off, extent, mode, list(assume))
                if why is None: okl.append((i, kind, off, Lin.atom(("ctx", i.get("callee")))))
                else: bad.append((i, kind, "callee %s extent is unbounded in terms of its parameters, and in the context of this call: %s" % ("write" if mode == "w" else "read", why)))
                continue
            le, ne = F.at_block(i.block)
            if P.prove_le0(off + sz - extent, trim(list(le) + list(assume), ne)): okl.append((i, kind, off, sz))
            else: bad.append((i, kind, "cannot prove %r <= 0 (offset+size-extent)" % (off + sz - extent)))
        return n, bad, okl

    # ---------------- context-sensitive fallback ----------------
    def prove_in_callee(self, fn, call, root, off, extent, mode, assume, depth=0):
        """Prove every access of the callee through the parameter(s) bound to `root` against `extent - off`, importing the
        caller's facts at the call.  Caller atoms are renamed to the callee's where they correspond (integer arguments,
        entry values of struct fields reachable from pointer arguments); the rest stay as opaque foreign atoms.
        Returns None when proved, else a reason."""
        c = call.get("callee")
        g = self.mod.fn(c) if c else None
        if g is None or depth > 2: return "callee not analysable"
        fi, F, P = self.fp(fn)
        gfi, GF, GP = self.fp(g)
        ren = {}                                        # caller atom -> callee Lin
        for j in range(call["nargs"]):
            a = call.ops[j]
            if a["t"].endswith("*"): continue
            l = fi.lin(a)
            if len(l.t) == 1 and l.c == 0:
                (atom, k), = l.t.items()
                if k == 1: ren[atom] = Lin.atom(("arg", j))
        st = fi.call_state.get((call.block.id, call.idx), {})
        for j in range(call["nargs"]):
            a = call.ops[j]
            if not a["t"].endswith("*"): continue
            r, o = fi.ptr(a)
            if not o.is_const(): continue
            for (lr, lo, lsz), tok in st.items():
                if lr != r: continue
                ctok = ("entry", (("arg", j), lo - o.c, lsz))
                catom = fi.token_lin(tok)
                if len(catom.t) == 1 and catom.c == 0:
                    (atom, k), = catom.t.items()
                    if k == 1: ren.setdefault(atom, Lin.atom(ctok))
        def tr(e):
            out = Lin.const(e.c)
            for atom, k in e.t.items():
                out = out + (ren[atom].scale(k) if atom in ren else Lin.atom(("ext", fn.name, atom)).scale(k))
            return out
        le, ne = F.at_block(call.block)
        imp_le = [tr(f) for f in list(le) + list(assume)]; imp_ne = [tr(f) for f in ne]
        bound = tr(extent - off)
        params = [j for j in range(call["nargs"]) if call.ops[j]["t"].endswith("*") and fi.ptr(call.ops[j])[0] == root]
        for j in params:
            for i2, kind2, off2, sz2 in self.accesses(g, ("arg", j), mode):
                le2, ne2 = GF.at_block(i2.block)
                facts = trim(list(le2) + imp_le, list(ne2) + imp_ne)
                if sz2 is None:
                    w = self.prove_in_callee(g, i2, ("arg", j), off2, bound, mode, imp_le, depth + 1)
                    if w is not None: return "%s -> %s" % (c, w)
                    continue
                if GP.infeasible(facts, list(ne2) + imp_ne): continue
                if not GP.prove_le0(off2 + sz2 - bound, facts):
                    return "%s at %s:%s in %s cannot be bounded (%r <= 0 unproven)" % (kind2, i2.d.get("file", "?").split("/")[-1], i2.line, c, off2 + sz2 - bound)
        return None
