"""E-BOUNDS - symbolic extents of written / read regions (DESIGN 3; grown from the design-phase prototype).

For a pointer root R of a function (a parameter, an alloca, a heap block) every access through a pointer derived from R is
collected as (instruction, kind, byte offset as a linear form, size as a linear form or None = unbounded).  An obligation
`offset + size <= extent` is proved from the branch facts that dominate the access (prover.py).  Callee accesses are
summarised per pointer parameter as  none | const K | scale * (integer parameter j) | unbounded."""
from .lin import Lin
from .core import MEM_INTR, ALLOC_FUNCS
from .prover import Facts, Prover


def trim(le, ne):
    """use disequalities to tighten constant lower bounds: a >= c and a != c  =>  a >= c+1"""
    le = list(le); changed = True
    while changed:
        changed = False
        for d in ne:
            if len(d.t) != 1: continue
            (a, k), = d.t.items()
            if abs(k) != 1: continue
            cval = -d.c * k
            for f in le:
                if len(f.t) == 1 and f.coeff(a) == -1 and f.c == cval:
                    nf = Lin.const(cval + 1) - Lin.atom(a)
                    if nf not in le: le.append(nf); changed = True
    return le


class Bounds:
    def __init__(self, world):
        self.world = world; self.mod = world.mod
        self.wmemo = {}; self.rmemo = {}
        self._fp = {}
        self.rcontracts = {}
        self.contracts = {}      # (function, param) -> summary taken from the instance table: callers are judged against the
                                 # callee's contract, so a callee that breaks it is reported once, at the root cause

    def fp(self, fn):
        if fn.name not in self._fp:
            fi = self.world.fi(fn).prepare(); F = Facts(fi); self._fp[fn.name] = (fi, F, Prover(fi, F))
        return self._fp[fn.name]

    def live_blocks(self, fn):
        """blocks reachable from the entry without taking an edge that interval evaluation decides is dead
        (constant conditions such as endianIsLittle() on this target)"""
        if not hasattr(self, "_live"): self._live = {}
        if fn.name not in self._live:
            from .ival import Intervals
            dead = Intervals(fn, None, self.world.fi(fn).prepare()).dead_edges()
            seen = set(); st = [fn.entry.id]
            while st:
                x = st.pop()
                if x in seen: continue
                seen.add(x)
                for s2 in fn.bmap[x].succs:
                    if (x, s2.id) not in dead: st.append(s2.id)
            self._live[fn.name] = seen
        return self._live[fn.name]

    # ---------------- accesses ----------------
    def accesses(self, fn, root, mode):
        """mode 'w' or 'r'"""
        fi = self.world.fi(fn)
        live = self.live_blocks(fn)
        for b in fn.blocks:
            if b.id not in live: continue
            for i in b.insts:
                if i.op == "store" and mode == "w":
                    r, off = fi.ptr(i.ops[1])
                    if r == root: yield (i, "store", off, Lin.const(i["size"]))
                elif i.op == "load" and mode == "r":
                    r, off = fi.ptr(i.ops[0])
                    if r == root: yield (i, "load", off, Lin.const(i["size"]))
                elif i.op == "call":
                    c = i.get("callee")
                    if c and c.startswith(MEM_INTR):
                        if mode == "w":
                            r, off = fi.ptr(i.ops[0])
                            if r == root: yield (i, c.split(".")[1], off, fi.lin(i.ops[2]))
                        elif not c.startswith("llvm.memset"):
                            r, off = fi.ptr(i.ops[1])
                            if r == root: yield (i, c.split(".")[1] + "-src", off, fi.lin(i.ops[2]))
                    elif c and (c.startswith("llvm.") or c in ALLOC_FUNCS or c == "free"): continue
                    else:
                        for n in range(i["nargs"]):
                            a = i.ops[n]
                            if not a["t"].endswith("*"): continue
                            r, off = fi.ptr(a)
                            if r != root:
                                # the tracked object may be reachable through a pointer stored in a local structure
                                # (a reader/iterator/writer object): its extent is not expressible -> unbounded
                                ind = self.indirect_access(fn, i, n, root, mode)
                                if ind: yield (i, "call:%s(via %s)" % (c, ind), Lin(), None)
                                continue
                            w = self.summary(c, n, mode) if c else ("inf", "indirect call")
                            if w[0] == "none": continue
                            if w[0] == "inf": yield (i, "call:%s" % c, off, None)
                            elif w[0] == "const": yield (i, "call:%s" % c, off, Lin.const(w[1]))
                            elif w[0] == "arg": yield (i, "call:%s" % c, off, fi.lin(i.ops[w[1]]).scale(w[2]))
                            elif w[0] == "alts":
                                yield (i, "call:%s" % c, off, [Lin.const(a[1]) if a[0] == "const" else fi.lin(i.ops[a[1]]).scale(a[2]) for a in w[1]])

    def summary(self, name, k, mode):
        """extent of param k of function `name`: ('none',) | ('const',K) | ('arg',j,scale) | ('inf',why)"""
        memo = self.wmemo if mode == "w" else self.rmemo
        key = (name, k)
        if mode == "w" and key in self.contracts: return self.contracts[key]
        if mode == "r" and key in self.rcontracts: return self.rcontracts[key]
        if key in memo: return memo[key]
        memo[key] = ("inf", "recursion")
        fn = self.mod.functions.get(name)
        if fn is None or fn.decl:
            if mode == "w":
                w = self.world.writes(name)
                r = ("none",) if (w is not None and k not in w) else ("inf", "external %s" % name)
            else:
                from .pts import is_pure_external
                r = ("inf", "external %s" % name) if not is_pure_external(name) else ("none",)
                if name == "qsort": r = ("inf", "qsort")
            memo[key] = r; return r
        fi, F, P = self.fp(fn)
        accs = list(self.accesses(fn, ("arg", k), mode))
        if not accs: memo[key] = ("none",); return ("none",)
        if any(sz is None for *_, sz in accs):
            memo[key] = ("inf", "callee unbounded"); return memo[key]
        def all_le(bound):
            for i, kind, off, sz in accs:
                if not any(P.prove_at(off + z - bound, i.block, trim=trim) for z in (sz if isinstance(sz, list) else [sz])): return False
            return True
        alts = []
        for K in (1, 2, 3, 4, 5, 8, 9, 16, 18, 32, 64, 128, 256, 512, 1024, 8192):
            if all_le(Lin.const(K)):
                alts.append(("const", K)); break
        for j, p in enumerate(fn.params):
            if p["t"] in ("i64", "i32", "i16", "i8"):
                for s in (1, 2, 4, 8):
                    if all_le(Lin.atom(("arg", j)).scale(s)):
                        alts.append(("arg", j, s)); break
        if not alts: memo[key] = ("inf", "no template bound")
        elif len(alts) == 1: memo[key] = alts[0]
        else: memo[key] = ("alts", alts)
        return memo[key]

    def indirect_access(self, fn, call, n, root, mode):
        """does the callee access `root` through a pointer held inside the object passed as argument n?"""
        pw = self.world.pts
        fp = pw.fp.get(fn.name); cs = pw.summ.get(call.get("callee"))
        if fp is None or cs is None or root[0] != "arg": return None
        target = ("arg", root[1], 0)
        inner = fp.deref_closure(fp.roots(call.ops[n]))
        if target not in inner: return None
        acc = cs.mod if mode == "w" else cs.reads
        if ("arg", n, 1) in acc: return "a pointer stored in a local object"
        return None

    # ---------------- obligations ----------------
    def check(self, fn, root, extent, mode, assume=()):
        """returns (n, [(inst, kind, why)]) for all accesses to `root` against `extent` (Lin, bytes)"""
        fi, F, P = self.fp(fn)
        n = 0; bad = []; okl = []
        for i, kind, off, sz in self.accesses(fn, root, mode):
            n += 1
            if sz is None:
                # no closed-form summary: prove the callee's own accesses under the facts known at this call site
                why = self.prove_in_callee(fn, i, root, off, extent, mode, list(assume)) if "(via " not in kind else "the access goes through a pointer stored in a local object; its extent is not tracked"
                if why is None: okl.append((i, kind, off, Lin.atom(("ctx", i.get("callee")))))
                else: bad.append((i, kind, "callee %s extent is unbounded in terms of its parameters, and in the context of this call: %s" % ("write" if mode == "w" else "read", why)))
                continue
            szs = sz if isinstance(sz, list) else [sz]
            if any(P.prove_at(off + z - extent, i.block, extra_le=assume, trim=trim) for z in szs): okl.append((i, kind, off, szs[0]))
            else:
                # the closed-form summary of the callee is too coarse here (e.g. "at most 9 bytes" for a helper that clamps to the
                # remaining input itself): prove the callee's own accesses under the facts of this call site
                if i.op == "call" and kind.startswith("call:") and "(via " not in kind and self.mod.functions.get(i.get("callee") or "") is not None and not self.mod.functions[i["callee"]].decl:
                    try: why = self.prove_in_callee(fn, i, root, off, extent, mode, list(assume))
                    except Exception: why = "context proof failed"
                    if why is None: okl.append((i, kind, off, Lin.atom(("ctx", i.get("callee"))))); continue
                bad.append((i, kind, "cannot prove %r <= 0 (offset+size-extent)" % (off + szs[-1] - extent)))
        return n, bad, okl

    # ---------------- context-sensitive fallback ----------------
    def prove_in_callee(self, fn, call, root, off, extent, mode, assume, depth=0):
        """Prove every access of the callee through the parameter(s) bound to `root` against `extent - off`, importing the
        caller's facts at the call.  Caller atoms are renamed to the callee's where they correspond (integer arguments,
        entry values of struct fields reachable from pointer arguments); the rest stay as opaque foreign atoms.
        Returns None when proved, else a reason."""
        c = call.get("callee")
        g = self.mod.fn(c) if c else None
        if g is None or depth > 2: return "callee not analysable"
        fi, F, P = self.fp(fn)
        gfi, GF, GP = self.fp(g)
        def wrap(atom):
            if isinstance(atom, tuple) and atom[0] == "prod":
                x, y = sorted((wrap(atom[1]), wrap(atom[2])), key=repr)
                return ("prod", x, y)
            if isinstance(atom, tuple) and atom[0] == "ext": return atom
            return ("ext", fn.name, atom)
        def tr(e):
            out = Lin.const(e.c)
            for atom, k in e.t.items(): out = out + Lin.atom(wrap(atom)).scale(k)
            return out
        # callee atoms expressed over (wrapped) caller atoms: integer arguments and entry values of fields
        sub = {}
        for j in range(call["nargs"]):
            a = call.ops[j]
            if a["t"].endswith("*"): continue
            sub[("arg", j)] = tr(fi.lin(a))
        st = fi.call_state.get((call.block.id, call.idx), {})
        for j in range(call["nargs"]):
            a = call.ops[j]
            if not a["t"].endswith("*"): continue
            r, o = fi.ptr(a)
            # the address held by a pointer parameter, in the caller's terms: pointer differences in the callee (end - ptr) become
            # differences of the caller's offsets when both point into the same object
            sub[("base", ("arg", j))] = tr(Lin.atom(("base", r)) + o)
            if not o.is_const(): continue
            for (lr, lo, lsz), tok in st.items():
                if lr != r: continue
                sub[("entry", (("arg", j), lo - o.c, lsz))] = tr(fi.token_lin(tok))
        def into(e):
            """rewrite a callee linear form over the caller's atoms where they correspond"""
            out = Lin.const(e.c)
            for atom, k in e.t.items():
                if atom in sub: out = out + sub[atom].scale(k)
                elif isinstance(atom, tuple) and atom[0] == "prod" and (atom[1] in sub or atom[2] in sub):
                    from .core import prod_atom
                    x = sub.get(atom[1], Lin.atom(atom[1])); y = sub.get(atom[2], Lin.atom(atom[2]))
                    if x.is_const(): out = out + y.scale(x.c * k)
                    elif y.is_const(): out = out + x.scale(y.c * k)
                    else:
                        pa = prod_atom(x, y)
                        out = out + (Lin.atom(pa).scale(k) if pa is not None else Lin.atom(atom).scale(k))
                else: out = out + Lin.atom(atom).scale(k)
            return out
        le, ne = F.at_block(call.block)
        # consequences of the caller's facts that need the caller's instructions to be seen (the callee only gets opaque atoms):
        #   N + k <= udiv(X, c)  =>  c*N + c*k <= X          N + k <= udiv(X, y)  =>  N*y + k*y <= X   (y a value, N one atom)
        extra = list(P.derived(list(le)))
        from .core import prod_atom
        for f in le:
            for a, co in f.t.items():
                if co != -1: continue
                ai = P.atom_inst(a)
                if ai is None or ai.op != "udiv" or ai.ops[1]["k"] == "int": continue
                rest = f + Lin.atom(a); y = fi.lin(ai.ops[1]); X = fi.lin(ai.ops[0])
                if len(y.t) != 1 or y.c != 0 or len(rest.t) != 1: continue
                (ya, yk), = y.t.items(); (na, nk), = rest.t.items()
                if yk != 1 or nk != 1: continue
                pa = prod_atom(Lin.atom(na), Lin.atom(ya))
                if pa is None: continue
                extra.append(Lin.atom(pa) + Lin.atom(ya).scale(rest.c) - X)
        imp_le = [tr(f) for f in list(le) + extra + list(assume)]; imp_ne = [tr(f) for f in ne]
        bound = tr(extent - off)
        params = [j for j in range(call["nargs"]) if call.ops[j]["t"].endswith("*") and fi.ptr(call.ops[j])[0] == root]
        for j in params:
            for i2, kind2, off2, sz2 in self.accesses(g, ("arg", j), mode):
                off2 = into(off2)
                if sz2 is None:
                    w = self.prove_in_callee(g, i2, ("arg", j), off2, bound, mode, imp_le, depth + 1)
                    if w is not None: return "%s -> %s" % (c, w)
                    continue
                szs2 = [into(z) for z in (sz2 if isinstance(sz2, list) else [sz2])]
                if not any(GP.prove_at(off2 + z - bound, i2.block, extra_le=imp_le, extra_ne=imp_ne, trim=trim, rewrite=into) for z in szs2):
                    return "%s at %s:%s in %s cannot be bounded (%r <= 0 unproven)" % (kind2, i2.d.get("file", "?").split("/")[-1], i2.line, c, off2 + szs2[-1] - bound)
        return None
