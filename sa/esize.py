"""E-SIZE - symbolic upper bounds of output cursors versus sizing functions (DESIGN 3).

Values are bounded from above by *polynomials with non-negative atoms*: integer parameters, results of side-effect-free callees
that cannot be bounded by a constant (kept as uninterpreted atoms so that the same sub-expression on the sizing side cancels),
and floor divisions  udiv(P, c)  of such polynomials (monotone in P).  A loop-carried value is bounded by
    init + (number of back-edges) * (largest advance in one iteration)
with back-edge counts from canonical counters (i < N step s) and from shift loops (v >>= k until 0).  Nothing is executed."""
from fractions import Fraction
from .ir import type_bits
from .ival import Intervals, INF, const_return


class Unbounded(Exception): pass


class Poly:
    __slots__ = ("t",)
    def __init__(self, t=None): self.t = {k: v for k, v in (t or {}).items() if v != 0}
    @staticmethod
    def const(c): return Poly({(): Fraction(c)})
    @staticmethod
    def atom(a): return Poly({(a,): Fraction(1)})
    def __add__(self, o):
        o = o if isinstance(o, Poly) else Poly.const(o)
        t = dict(self.t)
        for k, v in o.t.items(): t[k] = t.get(k, 0) + v
        return Poly(t)
    def __neg__(self): return Poly({k: -v for k, v in self.t.items()})
    def __sub__(self, o): return self + (-(o if isinstance(o, Poly) else Poly.const(o)))
    def __mul__(self, o):
        o = o if isinstance(o, Poly) else Poly.const(o)
        t = {}
        for k1, v1 in self.t.items():
            for k2, v2 in o.t.items():
                k = tuple(sorted(k1 + k2, key=repr)); t[k] = t.get(k, 0) + v1 * v2
        return Poly(t)
    def is_const(self): return all(k == () for k in self.t)
    def c(self): return self.t.get((), Fraction(0))
    def key(self): return tuple(sorted(((k, (v.numerator, v.denominator)) for k, v in self.t.items()), key=repr))
    def nonneg_coeffs(self): return all(v >= 0 for v in self.t.values())
    def atoms(self):
        s = set()
        for k in self.t: s |= set(k)
        return s
    def subst(self, a, p):
        out = Poly()
        for k, v in self.t.items():
            term = Poly.const(v)
            for x in k: term = term * (p if x == a else Poly.atom(x))
            out = out + term
        return out
    def __eq__(self, o): return isinstance(o, Poly) and self.key() == o.key()
    def __hash__(self): return hash(self.key())
    def __repr__(self):
        if not self.t: return "0"
        parts = []
        for k, v in sorted(self.t.items(), key=lambda kv: repr(kv[0])):
            mon = "*".join(fmt_atom(a) for a in k)
            cs = str(v) if v.denominator != 1 else str(v.numerator)
            parts.append(cs if not mon else (mon if v == 1 else cs + "*" + mon))
        return " + ".join(parts)


def fmt_atom(a):
    if isinstance(a, tuple) and a[0] == "arg": return a[2] if len(a) > 2 else "arg%d" % a[1]
    if isinstance(a, tuple) and a[0] == "udiv": return "floor((%s)/%d)" % (a[3] if len(a) > 3 else "...", a[2])
    if isinstance(a, tuple) and a[0] == "call": return "%s(..)" % a[1]
    if isinstance(a, tuple) and a[0] == "urem": return "((%s) mod %d)" % (a[3], a[2])
    if isinstance(a, tuple) and a[0] == "ind": return "[%s > 0]" % a[2]
    if isinstance(a, tuple) and a[0] == "q": return "/".join(a[1:])
    if isinstance(a, tuple) and a[0] == "len": return "len%x(%s)" % (a[1], a[2])
    return repr(a)


def udiv_poly(p, c):
    """floor(p / c) as a polynomial atom (exact when p is constant).  floor((P + a*c + r)/c) = floor((P + r)/c) + a: the constant term is
    reduced to [0, c) so that equal values get equal atoms"""
    if p.is_const(): return Poly.const(int(p.c()) // c) if p.c().denominator == 1 else Poly.const(p.c() / c)
    if c == 1 and p.c().denominator == 1 and all(v.denominator == 1 for v in p.t.values()): return p          # floor(P/1) = P for integer P (a count-down by one)
    k0 = p.c()
    if k0.denominator == 1 and all(v.denominator == 1 for v in p.t.values()):
        a = int(k0) // c
        if a != 0:
            p = p - Poly.const(a * c)
            return Poly.atom(("udiv", p.key(), c, repr(p))) + Poly.const(a)
    return Poly.atom(("udiv", p.key(), c, repr(p)))


def urem_poly(p, c):
    if p.is_const() and p.c().denominator == 1: return Poly.const(int(p.c()) % c)
    return Poly.atom(("urem", p.key(), c, repr(p)))


def ind_poly(p):
    """[p > 0]"""
    if p.is_const(): return Poly.const(1 if p.c() > 0 else 0)
    return Poly.atom(("ind", p.key(), repr(p)))


def deep_subst(p, mapping):
    """substitute atoms (also inside the arguments of div / mod / indicator atoms) by polynomials"""
    def sa(a):
        if a in mapping: return mapping[a]
        if isinstance(a, tuple) and a[0] in ("udiv", "urem", "ind"):
            inner = deep_subst(poly_of_key(a[1]), mapping)
            if a[0] == "udiv": return udiv_poly(inner, a[2])
            if a[0] == "urem": return urem_poly(inner, a[2])
            return ind_poly(inner)
        return Poly.atom(a)
    out = Poly()
    for k, v in p.t.items():
        term = Poly.const(v)
        for x in k: term = term * sa(x)
        out = out + term
    return out


def all_atoms(p):
    out = set()
    for a in p.atoms():
        out.add(a)
        if isinstance(a, tuple) and a[0] in ("udiv", "urem", "ind"): out |= all_atoms(poly_of_key(a[1]))
    return out


def poly_of_key(key): return Poly({k: Fraction(n, d) for k, (n, d) in key})


def pmax(a, b):
    """an upper bound of max(a, b) for polynomials with non-negative atoms"""
    d = a - b
    if d.nonneg_coeffs(): return a
    if (-d).nonneg_coeffs(): return b
    # incomparable: a + b bounds both when both are non-negative
    if a.nonneg_coeffs() and b.nonneg_coeffs(): return a + b
    raise Unbounded("incomparable bounds %r / %r" % (a, b))


class UB:
    def __init__(self, world, fn, arg_names=None, depth=0):
        self.w = world; self.fn = fn; self.mod = fn.mod; self.fi = world.fi(fn).prepare()
        self.memo = {}; self.busy = set(); self.depth = depth
        self.iv = Intervals(fn, None, self.fi)
        self.loops = fn.loops(); fn.dom()
        self.sub = {}                # phi id -> placeholder polynomial while computing a loop advance
        self.arg_role = {}           # k -> role name of the actual (sibling mode, when analysing a helper in its caller's context)
        self.exact_args = {}         # k -> exact polynomial of the actual (when evaluating a sizing function in its caller's terms)
        self.q = False               # quasi-polynomial mode: exact mod / div atoms, guarded joins, block-loop lemmas (compared by residues)
        self.dead = set(); self.unreach = set(); self.block_case = {}; self.site = None
        self.pins = {}               # sibling mode: metadata field name -> constant (analysis specialised per width)
        self.roles = False           # sibling mode: length calls and loads become atoms named by table / role (sa/sizeterms.py)
        self.H = frozenset()         # loop headers whose continuation test the current use site has already passed
        self.memos = {frozenset(): self.memo}; self.be_test = {}
        self.arg_poly = {}           # k -> Poly (actuals when analysing a callee in context)

    def pin_fields(self, consts):
        """sibling mode: analyse for fixed values of some metadata fields (every load of a field of that name): e.g. one width at a time"""
        from . import sizeterms as ST
        self.pins = dict(consts)
        iv = Intervals(self.fn, None, self.fi)
        for i in self.fn.insts():
            if i.op == "load" and not i["t"].endswith("*"):
                r = ST.role(self.fn, self.mod, {"k": "inst", "v": i.id, "t": i["t"]})
                if r[0] == "field" and r[1] in consts: iv.memo[i.id] = (consts[r[1]], consts[r[1]])
        self.iv = iv; self.dead = iv.dead_edges(); reach = set(); work = [self.fn.entry]
        while work:
            b = work.pop()
            if b.id in reach: continue
            reach.add(b.id)
            for sx in b.succs:
                if (b.id, sx.id) not in self.dead: work.append(sx)
        self.unreach = {b.id for b in self.fn.blocks} - reach
        return self

    def pin_args(self, consts):
        """analyse the function for fixed values of some integer parameters (e.g. one encoding mode): branches decided by them are pruned"""
        self.iv = Intervals(self.fn, dict(consts), self.fi)
        self.dead = self.iv.dead_edges(); reach = set(); work = [self.fn.entry]
        while work:
            b = work.pop()
            if b.id in reach: continue
            reach.add(b.id)
            for sx in b.succs:
                if (b.id, sx.id) not in self.dead: work.append(sx)
        self.unreach = {b.id for b in self.fn.blocks} - reach
        for k, v in consts.items(): self.arg_poly[k] = Poly.const(v)
        return self

    def arg_atom(self, k): return ("arg", k, self.fn.argnames.get(k, "arg%d" % k))

    def at(self, block):
        """evaluate subsequent bounds as seen from `block`: inside a loop body, after the continuation test that bounds the trip
        count, a loop-carried value has taken at most (trips - 1) back edges"""
        H = set()
        for h, body in self.loops.items():
            if block.id in body and block.id != h:
                try: self.backedges(h)
                except Unbounded: continue
                tb, stay = self.be_test.get(h, (None, None))
                if stay is None: continue
                sb = self.fn.bmap[stay]
                if [p.id for p in sb.preds] == [tb] and self.fn.dominates(stay, block.id): H.add(h)
        self.H = frozenset(H); self.site = block
        inside = frozenset(h for h, body in self.loops.items() if block.id in body) if self.q else frozenset()
        self.memo = self.memos.setdefault((self.H, inside), {})
        return self

    def outside(self, h):
        """is the current use site outside loop h (so that a header phi of h denotes its value at loop exit)?"""
        return self.site is not None and self.site.id not in self.loops[h]

    # ---- exact values (q-mode) ----
    def exact(self, o, depth=0):
        """the value as an exact polynomial over parameters with div/mod atoms, or None.  Unsigned arithmetic is assumed not to wrap."""
        if depth > 12: return None
        k = o["k"]
        if k == "int": return Poly.const(int(o["v"]))
        if k == "arg":
            if o["v"] in self.exact_args: return self.exact_args[o["v"]]
            return Poly.atom(self.arg_atom(o["v"])) if o["v"] not in self.arg_poly else None
        if k != "inst": return None
        if o["v"] in self.sub: return None
        i = self.fn.imap[o["v"]]; E = lambda n: self.exact(i.ops[n], depth + 1)
        if i.op in ("zext", "freeze"): return E(0)
        if i.op == "sext":
            a = self.iv.ival(i.ops[0]); sb = type_bits(i.ops[0]["t"]) or 64
            return E(0) if a[0] >= 0 and a[1] != INF and a[1] < (1 << (sb - 1)) else None
        if i.op == "trunc":
            e = E(0); hi = self.iv.ival(i.ops[0])[1]
            return e if e is not None and hi != INF and hi < (1 << (type_bits(i["t"]) or 64)) else None
        if i.op in ("add", "sub", "mul"):
            a, b = E(0), E(1)
            if a is None or b is None: return None
            return a + b if i.op == "add" else (a - b if i.op == "sub" else a * b)
        if i.op in ("udiv", "urem") and i.ops[1]["k"] == "int" and int(i.ops[1]["v"]) > 0:
            a = E(0)
            if a is None: return None
            return udiv_poly(a, int(i.ops[1]["v"])) if i.op == "udiv" else urem_poly(a, int(i.ops[1]["v"]))
        if i.op == "phi" and i.block.id in self.loops and self.outside(i.block.id):
            d = self.decrement_loop(i)
            if d is not None:
                init, B = d; e = self.exact(init, depth + 1)
                if e is not None: return urem_poly(e, B)
        if i.op == "select" and i.ops[0]["k"] == "inst":
            ci = self.fn.imap[i.ops[0]["v"]]
            if ci.op == "icmp" and ci.ops[1]["k"] == "int" and int(ci.ops[1]["v"]) == 0 and ci["pred"] in ("ugt", "ne", "eq"):
                e = self.exact(ci.ops[0], depth + 1); a = E(1); b = E(2)
                if e is not None and a is not None and b is not None:
                    pv, zv = (b, a) if ci["pred"] == "eq" else (a, b)
                    return zv + ind_poly(e) * (pv - zv)
        if i.op == "phi" and i.block.id in self.loops and self.outside(i.block.id):
            # a counter stepped by a constant on every iteration: initial value + exact number of iterations * step
            h = i.block.id; body = self.loops[h]
            back = [inc["v"] for inc in i["incoming"] if inc["b"] in body]; out = [inc["v"] for inc in i["incoming"] if inc["b"] not in body]
            if len(back) == 1 and len(out) == 1 and back[0]["k"] == "inst":
                bi = self.fn.imap[back[0]["v"]]
                if bi.op == "add" and bi.ops[1]["k"] == "int" and bi.ops[0]["k"] == "inst" and bi.ops[0]["v"] == i.id and all(self.fn.dominates(bi.block.id, l.id) for l in self.fn.bmap[h].preds if l.id in body):
                    tr = self.exact_trips(h); e0 = self.exact(out[0], depth + 1)
                    if tr is not None and e0 is not None: return e0 + tr * Poly.const(int(bi.ops[1]["sv"]))
        if i.op == "phi" and i.block.id not in self.loops and len(i["incoming"]) == 2:
            g = self.guard_of_join(i, i["incoming"])
            if g is not None:
                x, pos, zero = g
                saved = self.site; self.site = i.block
                try: e = self.guard_excess(x); pv = self.exact(pos["v"], depth + 1); zv = self.exact(zero["v"], depth + 1)
                finally: self.site = saved
                if e is not None and pv is not None and zv is not None: return zv + ind_poly(e) * (pv - zv)
        if i.op == "call":
            g = self.mod.fn(i.get("callee") or "")
            if g is not None and not g.decl and self.depth < 4:
                sub = UB(self.w, g, depth=self.depth + 1); sub.q = self.q
                for k in range(i["nargs"]):
                    e = self.exact(i.ops[k], depth + 1)
                    if e is None: return None
                    sub.exact_args[k] = e
                r = sub.exact_return()
                if r is not None: return r
                # a side-effect-free function of exactly known arguments: an uninterpreted, exact atom
                sm = self.w.pts.summ.get(g.name)
                if sm is not None and not sm.mod and not sm.reads and all(not i.ops[k]["t"].endswith("*") for k in range(i["nargs"])):
                    import re as _re
                    return Poly.atom(("call", _re.sub(r"\.\d+$", "", g.name), tuple(sub.exact_args[k].key() for k in range(i["nargs"]))))   # internal copies of one inline function (name.N after linking) are the same function
        return None

    def exact_return(self):
        """exact value of the function's result for a non-empty input (the `return 0` of an emptiness test is skipped), or None"""
        out = None
        for rt in self.fn.rets():
            if not rt.ops: continue
            v = rt.ops[0]
            cands = [v]
            if v["k"] == "inst" and self.fn.imap[v["v"]].op == "phi" and self.fn.imap[v["v"]].block is rt.block:
                incs = [inc["v"] for inc in self.fn.imap[v["v"]]["incoming"]]
                if any(c["k"] == "int" and int(c["v"]) == 0 for c in incs): cands = incs       # `if (count == 0) return 0;` merged into the return block
            for c in cands:
                if c["k"] == "int" and int(c["v"]) == 0: continue
                self.site = rt.block
                e = self.exact(c)
                if e is None or (out is not None and e != out): return None
                out = e
        return out

    def exact_trips(self, h):
        """exact number of iterations of loop h when its only exit is the header test of a canonical counter / decrement loop"""
        fn = self.fn; body = self.loops[h]
        for bid in body:
            if bid != h and any(sx.id not in body for sx in fn.bmap[bid].succs): return None
        t = fn.bmap[h].term
        if t.op != "br" or len(t.ops) != 3 or t.ops[0]["k"] != "inst": return None
        ci = fn.imap[t.ops[0]["v"]]
        if ci.op != "icmp": return None
        if ci.ops[0]["k"] == "inst" and fn.imap[ci.ops[0]["v"]].op == "phi" and fn.imap[ci.ops[0]["v"]].block.id == h:
            d = self.decrement_loop(fn.imap[ci.ops[0]["v"]])
            if d is not None:
                e = self.exact(d[0])
                return udiv_poly(e, d[1]) if e is not None else None
        if ci["pred"] in ("ult", "slt") and t.ops[2]["v"] in body:
            ph, s0 = self.counter(ci.ops[0], h, body)
            if ph is not None:
                init = [inc["v"] for inc in ph["incoming"] if inc["b"] not in body][0]
                saved = self.site; self.site = fn.bmap[h]
                try: eN = self.exact(ci.ops[1]); eI = self.exact(init)
                finally: self.site = saved
                if eN is not None and eI is not None: return udiv_poly(eN - eI + Poly.const(s0 - 1), s0)
        return None

    def decrement_loop(self, ph):
        """ph is the header phi of `while (x >= B) { ...; x -= B; }` (only exit: the header test): returns (initial operand, B)"""
        fn = self.fn; h = ph.block.id; body = self.loops[h]
        back = [inc["v"] for inc in ph["incoming"] if inc["b"] in body]; out = [inc["v"] for inc in ph["incoming"] if inc["b"] not in body]
        if len(back) != 1 or len(out) != 1 or back[0]["k"] != "inst": return None
        bi = fn.imap[back[0]["v"]]
        if bi.op == "add" and bi.ops[1]["k"] == "int" and int(bi.ops[1]["sv"]) < 0: B = -int(bi.ops[1]["sv"])
        elif bi.op == "sub" and bi.ops[1]["k"] == "int": B = int(bi.ops[1]["v"])
        else: return None
        if not (bi.ops[0]["k"] == "inst" and bi.ops[0]["v"] == ph.id) or B <= 0: return None
        t = ph.block.term
        if t.op != "br" or len(t.ops) != 3 or t.ops[0]["k"] != "inst": return None
        ci = fn.imap[t.ops[0]["v"]]
        if ci.op != "icmp" or not (ci.ops[0]["k"] == "inst" and ci.ops[0]["v"] == ph.id) or ci.ops[1]["k"] != "int": return None
        kk = int(ci.ops[1]["v"]); stay = t.ops[2]["v"] in body
        okp = (ci["pred"] == "uge" and kk == B and stay) or (ci["pred"] == "ugt" and kk == B - 1 and stay) or (ci["pred"] == "ult" and kk == B and not stay)
        if not okp: return None
        # no other exit from the loop
        for bid in body:
            if bid == h: continue
            if any(sx.id not in body for sx in fn.bmap[bid].succs): return None
        return out[0], B

    def trips(self, h):
        b = self.backedges(h)
        if h in self.H:
            b1 = b - Poly.const(1)
            # (trips - 1) is only used as a multiplier of a non-negative advance; never let it go below zero for constants
            if b1.is_const() and b1.c() < 0: return Poly.const(0)
            return b1
        return b

    # ---- upper bound of an integer value ----
    def ub(self, o):
        k = o["k"]
        if k == "int": return Poly.const(int(o["v"]))
        if k == "null": return Poly.const(0)
        if k == "arg":
            if o["v"] in self.arg_poly: return self.arg_poly[o["v"]]
            if self.roles: return Poly.atom(("q", self.fn.argnames.get(o["v"], "arg%d" % o["v"])))
            return Poly.atom(self.arg_atom(o["v"]))
        if k == "undef": return Poly.const(0)
        if k != "inst": raise Unbounded("operand %r" % (o,))
        vid = o["v"]
        if vid in self.sub: return self.sub[vid]
        if not self.sub and vid in self.memo: return self.memo[vid]
        bk = (vid, tuple(sorted(self.sub)))
        if bk in self.busy: raise Unbounded("cyclic dependency at %%%s" % vid)
        self.busy.add(bk)
        try:
            r = self._ub(self.fn.imap[vid])
        finally:
            self.busy.discard(bk)
        if not self.sub: self.memo[vid] = r
        return r

    def const_ub(self, o):
        a = self.iv.ival(o)
        return None if a[1] == INF else int(a[1])

    def lb(self, o):
        """a lower bound (constant, or the exact polynomial when the value is an exact affine function of parameters)"""
        if o["k"] == "int": return Poly.const(int(o["v"]))
        if o["k"] == "arg": return self.ub(o) if o["v"] not in self.arg_poly else Poly.const(0)
        a = self.iv.ival(o)
        return Poly.const(max(0, int(a[0])) if a[0] != -INF else 0)

    def _ub(self, i):
        op = i.op; bits = type_bits(i["t"]) or 64
        cu = self.const_ub({"k": "inst", "v": i.id, "t": i["t"]}) if op not in ("phi",) else None
        tmax = (1 << bits) - 1
        def best(p):
            # prefer a constant bound when interval evaluation has a strictly smaller one
            if cu is not None and cu < tmax and not p.is_const(): return p
            if cu is not None and p.is_const() and cu < p.c(): return Poly.const(cu)
            return p
        A = lambda n: self.ub(i.ops[n])
        if op in ("zext", "sext", "freeze", "bitcast"): return best(A(0))
        if op == "trunc":
            a = A(0)
            if a.is_const() and a.c() > tmax: return Poly.const(tmax)
            return best(a)
        if op == "add":
            bc = self.bit_cursor(i)
            if bc is not None: return best(bc)
            return best(A(0) + A(1))
        if op == "sub": return best(A(0) - self.lb(i.ops[1]))
        if op == "mul":
            a, b = A(0), A(1)
            # true values are non-negative (unsigned sizes and counts), so x <= a and y <= b give x*y <= a*b pointwise
            return best(a * b)
        if op == "shl":
            b = self.iv.ival(i.ops[1])
            if b[0] == b[1] and b[0] != INF: return best(A(0) * Poly.const(1 << int(b[0])))
            if cu is not None: return Poly.const(cu)
            raise Unbounded("shl by a variable amount")
        if op in ("sdiv", "srem", "ashr"):
            a0 = self.iv.ival(i.ops[0]); b0 = self.iv.ival(i.ops[1]); sb = type_bits(i.ops[0]["t"]) or 64
            if a0[0] < 0 or b0[0] < 0 or a0[1] >= (1 << (sb - 1)) or b0[1] >= (1 << (sb - 1)): raise Unbounded("%s of possibly negative operands at line %s" % (op, i.line))
            op = {"sdiv": "udiv", "srem": "urem", "ashr": "lshr"}[op]
        if op in ("udiv", "lshr"):
            b = self.iv.ival(i.ops[1])
            if b[0] == b[1] and b[0] not in (INF, 0) or (op == "lshr" and b[0] == b[1] and b[0] != INF):
                c = int(b[0]) if op == "udiv" else (1 << int(b[0]))
                return best(udiv_poly(A(0), c))
            return best(A(0))
        if op == "urem":
            b = self.const_ub(i.ops[1])
            if self.q and i.ops[1]["k"] == "int" and int(i.ops[1]["v"]) > 0:
                e = self.exact(i.ops[0])
                if e is not None and not e.is_const(): return urem_poly(e, int(i.ops[1]["v"]))
            if b is not None and b > 0: return Poly.const(b - 1)
            return A(0)
        if op == "and":
            cands = []
            for n in (0, 1):
                c = self.const_ub(i.ops[n])
                if c is not None: cands.append(Poly.const(c))
            if cands: return min(cands, key=lambda p: p.c())
            return A(0)
        if op in ("or", "xor"):
            if cu is not None: return Poly.const(cu)
            return A(0) + A(1)
        if op == "select": return pmax(A(1), A(2))
        if op == "icmp": return Poly.const(1)
        if op == "load" and self.roles:
            from . import sizeterms as ST
            r = ST.role(self.fn, self.mod, {"k": "inst", "v": i.id, "t": i["t"]})
            if r[0] == "field" and r[1] in self.pins: return Poly.const(self.pins[r[1]])
            if r[0] in ("field", "param"): return Poly.atom(("q", r[1]))
            if r[0] in ("elem", "elem-of", "member"): return Poly.atom(("q",) + tuple(map(str, r)))
        if op == "call" and self.roles:
            from . import sizeterms as ST
            c = i.get("callee") or ""
            vals = [i.ops[k] for k in range(i["nargs"]) if not i.ops[k]["t"].endswith("*")]
            if len(vals) == 1 and self.mod.fn(c) is not None:
                tab = ST.length_table(self.mod, c)
                if tab[0] != "name":
                    r = ST.role(self.fn, self.mod, vals[0])
                    if r[0] in ("const", "const-max"):
                        v = (1 << 64) - 1 if r[0] == "const-max" else r[1]
                        return Poly.const(next(ln for (a, b, ln) in tab if a <= v <= b))
                    name = r[1] if r[0] in ("field", "param") else "/".join(map(str, r))
                    if r[0] == "param":
                        pk = next((k for k, n in self.fn.argnames.items() if n == r[1]), None)
                        if pk in self.arg_role: name = self.arg_role[pk]
                    return Poly.atom(("len", hash(tab) & 0xffff, name))
        if op == "load":
            src = self.fi.load_source(i)
            if src is not None and not src["t"].endswith("*"): return self.ub(src)
            tok = self.fi.load_atom.get(i.id)
            if tok is not None and tok[0] == "cv":
                c = self.fn.imap[tok[1]]; k, ai, aj = self.w.outvals()[c["callee"]]
                return self.ub(c.ops[ai]) * self.ub(c.ops[aj])
            if tok is not None and tok[0] == "entry":
                return Poly.atom(("field",) + tuple(tok[1][0]) + (tok[1][1], tok[1][2]))
            if bits < 64: return Poly.const(tmax)
            raise Unbounded("load of an unknown 64-bit value at line %s" % i.line)
        if op == "call":
            if self.q and self.depth == 0:
                e = self.exact({"k": "inst", "v": i.id, "t": i["t"]})
                if e is not None and any(isinstance(a, tuple) and a[0] == "call" for a in e.atoms()): return e
            return self.call_ub(i)
        if op == "phi": return self.phi_ub(i)
        if op == "extractvalue" and cu is not None: return Poly.const(cu)
        if op == "ptrtoint":
            return self.ptr_ub(i.ops[0])[1]
        if cu is not None and cu < tmax: return Poly.const(cu)
        raise Unbounded("%s at line %s" % (op, i.line))

    # ---- calls ----
    def call_ub(self, i):
        c = i.get("callee")
        cr = const_return(self.mod, c)
        if cr is not None: return Poly.const(cr)
        g = self.mod.fn(c) if c else None
        if g is None: raise Unbounded("call to %s" % c)
        if self.roles and not g.decl and self.depth < 3:
            from . import sizeterms as ST
            sub = UB(self.w, g, depth=self.depth + 1); sub.roles = True
            if self.pins: sub.pin_fields(self.pins)
            for k in range(i["nargs"]):
                if i.ops[k]["t"].endswith("*"): continue
                sub.arg_poly[k] = self.ub(i.ops[k])
                r = ST.role(self.fn, self.mod, i.ops[k])
                sub.arg_role[k] = r[1] if r[0] in ("field", "param") else "/".join(map(str, r))
            r = None
            for rt in g.rets():
                if not rt.ops: continue
                v = rt.ops[0]; cands = [v]
                if v["k"] == "inst" and g.imap[v["v"]].op == "phi" and g.imap[v["v"]].block is rt.block: cands = [inc["v"] for inc in g.imap[v["v"]]["incoming"]]
                for cv in cands:
                    p = sub.ub(cv); r = p if r is None else pmax(r, p)
            if r is not None: return r
        # context-sensitive: the callee's result under the bounds of the actual integer arguments
        if not g.decl and self.depth < 4:
            argp = {}
            for k in range(i["nargs"]):
                if i.ops[k]["t"].endswith("*"): continue
                try: argp[k] = self.ub(i.ops[k])
                except Unbounded: pass
            ckey = ("ctxret", c, tuple(sorted((k, p.key()) for k, p in argp.items())), self.q)
            cache = self.w.__dict__.setdefault("_esize_ret", {})
            if ckey not in cache:
                cache[ckey] = None
                try:
                    sub = UB(self.w, g, depth=self.depth + 1); sub.q = self.q; sub.arg_poly = dict(argp); r = None
                    for rt in g.rets():
                        if not rt.ops: continue
                        v = rt.ops[0]; cands = [v]
                        if v["k"] == "inst" and g.imap[v["v"]].op == "phi" and g.imap[v["v"]].block is rt.block: cands = [inc["v"] for inc in g.imap[v["v"]]["incoming"]]
                        for cv in cands:
                            pp = sub.at(rt.block).ub(cv); r = pp if r is None else pmax(r, pp)
                    cache[ckey] = r
                except Unbounded:
                    cache[ckey] = None
            r = cache[ckey]
            if r is not None:
                mapping = {}; ok = True
                for a in all_atoms(r):
                    if isinstance(a, tuple) and a[0] in ("call", "udiv", "urem", "ind"): pass
                    elif isinstance(a, tuple) and a[0] == "arg" and a[1] in argp: mapping[a] = argp[a[1]]
                    elif isinstance(a, tuple) and a[0] == "field" and a[1] == "arg" and a[2] < i["nargs"]:
                        # the callee reads a field of an object we pass: its value is what this function has accumulated there
                        actual = i.ops[a[2]]; root = self.root_of(actual)
                        if root in (None, "cycle") or not self.ptr_ub(actual)[1].is_const() or self.ptr_ub(actual)[1].c() != 0: ok = False; break
                        mapping[a] = self.cell_total(root, a[3])
                    else: ok = False; break
                if ok: return deep_subst(r, mapping)
        key = ("ret", c)
        cache = self.w.__dict__.setdefault("_esize_ret", {})
        if key not in cache:
            cache[key] = None
            if self.depth < 4:
                try:
                    sub = UB(self.w, g, depth=self.depth + 1)
                    r = None
                    for rt in g.rets():
                        if not rt.ops: continue
                        v = rt.ops[0]
                        cands = [v]
                        if v["k"] == "inst" and g.imap[v["v"]].op == "phi" and g.imap[v["v"]].block is rt.block: cands = [inc["v"] for inc in g.imap[v["v"]]["incoming"]]
                        for cv in cands:
                            p = sub.ub(cv); r = p if r is None else pmax(r, p)
                    cache[key] = r
                except Unbounded:
                    cache[key] = None
        r = cache[key]
        if r is not None and r.is_const(): return r
        if r is not None:
            # polynomial in the callee's parameters: substitute the bounds of the actuals (needs monotonicity: coefficients >= 0)
            if r.nonneg_coeffs():
                mapping = {}; ok = True
                for a in all_atoms(r):
                    if isinstance(a, tuple) and a[0] == "arg": mapping[a] = self.ub(i.ops[a[1]])
                    elif isinstance(a, tuple) and a[0] in ("call", "udiv", "urem", "ind"): pass
                    elif isinstance(a, tuple) and a[0] == "field" and a[1] == "arg" and a[2] < i["nargs"]:
                        # the callee reads a field of an object we pass: its value is what this function has accumulated there
                        actual = i.ops[a[2]]; root = self.root_of(actual)
                        if root in (None, "cycle") or not self.ptr_ub(actual)[1].is_const() or self.ptr_ub(actual)[1].c() != 0: ok = False; break
                        mapping[a] = self.cell_total(root, a[3])
                    else: ok = False; break
                if ok: return deep_subst(r, mapping)
        # a side-effect-free callee whose result we cannot bound: an uninterpreted atom of its (bounded) integer arguments
        s = self.w.pts.summ.get(c)
        if s is not None and not s.mod and not i["t"].endswith("*"):
            args = tuple(self.ub(i.ops[n]).key() if not i.ops[n]["t"].endswith("*") else "ptr" for n in range(i["nargs"]))
            return Poly.atom(("call", c, args))
        raise Unbounded("result of %s" % c)

    # ---- loops ----
    def backedges(self, h):
        """upper bound (Poly) of the number of times the back edge of loop h is taken"""
        fn = self.fn; body = self.loops[h]
        best = None
        for bid in body:
            b = fn.bmap[bid]; t = b.term
            if t.op != "br" or len(t.ops) != 3: continue
            tru, fls = t.ops[2]["v"], t.ops[1]["v"]
            if (tru in body) == (fls in body): continue
            stay_true = tru in body
            c = t.ops[0]
            if c["k"] != "inst": continue
            conds = self.split_and(c, stay_true)
            for (ci, truth) in conds:
                try: p = self.trip_from_cmp(ci, truth, h, body)
                except Unbounded: p = None
                if p is not None and (best is None or (best - p).nonneg_coeffs()):
                    best = p; self.be_test[h] = (bid, tru if stay_true else fls) if ci.block.id == bid else (None, None)
        if best is None: raise Unbounded("no recognisable exit test for the loop at block %d" % h)
        return best

    def split_and(self, c, want):
        """conjuncts of a loop-continuation condition (short-circuit && is an i1 phi at -O0)"""
        ci = self.fn.imap[c["v"]]
        if ci.op == "icmp": return [(ci, want)]
        if ci.op == "xor" and ci.ops[1]["k"] == "int": return self.split_and(ci.ops[0], not want) if ci.ops[0]["k"] == "inst" else []
        if ci.op == "phi" and want:
            out = []
            for inc in ci["incoming"]:
                v = inc["v"]
                if v["k"] == "inst": out += self.split_and(v, True)
                # the constant-false incoming edges carry the earlier conjuncts: they are the tests of the predecessor blocks
                else:
                    pb = self.fn.bmap[inc["b"]]; pt = pb.term
                    if pt.op == "br" and len(pt.ops) == 3 and pt.ops[0]["k"] == "inst":
                        out += self.split_and(pt.ops[0], pt.ops[2]["v"] != ci.block.id)
            return out
        return []

    def trip_from_cmp(self, ci, truth, h, body):
        fn = self.fn; pred = ci["pred"]; a, b = ci.ops
        if not truth: pred = {"ult": "uge", "ule": "ugt", "ugt": "ule", "uge": "ult", "slt": "sge", "sle": "sgt", "sgt": "sle", "sge": "slt", "eq": "ne", "ne": "eq"}[pred]
        # (ii) shift loop: continue while (v >> k) != 0
        for x, y in ((a, b), (b, a)):
            if pred in ("ne", "ugt") and y["k"] == "int" and int(y["v"]) == 0 and x["k"] == "inst":
                xi = fn.imap[x["v"]]; shifted = 0
                if xi.op == "lshr" and xi.ops[1]["k"] == "int" and xi.ops[0]["k"] == "inst":
                    k = int(xi.ops[1]["v"]); ph = fn.imap[xi.ops[0]["v"]]; shifted = 1
                elif xi.op == "phi": ph = xi; k = None
                else: continue
                if ph.op != "phi" or ph.block.id != h: continue
                backv = [inc["v"] for inc in ph["incoming"] if inc["b"] in body]
                if len(backv) != 1 or backv[0]["k"] != "inst": continue
                bi = fn.imap[backv[0]["v"]]
                if bi.op != "lshr" or bi.ops[1]["k"] != "int" or not (bi.ops[0]["k"] == "inst" and bi.ops[0]["v"] == ph.id): continue
                k = int(bi.ops[1]["v"]); w = type_bits(ph["t"]) or 64
                if k <= 0: continue
                n = -(-w // k)
                return Poly.const(n - shifted)
        # (ii') shift loop with a threshold: continue while v > C, v >>= k
        if pred == "ugt" and b["k"] == "int" and a["k"] == "inst" and fn.imap[a["v"]].op == "phi" and fn.imap[a["v"]].block.id == h:
            ph = fn.imap[a["v"]]; C = int(b["v"])
            backv = [inc["v"] for inc in ph["incoming"] if inc["b"] in body]; outv = [inc["v"] for inc in ph["incoming"] if inc["b"] not in body]
            if len(backv) == 1 and len(outv) == 1 and backv[0]["k"] == "inst":
                bi = fn.imap[backv[0]["v"]]
                if bi.op == "lshr" and bi.ops[1]["k"] == "int" and bi.ops[0]["k"] == "inst" and bi.ops[0]["v"] == ph.id and int(bi.ops[1]["v"]) > 0:
                    k = int(bi.ops[1]["v"]); w = type_bits(ph["t"]) or 64; U = (1 << w) - 1
                    try:
                        u0 = self.ub(outv[0])
                        if u0.is_const() and 0 <= u0.c() < U: U = int(u0.c())
                    except Unbounded: pass
                    if U <= C: return Poly.const(0)
                    return Poly.const((U.bit_length() - 1 - ((C + 1).bit_length() - 1)) // k + 1)
        # (iii) decrement loop: continue while x >= B, x -= B
        if a["k"] == "inst" and fn.imap[a["v"]].op == "phi" and fn.imap[a["v"]].block.id == h:
            d = self.decrement_loop(fn.imap[a["v"]])
            if d is not None:
                e = self.exact(d[0]) if self.q else None
                return udiv_poly(e if e is not None else self.ub(d[0]), d[1])
        # (iv) count-down: continue while r > 0 / r != 0, r -= s (tested on the header phi, or after the decrement in a do/while)
        for (x, y, p) in ((a, b, pred), (b, a, {"ult": "ugt", "ugt": "ult", "ne": "ne", "uge": "ule", "ule": "uge"}.get(pred))):
            if p not in ("ugt", "ne", "uge") or y["k"] != "int" or x["k"] != "inst": continue
            if int(y["v"]) != (1 if p == "uge" else 0): continue
            xi = fn.imap[x["v"]]; after = False
            def dec_of(ii):
                if ii.op == "add" and ii.ops[1]["k"] == "int" and int(ii.ops[1]["sv"]) < 0 and ii.ops[0]["k"] == "inst": return fn.imap[ii.ops[0]["v"]], -int(ii.ops[1]["sv"])
                if ii.op == "sub" and ii.ops[1]["k"] == "int" and int(ii.ops[1]["sv"]) > 0 and ii.ops[0]["k"] == "inst": return fn.imap[ii.ops[0]["v"]], int(ii.ops[1]["sv"])
                return None, None
            ph = xi
            if xi.op != "phi":
                ph, s1 = dec_of(xi); after = True
                if ph is None: continue
            if ph.op != "phi" or ph.block.id != h: continue
            backv = [inc["v"] for inc in ph["incoming"] if inc["b"] in body]; outs = [inc for inc in ph["incoming"] if inc["b"] not in body]
            if len(backv) != 1 or len(outs) != 1 or backv[0]["k"] != "inst": continue
            bph, s0 = dec_of(fn.imap[backv[0]["v"]])
            if bph is not ph or s0 != 1: continue            # unit steps only: `!= 0` with a larger step can skip over zero
            if after and (s1 != 1 or xi.id != backv[0]["v"]): continue
            I0 = self.ub(outs[0]["v"])
            if not after: return I0                            # header test: r, r-1, ..., 1 pass
            # do/while (--r > 0): entered with r >= 1 (else the decrement wraps), then r-1, ..., 1 pass
            lo = self.iv.ival_at(outs[0]["v"], fn.bmap[outs[0]["b"]])[0][0]
            if lo < 1: raise Unbounded("count-down loop at block %d may be entered with a zero counter" % h)
            return I0 - Poly.const(1)
        # (i) counter: continue while i < N (step s > 0)
        flip = {"ult": "ugt", "ule": "uge", "ugt": "ult", "uge": "ule", "slt": "sgt", "sle": "sge", "sgt": "slt", "sge": "sle", "ne": "ne", "eq": "eq"}
        for (x, y, p) in ((a, b, pred), (b, a, flip[pred])):
            if p not in ("ult", "slt", "ule", "sle", "ne"): continue
            ph, s0 = self.counter(x, h, body)
            if ph is None: continue
            init = [inc["v"] for inc in ph["incoming"] if inc["b"] not in body][0]
            N = self.ub(y); I0 = self.lb(init)
            span = N - I0 + (Poly.const(1) if p in ("ule", "sle") else Poly.const(0))
            # a rotated loop (`if (i0 < n) do { ... } while (++i < n)`): the test sees the incremented value, so the back edge is taken once
            # less than the body runs - provided the guard in front of the loop makes the first iteration legitimate
            xs = x
            for _ in range(3):
                if xs["k"] == "inst" and fn.imap[xs["v"]].op in ("zext", "sext", "trunc"): xs = fn.imap[xs["v"]].ops[0]
            after = xs["k"] == "inst" and fn.imap[xs["v"]].op == "add" and s0 == 1 and p in ("ult", "slt", "ne")
            if after and self.entry_guarded(h, body, init, y, ci): span = span - Poly.const(1)
            if s0 == 1: return span
            return udiv_poly(span + Poly.const(s0 - 1), s0)
        raise Unbounded("exit test not understood")

    def entry_guarded(self, h, body, init, bound, ci):
        """the loop is only entered when init < bound (same bound operand as the latch test), by a branch that dominates the header"""
        fn = self.fn; fn.dom()
        same = lambda a, b: (a["k"], a.get("v")) == (b["k"], b.get("v"))
        def strip(o):
            for _ in range(3):
                if o["k"] == "inst" and fn.imap[o["v"]].op in ("zext", "sext", "trunc"): o = fn.imap[o["v"]].ops[0]
            return o
        for d in fn.dom_chain(h):
            if d == h: continue
            blk = fn.bmap[d]
            if len(blk.preds) != 1: continue
            t = blk.preds[0].term
            if t.op != "br" or len(t.ops) != 3 or t.ops[0]["k"] != "inst" or t.ops[1]["v"] == t.ops[2]["v"]: continue
            g = fn.imap[t.ops[0]["v"]]
            if g.op != "icmp": continue
            taken = t.ops[2]["v"] == d
            a, b = strip(g.ops[0]), strip(g.ops[1]); pr = g["pred"]
            if not taken: pr = {"ult": "uge", "ule": "ugt", "ugt": "ule", "uge": "ult", "slt": "sge", "sle": "sgt", "sgt": "sle", "sge": "slt", "eq": "ne", "ne": "eq"}[pr]
            i0, bd = strip(init), strip(bound)
            if pr in ("ult", "slt") and same(a, i0) and same(b, bd): return True
            if pr in ("ugt", "sgt") and same(b, i0) and same(a, bd): return True
            if i0["k"] == "int" and int(i0["v"]) == 0 and same(a, bd) and b["k"] == "int" and ((pr in ("ne", "ugt") and int(b["v"]) == 0) or (pr == "uge" and int(b["v"]) == 1)): return True
            if i0["k"] == "int" and b["k"] == "int" and same(a, bd) and pr == "ugt" and int(b["v"]) >= int(i0["v"]): return True
        return False

    def counter(self, o, h, body):
        """o is (a cast of) a header phi with constant positive step: returns (phi, step)"""
        fn = self.fn
        for _ in range(4):
            if o["k"] != "inst": return None, None
            i = fn.imap[o["v"]]
            if i.op in ("zext", "sext", "trunc"): o = i.ops[0]; continue
            break
        if o["k"] != "inst": return None, None
        i = fn.imap[o["v"]]
        if i.op == "add" and i.ops[1]["k"] == "int" and i.ops[0]["k"] == "inst":      # tested after the increment
            inner = fn.imap[i.ops[0]["v"]]
            if inner.op == "phi" and inner.block.id == h: i = inner
        if i.op != "phi" or i.block.id != h: return None, None
        back = [inc["v"] for inc in i["incoming"] if inc["b"] in body]; out = [inc for inc in i["incoming"] if inc["b"] not in body]
        if len(back) != 1 or len(out) != 1 or back[0]["k"] != "inst": return None, None
        bi = fn.imap[back[0]["v"]]
        for _ in range(3):
            if bi.op in ("zext", "sext", "trunc") and bi.ops[0]["k"] == "inst": bi = fn.imap[bi.ops[0]["v"]]
        if bi.op == "add" and bi.ops[1]["k"] == "int":
            src = bi.ops[0]
            for _ in range(3):
                if src["k"] == "inst" and fn.imap[src["v"]].op in ("zext", "sext", "trunc"): src = fn.imap[src["v"]].ops[0]
            if src["k"] == "inst" and src["v"] == i.id:
                s0 = int(bi.ops[1]["sv"])
                if s0 > 0: return i, s0
        return None, None

    def live_incoming(self, i):
        return [inc for inc in i["incoming"] if (inc["b"], i.block.id) not in self.dead and inc["b"] not in self.unreach]

    def guard_of_join(self, ph, incs):
        """two-way join governed by `x > 0` / `x != 0` / `x == 0`: returns (x operand, incoming taken when x > 0, incoming taken when x == 0)"""
        fn = self.fn; idom = fn.dom(); d = fn.bmap[idom[ph.block.id]]; t = d.term
        if t.op != "br" or len(t.ops) != 3 or t.ops[0]["k"] != "inst": return None
        ci = fn.imap[t.ops[0]["v"]]
        if ci.op != "icmp": return None
        # the guard as "a > b" (pos side) / "a <= b" (zero side), a and b operands or constants; x > 0, x != 0, x == 0 are the special case b = 0
        pr = ci["pred"]; A_, B_ = ci.ops; shift = 0; flipped = False
        if B_["k"] == "int" and int(B_["v"]) == 0 and pr in ("ugt", "ne", "eq"): pass
        elif pr in ("ugt", "sgt"): pass
        elif pr in ("uge", "sge") and B_["k"] == "int" and int(B_["sv"]) >= 1: shift = 1               # a >= K  <=>  a > K - 1
        elif pr in ("ult", "slt"): A_, B_ = B_, A_                                                     # a < b  <=>  b > a
        elif pr in ("ule", "sle"): flipped = True                                                      # a <= b: the false side is a > b
        else: return None
        tru, fls = t.ops[2]["v"], t.ops[1]["v"]
        if tru == fls: return None
        def via(inc):
            if inc["b"] == d.id: return tru if tru == ph.block.id else (fls if fls == ph.block.id else None)
            a = tru != ph.block.id and fn.dominates(tru, inc["b"]); b = fls != ph.block.id and fn.dominates(fls, inc["b"])
            return tru if a and not b else (fls if b and not a else None)
        v0, v1 = via(incs[0]), via(incs[1])
        if v0 is None or v1 is None or v0 == v1: return None
        pos_succ = fls if (ci["pred"] == "eq" or flipped) else tru
        pos = incs[0] if v0 == pos_succ else incs[1]; zero = incs[1] if pos is incs[0] else incs[0]
        return (A_, B_, shift), pos, zero

    def guard_excess(self, g):
        """exact polynomial of a - b (+ shift) for the guard `a > b` returned by guard_of_join, or None"""
        A_, B_, shift = g
        ea = Poly.const(int(A_["v"])) if A_["k"] == "int" else self.exact(A_)
        eb = Poly.const(int(B_["v"])) if B_["k"] == "int" else self.exact(B_)
        if ea is None or eb is None: return None
        return ea - eb + Poly.const(shift)

    def join(self, ph, incs, evalf):
        """upper bound of a non-loop phi; q-mode: base + [x > 0] * extra when one side only adds"""
        vals = [evalf(inc["v"]) for inc in incs]
        if self.q and len(incs) == 2 and vals[0] != vals[1]:
            g = self.guard_of_join(ph, incs)
            if g is not None:
                x, pos, zero = g
                pv = vals[0] if pos is incs[0] else vals[1]; zv = vals[1] if pos is incs[0] else vals[0]
                d = pv - zv
                saved = self.site; self.site = ph.block
                try: e = self.guard_excess(x)
                finally: self.site = saved
                if e is not None and d.nonneg_coeffs(): return zv + ind_poly(e) * d
                if e is not None and len(e.t) <= 2 and len([k for k in e.t if k != ()]) == 1:
                    # x = atom + c: on the positive side atom >= 1 - c.  If the difference, written over E = atom + c - 1 >= 0, has no negative
                    # coefficient it is non-negative and non-decreasing there (e.g. x = count - 1, difference 9*count - 9 = 9*(E + 1) - ... )
                    (ak,) = [k for k in e.t if k != ()]
                    if len(ak) == 1 and e.t[ak] == 1:
                        Y = ("tmpY",)
                        dy = d.subst(ak[0], Poly.atom(Y) - Poly.const(e.c()))
                        if dy.nonneg_coeffs() and all(Y in k for k in dy.t):
                            return zv + d                 # the difference is a multiple of x itself: it vanishes when x == 0, no case split needed
                        E = ("tmpE",)
                        d2 = d.subst(ak[0], Poly.atom(E) + Poly.const(1) - Poly.const(e.c()))
                        if d2.nonneg_coeffs(): return zv + ind_poly(e) * d
        out = None
        for v in vals: out = v if out is None else pmax(out, v)
        return out

    def block_loop(self, h):
        """`for (i = I0; i < N; i += B) { bs = (N - i < B) ? N - i : B; ... }` -> (bs instruction id, B, exact N - I0) or None"""
        cache = self.__dict__.setdefault("_blk", {})
        if h in cache: return cache[h]
        cache[h] = None
        fn = self.fn; body = self.loops[h]
        t = fn.bmap[h].term
        if t.op != "br" or len(t.ops) != 3 or t.ops[0]["k"] != "inst": return None
        ci = fn.imap[t.ops[0]["v"]]
        if ci.op != "icmp" or ci["pred"] not in ("ult", "slt") or (t.ops[2]["v"] not in body): return None
        ph, B = self.counter(ci.ops[0], h, body)
        if ph is None or B <= 1: return None
        for bid in body:                      # the header test is the only exit
            if bid != h and any(sx.id not in body for sx in fn.bmap[bid].succs): return None
        N = ci.ops[1]; init = [inc["v"] for inc in ph["incoming"] if inc["b"] not in body][0]
        saved = self.site; self.site = fn.bmap[h]
        try: eN = self.exact(N); eI = self.exact(init)
        finally: self.site = saved
        if eN is None or eI is None: return None
        same = lambda a, b: (a["k"], a.get("v")) == (b["k"], b.get("v"))
        def is_rest(o):
            o = self.strip(o)
            if o["k"] != "inst": return False
            si = fn.imap[o["v"]]
            return si.op == "sub" and same(self.strip(si.ops[0]), self.strip(N)) and same(self.strip(si.ops[1]), {"k": "inst", "v": ph.id})
        for bid in body:
            for m in fn.bmap[bid].insts:
                if m.op == "phi" and len(m["incoming"]) == 2: ops = [inc["v"] for inc in m["incoming"]]
                elif m.op == "select": ops = [m.ops[1], m.ops[2]]
                else: continue
                rest = [o for o in ops if is_rest(o)]; cst = [o for o in ops if o["k"] == "int" and int(o["v"]) == B]
                if len(rest) == 1 and len(cst) == 1:
                    cache[h] = (m.id, B, eN - eI); return cache[h]
        return None

    def strip(self, o):
        while o["k"] == "inst" and self.fn.imap[o["v"]].op in ("zext", "sext", "trunc", "freeze"): o = self.fn.imap[o["v"]].ops[0]
        return o

    def pinned(self, bs_id, lo, hi, poly, thunk):
        """evaluate thunk() with the block size pinned to [lo, hi] (upper bound `poly`); branches decided by the pin are pruned"""
        fn = self.fn
        iv = Intervals(fn, None, self.fi); iv.memo[bs_id] = (lo, hi)
        dead = iv.dead_edges()
        reach = set(); work = [fn.entry]
        while work:
            b = work.pop()
            if b.id in reach: continue
            reach.add(b.id)
            for sx in b.succs:
                if (b.id, sx.id) not in dead: work.append(sx)
        saved = (self.iv, self.dead, self.unreach, dict(self.sub))
        self.iv = iv; self.dead = dead; self.unreach = {b.id for b in fn.blocks} - reach; self.sub[bs_id] = poly
        try: return thunk()
        finally: self.iv, self.dead, self.unreach, self.sub = saved

    def loop_total(self, i, init, advance, in_body):
        """init + (number of iterations before the use) * advance-per-iteration for the header phi i of loop h.
        advance(): bound of (back value - placeholder) under the current pins."""
        h = i.block.id
        blk = self.block_loop(h) if self.q else None
        if blk is None:
            adv = advance()
            if adv.is_const() and adv.c() <= 0: return init
            if not adv.nonneg_coeffs(): raise Unbounded("advance with negative terms")
            return init + self.trips(h) * adv
        bs_id, B, span = blk
        q = udiv_poly(span, B); rho = urem_poly(span, B)
        full = self.pinned(bs_id, B, B, Poly.const(B), advance)
        case = self.block_case.get(h)
        if in_body and case == "full": return init + (q - Poly.const(1)) * full          # an earlier iteration: all before it are full
        if in_body and case == "part": return init + q * full                             # the last, partial iteration
        part = self.pinned(bs_id, 1, B - 1, rho, advance)
        return init + q * full + ind_poly(rho) * part

    def phi_ub(self, i):
        fn = self.fn; h = i.block.id
        if h in self.loops and any(inc["b"] in self.loops[h] for inc in i["incoming"]):
            body = self.loops[h]
            if self.q and self.outside(h):
                d = self.decrement_loop(i)
                if d is not None:
                    e = self.exact(d[0])
                    return urem_poly(e, d[1]) if e is not None else Poly.const(d[1] - 1)
            init = None
            for inc in i["incoming"]:
                if inc["b"] not in body:
                    p = self.ub(inc["v"]); init = p if init is None else pmax(init, p)
            if init is None: raise Unbounded("loop phi without an entry value")
            # largest advance in one iteration: bound of the back value with this phi := placeholder P, minus P
            P = Poly.atom(("phi", i.id))
            def advance():
                adv = None
                saved = dict(self.sub); self.sub[i.id] = P; ctx = (self.H, self.site, self.memo)
                try:
                    for inc in i["incoming"]:
                        if inc["b"] in body:
                            self.at(fn.bmap[inc["b"]])          # the back value is taken at the latch, not at the use site
                            b = self.ub(inc["v"])
                            d = b - P
                            if ("phi", i.id) in d.atoms(): raise Unbounded("loop value grows non-additively (line %s)" % i.line)
                            adv = d if adv is None else pmax(adv, d)
                finally:
                    self.sub = saved; self.H, self.site, self.memo = ctx
                return adv
            return self.loop_total(i, init, advance, self.site is not None and self.site.id in body and self.site.id != h)
        return self.join(i, self.live_incoming(i), self.ub)

    # ---- pointers: (root, upper bound of the byte offset) ----
    def ptr_ub(self, o):
        fn = self.fn
        if o["k"] == "arg": return ("arg", o["v"]), Poly.const(0)
        if o["k"] != "inst": raise Unbounded("pointer operand %r" % (o,))
        if o["v"] in self.sub: return self.subroot[o["v"]], self.sub[o["v"]]
        key = ("p", o["v"])
        if not self.sub and key in self.memo: return self.memo[key]
        bk = key + (tuple(sorted(self.sub)),)
        if bk in self.busy: raise Unbounded("cyclic pointer")
        self.busy.add(bk)
        try: r = self._ptr_ub(fn.imap[o["v"]])
        finally: self.busy.discard(bk)
        if not self.sub: self.memo[key] = r
        return r

    subroot = {}

    def _ptr_ub(self, i):
        fn = self.fn
        if i.op in ("bitcast",): return self.ptr_ub(i.ops[0])
        if i.op == "alloca": return ("alloca", i.id), Poly.const(0)
        if i.op == "getelementptr":
            root, off = self.ptr_ub(i.ops[0])
            off = off + Poly.const(i["coff"])
            for v in i["var"]:
                off = off + self.ub(v["idx"]) * Poly.const(v["stride"])
            return root, off
        if i.op == "phi":
            h = i.block.id
            if h in self.loops and any(inc["b"] in self.loops[h] for inc in i["incoming"]):
                body = self.loops[h]; root = None; init = None
                for inc in i["incoming"]:
                    if inc["b"] not in body:
                        r, p = self.ptr_ub(inc["v"]); root = r; init = p if init is None else pmax(init, p)
                P = Poly.atom(("phi", i.id))
                def advance():
                    adv = None
                    saved = dict(self.sub); savedroot = dict(self.subroot); ctx = (self.H, self.site, self.memo)
                    self.sub[i.id] = P; self.subroot = dict(self.subroot); self.subroot[i.id] = root
                    try:
                        for inc in i["incoming"]:
                            if inc["b"] in body:
                                self.at(self.fn.bmap[inc["b"]])
                                r2, b = self.ptr_ub(inc["v"])
                                d = b - P
                                if ("phi", i.id) in d.atoms(): raise Unbounded("pointer grows non-additively")
                                adv = d if adv is None else pmax(adv, d)
                    finally:
                        self.sub = saved; self.subroot = savedroot; self.H, self.site, self.memo = ctx
                    return adv
                return root, self.loop_total(i, init, advance, self.site is not None and self.site.id in body and self.site.id != h)
            root = None
            live = [inc for inc in self.live_incoming(i) if inc["v"]["k"] != "null"]
            def ev(o):
                nonlocal root
                r, p = self.ptr_ub(o); root = r; return p
            return root, self.join(i, live, ev)
        if i.op == "select":
            r, a = self.ptr_ub(i.ops[1]); r2, b = self.ptr_ub(i.ops[2]); return r, pmax(a, b)
        if i.op == "load":
            src = self.fi.load_source(i)
            if src is not None: return self.ptr_ub(src)
        raise Unbounded("pointer from %s at line %s" % (i.op, i.line))


    def bit_cursor(self, i):
        """floor(X/c) + floor((Y + X mod c)/c)  ==  floor((X + Y)/c): the byte index of bit X + Y written through a (byte, bit-in-byte) pair"""
        fn = self.fn
        def inst(o):
            o = self.strip(o)
            return fn.imap[o["v"]] if o["k"] == "inst" else None
        def cdiv(x):
            if x is None: return None
            if x.op == "udiv" and x.ops[1]["k"] == "int": return int(x.ops[1]["v"])
            if x.op == "lshr" and x.ops[1]["k"] == "int": return 1 << int(x.ops[1]["v"])
            return None
        for a, b in ((inst(i.ops[0]), inst(i.ops[1])), (inst(i.ops[1]), inst(i.ops[0]))):
            c = cdiv(a)
            if c is None or cdiv(b) != c: continue
            X = self.strip(a.ops[0]); inner = inst(b.ops[0])
            if inner is None or inner.op != "add": continue
            for y, r in ((inner.ops[0], inst(inner.ops[1])), (inner.ops[1], inst(inner.ops[0]))):
                if r is None: continue
                isrem = (r.op == "urem" and r.ops[1]["k"] == "int" and int(r.ops[1]["v"]) == c) or (r.op == "and" and r.ops[1]["k"] == "int" and int(r.ops[1]["v"]) == c - 1)
                if not isrem: continue
                rx = self.strip(r.ops[0])
                if (rx["k"], rx.get("v")) != (X["k"], X.get("v")): continue
                return udiv_poly(self.ub(X) + self.ub(y), c)
        return None

    def tight(self, o):
        """the exact value when it is expressible (q-mode), else an upper bound"""
        if self.q:
            e = self.exact(o)
            if e is not None: return e
        return self.ub(o)

    def root_of(self, o, seen=None):
        """base object of a pointer through casts, geps, selects and (cyclic) phis: ('arg', k) / ('alloca', id) / None when mixed or unknown"""
        seen = seen if seen is not None else set()
        if o["k"] == "arg": return ("arg", o["v"])
        if o["k"] != "inst": return None
        if o["v"] in seen: return "cycle"
        seen.add(o["v"])
        i = self.fn.imap[o["v"]]
        if i.op in ("bitcast", "getelementptr"): return self.root_of(i.ops[0], seen)
        if i.op == "alloca": return ("alloca", i.id)
        if i.op in ("phi", "select"):
            ops = [inc["v"] for inc in i["incoming"]] if i.op == "phi" else [i.ops[1], i.ops[2]]
            rs = {self.root_of(x, seen) for x in ops if x["k"] != "null"} - {"cycle"}
            if not rs: return "cycle"
            return next(iter(rs)) if len(rs) == 1 else None
        if i.op == "load":
            src = self.fi.load_source(i)
            if src is not None: return self.root_of(src, seen)
        return None

    # ---- memory-carried counters (a cursor kept in a struct field, e.g. the bit position of a writer object) ----
    def is_cell(self, p, root, off):
        if self.root_of(p) != root: return False
        try: o = self.ptr_ub(p)[1]
        except Unbounded: return False
        return o.is_const() and o.c() == off

    def execs(self, b):
        """upper bound of the number of times block b executes per call of this function"""
        ctx = (self.H, self.site, self.memo); self.at(b); n = Poly.const(1)
        try:
            for h, body in self.loops.items():
                if b.id in body:
                    be = self.backedges(h)
                    n = n * (be if (h in self.H or b.id == h and False) else be + Poly.const(1))
        finally:
            self.H, self.site, self.memo = ctx
        return n

    def cell_effect(self, root, off):
        """what this function does to the integer cell at (root, off): ([values it may be set to], total it may be increased by)"""
        key = ("cell", root, off)
        if key in self.memo: return self.memo[key]
        fn = self.fn; sets = []; add = Poly()
        def loads_cell(o, depth=0):
            if o["k"] != "inst" or depth > 8: return False
            x = fn.imap[o["v"]]
            if x.op == "load": return self.is_cell(x.ops[0], root, off)
            if x.op == "phi": return any(loads_cell(inc["v"], depth + 1) for inc in x["incoming"])
            return any(loads_cell(y, depth + 1) for y in x.ops if y["k"] == "inst")
        for b in fn.blocks:
            for i in b.insts:
                if i.op == "store" and self.is_cell(i.ops[1], root, off):
                    v = self.strip(i.ops[0])
                    vi = fn.imap[v["v"]] if v["k"] == "inst" else None
                    if vi is not None and vi.op == "add":
                        a0, a1 = self.strip(vi.ops[0]), self.strip(vi.ops[1])
                        l0 = a0["k"] == "inst" and fn.imap[a0["v"]].op == "load" and self.is_cell(fn.imap[a0["v"]].ops[0], root, off)
                        l1 = a1["k"] == "inst" and fn.imap[a1["v"]].op == "load" and self.is_cell(fn.imap[a1["v"]].ops[0], root, off)
                        if l0 != l1:
                            x = vi.ops[1] if l0 else vi.ops[0]
                            if loads_cell(x): raise Unbounded("cell updated non-additively at line %s" % i.line)
                            self.at(b); add = add + self.execs(b) * self.ub(x); continue
                    if loads_cell(i.ops[0]): raise Unbounded("cell updated non-additively at line %s" % i.line)
                    self.at(b); sets.append(self.ub(i.ops[0]))
                elif i.op == "call":
                    c = i.get("callee") or ""
                    if c.startswith("llvm.") and not c.startswith(("llvm.memset", "llvm.memcpy", "llvm.memmove")): continue
                    for k in range(i["nargs"]):
                        a = i.ops[k]
                        if not a["t"].endswith("*") or self.root_of(a) != root: continue
                        if c.startswith("llvm.mem"):
                            if k == 0: raise Unbounded("cell's object overwritten by %s at line %s" % (c, i.line))
                            continue
                        po = self.ptr_ub(a)[1]
                        if not (po.is_const() and po.c() == 0): raise Unbounded("interior pointer of the tracked object passed to %s" % c)
                        g = self.mod.fn(c)
                        if g is None or g.decl:
                            sm = self.w.pts.summ.get(c)
                            if sm is not None and not any(m[0] == "arg" and m[1] == k for m in sm.mod if isinstance(m, tuple)): continue
                            raise Unbounded("tracked object passed to external %s" % c)
                        if self.depth >= 4: raise Unbounded("call depth")
                        sub = UB(self.w, g, depth=self.depth + 1)
                        self.at(b)
                        for j in range(i["nargs"]):
                            if not i.ops[j]["t"].endswith("*"):
                                try: sub.arg_poly[j] = self.ub(i.ops[j])
                                except Unbounded: pass
                        s2, a2 = sub.cell_effect(("arg", k), off)
                        sets += s2
                        if a2.t: add = add + self.execs(b) * a2
        self.at(fn.entry)
        self.memo[key] = (sets, add)
        return sets, add

    def cell_total(self, root, off):
        sets, add = self.cell_effect(root, off)
        if not sets: raise Unbounded("the counter at offset %s of %s is never initialised in %s" % (off, root, self.fn.name))
        m = sets[0]
        for x in sets[1:]: m = pmax(m, x)
        return m + add

    # ---- write extents ----
    def cases_at(self, b, thunk):
        """[(bound, condition)] of thunk() evaluated at block b; inside a block loop once per kind of iteration (full / last partial).
        condition: None, or a polynomial that must be > 0 for the case to occur"""
        self.at(b)
        if self.q:
            for h, body in self.loops.items():
                if b.id in body and b.id != h and h in self.H:
                    blk = self.block_loop(h)
                    if blk is None: continue
                    bs_id, B, span = blk; rho = urem_poly(span, B); out = []
                    for case, lo, hi, poly, cond in (("full", B, B, Poly.const(B), udiv_poly(span, B)), ("part", 1, B - 1, rho, rho)):
                        self.block_case[h] = case
                        try: out.append((self.pinned(bs_id, lo, hi, poly, thunk), cond))
                        finally: self.block_case.pop(h, None)
                    return out
        return [(thunk(), None)]

    def extent(self, B, root, depth=0, indirect=None):
        """upper bounds of offset + size over every write this function makes through `root`: ([(Poly, condition)], number of sites)"""
        from .bounds import MEM_INTR
        from .core import ALLOC_FUNCS
        fn = self.fn; fi = self.fi; worst = []; n = 0          # worst: the maximal bounds seen (pairwise incomparable, per condition)
        live = B.live_blocks(fn)
        def note(cs):
            nonlocal worst, n
            n += 1
            for p, cond in cs:
                ck = None if cond is None else cond.key()
                if any(c2 == ck and (q - p).nonneg_coeffs() for q, c2, _ in worst): continue
                worst = [(q, c2, cd) for q, c2, cd in worst if not (c2 == ck and (p - q).nonneg_coeffs())] + [(p, ck, cond)]
        for b in fn.blocks:
            if b.id not in live or b.id in self.unreach: continue
            for i in b.insts:
                if i.op == "store":
                    if self.root_of(i.ops[1]) != root: continue
                    note(self.cases_at(b, lambda: self.ptr_ub(i.ops[1])[1] + Poly.const(i["size"])))
                elif i.op == "call":
                    c = i.get("callee")
                    if c and c.startswith(MEM_INTR):
                        if self.root_of(i.ops[0]) != root: continue
                        note(self.cases_at(b, lambda: self.ptr_ub(i.ops[0])[1] + self.tight(i.ops[2])))
                    elif c and (c.startswith("llvm.") or c in ALLOC_FUNCS or c == "free"): continue
                    else:
                        for k in range(i["nargs"]):
                            a = i.ops[k]
                            if not a["t"].endswith("*"): continue
                            if self.root_of(a) != root:
                                if B.indirect_access(fn, i, k, root, "w"):
                                    if indirect is None: raise Unbounded("%s writes the output through a pointer kept in a local object (line %s)" % (c, i.line))
                                    indirect.append((c, i.line))
                                continue
                            w = B.summary(c, k, "w") if c else ("inf", "indirect call")
                            if w[0] == "none": continue
                            def callsite():
                                cands = []; callee_max = None
                                if self.roles and k == 0:
                                    from . import sizeterms as ST
                                    vals = [i.ops[n] for n in range(i["nargs"]) if not i.ops[n]["t"].endswith("*")]
                                    if len(vals) == 1 and self.mod.fn(c) is not None and ST.length_table(self.mod, c)[0] != "name":
                                        return [self.ptr_ub(a)[1] + self.ub({"k": "inst", "v": i.id, "t": i["t"]})]       # footprint == returned length (C01-L3)
                                for alt in (w[1] if w[0] == "alts" else [w]):
                                    if alt[0] == "const": cands.append(Poly.const(alt[1]))
                                    elif alt[0] == "arg":
                                        try: cands.append(self.tight(i.ops[alt[1]]) * Poly.const(alt[2]))
                                        except Unbounded: pass
                                g = self.mod.fn(c) if c else None
                                if g is not None and not g.decl and k == 0:
                                    # a scalar encoder with an extracted length table writes exactly the bytes it reports (C01-L3): at most the longest entry
                                    from . import sizeterms as ST
                                    vals = [i.ops[n] for n in range(i["nargs"]) if not i.ops[n]["t"].endswith("*")]
                                    if len(vals) == 1:
                                        tab = ST.length_table(self.mod, c)
                                        if tab and tab[0] != "name": cands.append(Poly.const(max(ln for (_a, _b, ln) in tab)))
                                if g is not None and not g.decl and depth < 3:
                                    try:
                                        sub = UB(self.w, g, depth=self.depth + 1)
                                        for j in range(i["nargs"]):
                                            if not i.ops[j]["t"].endswith("*"):
                                                try: sub.arg_poly[j] = self.ub(i.ops[j])
                                                except Unbounded: pass
                                        sub.q = self.q
                                        if self.roles:
                                            sub.roles = True
                                            if self.pins: sub.pin_fields(self.pins)
                                        e, _ = sub.extent(B, ("arg", k), depth + 1)
                                        if e: callee_max = [q for q, _c in e]
                                    except Unbounded: pass
                                base = self.ptr_ub(a)[1]
                                best = cands[0] if cands else None
                                for cnd in cands[1:]:
                                    if (best - cnd).nonneg_coeffs(): best = cnd
                                if callee_max is not None:
                                    # the callee's own maxima (each must be covered), unless the best closed-form summary is at most all of them
                                    if best is not None and all((q - best).nonneg_coeffs() for q in callee_max): return [base + best]
                                    return [base + q for q in callee_max]
                                if best is None: raise Unbounded("extent of %s through its argument %d (line %s): %s" % (c, k, i.line, w[1] if w[0] == "inf" else w))
                                return [base + best]
                            for alt_i in range(8):
                                got = self.cases_at(b, lambda: (lambda r: r[alt_i] if alt_i < len(r) else None)(callsite()))
                                got = [(p_, c_) for p_, c_ in got if p_ is not None]
                                if not got: break
                                note(got)
        self.at(fn.entry)
        return [(p, cd) for p, _k, cd in worst], n


def residue_eval(p, n_atom, M, r, qpos):
    """value of p for n = M*q + r as a polynomial in the atom ("q",) - with q = 1 + q' (q' >= 0) when qpos, q = 0 otherwise.
    div / mod / indicator atoms over n are evaluated; other atoms are kept.  Raises Unbounded when a division does not come out even."""
    Q = Poly.atom(("q",))
    nval = (Poly.const(M) * (Q + Poly.const(1)) + Poly.const(r)) if qpos else Poly.const(r)
    def lin(e):
        """(a, b) with e == a*q' + b, or None"""
        if any(k not in ((), (("q",),)) for k in e.t): return None
        return e.t.get((("q",),), Fraction(0)), e.t.get((), Fraction(0))
    def ev_atom(a):
        if a == n_atom: return nval
        if isinstance(a, tuple) and a[0] in ("udiv", "urem", "ind"):
            inner = ev(poly_of_key(a[1])); ab = lin(inner)
            if ab is None: return Poly.atom(a)          # depends on other quantities too: kept as an opaque non-negative atom
            aa, bb = ab
            if a[0] == "ind":
                if aa == 0: return Poly.const(1 if bb > 0 else 0)
                if aa > 0 and bb > 0: return Poly.const(1)
                raise Unbounded("residue evaluation: sign of %r is not fixed" % inner)
            c = a[2]
            if aa.denominator != 1 or bb.denominator != 1 or int(aa) % c != 0: raise Unbounded("residue evaluation: %r is not divisible by %d" % (inner, c))
            if a[0] == "udiv": return Q * Poly.const(int(aa) // c) + Poly.const(int(bb) // c)
            return Poly.const(int(bb) % c)
        return Poly.atom(a)
    def ev(e):
        out = Poly()
        for k, v in e.t.items():
            term = Poly.const(v)
            for x in k: term = term * ev_atom(x)
            out = out + term
        return out
    return ev(p)
