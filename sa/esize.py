"""E-SIZE - symbolic upper bounds of output cursors versus sizing functions (DESIGN 3).

Values are bounded from above by *polynomials with non-negative atoms*: integer parameters, results of side-effect-free callees
that cannot be bounded by a constant (kept as uninterpreted atoms so that the same sub-expression on the sizing side cancels),
and floor divisions  udiv(P, c)  of such polynomials (monotone in P).  A loop-carried value is bounded by
    init + (number of back-edges) * (largest advance in one iteration)
with back-edge counts from canonical counters (i < N step s) and from shift loops (v >>= k until 0).  Nothing is executed."""
from fractions import Fraction
from .ir import type_bits
from .ival import Intervals, INF, const_return


class Unbounded(Exception): pass


class Poly:
    __slots__ = ("t",)
    def __init__(self, t=None): self.t = {k: v for k, v in (t or {}).items() if v != 0}
    @staticmethod
    def const(c): return Poly({(): Fraction(c)})
    @staticmethod
    def atom(a): return Poly({(a,): Fraction(1)})
    def __add__(self, o):
        o = o if isinstance(o, Poly) else Poly.const(o)
        t = dict(self.t)
        for k, v in o.t.items(): t[k] = t.get(k, 0) + v
        return Poly(t)
    def __neg__(self): return Poly({k: -v for k, v in self.t.items()})
    def __sub__(self, o): return self + (-(o if isinstance(o, Poly) else Poly.const(o)))
    def __mul__(self, o):
        o = o if isinstance(o, Poly) else Poly.const(o)
        t = {}
        for k1, v1 in self.t.items():
            for k2, v2 in o.t.items():
                k = tuple(sorted(k1 + k2, key=repr)); t[k] = t.get(k, 0) + v1 * v2
        return Poly(t)
    def is_const(self): return all(k == () for k in self.t)
    def c(self): return self.t.get((), Fraction(0))
    def key(self): return tuple(sorted(((k, (v.numerator, v.denominator)) for k, v in self.t.items()), key=repr))
    def nonneg_coeffs(self): return all(v >= 0 for v in self.t.values())
    def atoms(self):
        s = set()
        for k in self.t: s |= set(k)
        return s
    def subst(self, a, p):
        out = Poly()
        for k, v in self.t.items():
            term = Poly.const(v)
            for x in k: term = term * (p if x == a else Poly.atom(x))
            out = out + term
        return out
    def __eq__(self, o): return isinstance(o, Poly) and self.key() == o.key()
    def __hash__(self): return hash(self.key())
    def __repr__(self):
        if not self.t: return "0"
        parts = []
        for k, v in sorted(self.t.items(), key=lambda kv: repr(kv[0])):
            mon = "*".join(fmt_atom(a) for a in k)
            cs = str(v) if v.denominator != 1 else str(v.numerator)
            parts.append(cs if not mon else (mon if v == 1 else cs + "*" + mon))
        return " + ".join(parts)


def fmt_atom(a):
    if isinstance(a, tuple) and a[0] == "arg": return a[2] if len(a) > 2 else "arg%d" % a[1]
    if isinstance(a, tuple) and a[0] == "udiv": return "floor((%s)/%d)" % (a[3] if len(a) > 3 else "...", a[2])
    if isinstance(a, tuple) and a[0] == "call": return "%s(..)" % a[1]
    if isinstance(a, tuple) and a[0] == "q": return "/".join(a[1:])
    if isinstance(a, tuple) and a[0] == "len": return "len%x(%s)" % (a[1], a[2])
    return repr(a)


def udiv_poly(p, c):
    """floor(p / c) as a polynomial atom (exact when p is constant)"""
    if p.is_const(): return Poly.const(int(p.c()) // c) if p.c().denominator == 1 else Poly.const(p.c() / c)
    return Poly.atom(("udiv", p.key(), c, repr(p)))


def pmax(a, b):
    """an upper bound of max(a, b) for polynomials with non-negative atoms"""
    d = a - b
    if d.nonneg_coeffs(): return a
    if (-d).nonneg_coeffs(): return b
    # incomparable: a + b bounds both when both are non-negative
    if a.nonneg_coeffs() and b.nonneg_coeffs(): return a + b
    raise Unbounded("incomparable bounds %r / %r" % (a, b))


class UB:
    def __init__(self, world, fn, arg_names=None, depth=0):
        self.w = world; self.fn = fn; self.mod = fn.mod; self.fi = world.fi(fn).prepare()
        self.memo = {}; self.busy = set(); self.depth = depth
        self.iv = Intervals(fn, None, self.fi)
        self.loops = fn.loops(); fn.dom()
        self.sub = {}                # phi id -> placeholder polynomial while computing a loop advance
        self.arg_role = {}           # k -> role name of the actual (sibling mode, when analysing a helper in its caller's context)
        self.roles = False           # sibling mode: length calls and loads become atoms named by table / role (sa/sizeterms.py)
        self.H = frozenset()         # loop headers whose continuation test the current use site has already passed
        self.memos = {frozenset(): self.memo}; self.be_test = {}
        self.arg_poly = {}           # k -> Poly (actuals when analysing a callee in context)

    def arg_atom(self, k): return ("arg", k, self.fn.argnames.get(k, "arg%d" % k))

    def at(self, block):
        """evaluate subsequent bounds as seen from `block`: inside a loop body, after the continuation test that bounds the trip
        count, a loop-carried value has taken at most (trips - 1) back edges"""
        H = set()
        for h, body in self.loops.items():
            if block.id in body and block.id != h:
                try: self.backedges(h)
                except Unbounded: continue
                tb, stay = self.be_test.get(h, (None, None))
                if stay is None: continue
                sb = self.fn.bmap[stay]
                if [p.id for p in sb.preds] == [tb] and self.fn.dominates(stay, block.id): H.add(h)
        self.H = frozenset(H); self.memo = self.memos.setdefault(self.H, {})
        return self

    def trips(self, h):
        b = self.backedges(h)
        if h in self.H:
            b1 = b - Poly.const(1)
            # (trips - 1) is only used as a multiplier of a non-negative advance; never let it go below zero for constants
            if b1.is_const() and b1.c() < 0: return Poly.const(0)
            return b1
        return b

    # ---- upper bound of an integer value ----
    def ub(self, o):
        k = o["k"]
        if k == "int": return Poly.const(int(o["v"]))
        if k == "null": return Poly.const(0)
        if k == "arg":
            if o["v"] in self.arg_poly: return self.arg_poly[o["v"]]
            if self.roles: return Poly.atom(("q", self.fn.argnames.get(o["v"], "arg%d" % o["v"])))
            return Poly.atom(self.arg_atom(o["v"]))
        if k == "undef": return Poly.const(0)
        if k != "inst": raise Unbounded("operand %r" % (o,))
        vid = o["v"]
        if vid in self.sub: return self.sub[vid]
        if vid in self.memo: return self.memo[vid]
        if vid in self.busy: raise Unbounded("cyclic dependency at %%%s" % vid)
        self.busy.add(vid)
        try:
            r = self._ub(self.fn.imap[vid])
        finally:
            self.busy.discard(vid)
        if not self.sub: self.memo[vid] = r
        return r

    def const_ub(self, o):
        a = self.iv.ival(o)
        return None if a[1] == INF else int(a[1])

    def lb(self, o):
        """a lower bound (constant, or the exact polynomial when the value is an exact affine function of parameters)"""
        if o["k"] == "int": return Poly.const(int(o["v"]))
        if o["k"] == "arg": return self.ub(o)
        a = self.iv.ival(o)
        return Poly.const(max(0, int(a[0])) if a[0] != -INF else 0)

    def _ub(self, i):
        op = i.op; bits = type_bits(i["t"]) or 64
        cu = self.const_ub({"k": "inst", "v": i.id, "t": i["t"]}) if op not in ("phi",) else None
        tmax = (1 << bits) - 1
        def best(p):
            # prefer a constant bound when interval evaluation has a strictly smaller one
            if cu is not None and cu < tmax and not p.is_const(): return p
            if cu is not None and p.is_const() and cu < p.c(): return Poly.const(cu)
            return p
        A = lambda n: self.ub(i.ops[n])
        if op in ("zext", "sext", "freeze", "bitcast"): return best(A(0))
        if op == "trunc":
            a = A(0)
            if a.is_const() and a.c() > tmax: return Poly.const(tmax)
            return best(a)
        if op == "add": return best(A(0) + A(1))
        if op == "sub": return best(A(0) - self.lb(i.ops[1]))
        if op == "mul":
            a, b = A(0), A(1)
            # true values are non-negative (unsigned sizes and counts), so x <= a and y <= b give x*y <= a*b pointwise
            return best(a * b)
        if op == "shl":
            b = self.iv.ival(i.ops[1])
            if b[0] == b[1] and b[0] != INF: return best(A(0) * Poly.const(1 << int(b[0])))
            if cu is not None: return Poly.const(cu)
            raise Unbounded("shl by a variable amount")
        if op in ("udiv", "lshr"):
            b = self.iv.ival(i.ops[1])
            if b[0] == b[1] and b[0] not in (INF, 0) or (op == "lshr" and b[0] == b[1] and b[0] != INF):
                c = int(b[0]) if op == "udiv" else (1 << int(b[0]))
                return best(udiv_poly(A(0), c))
            return best(A(0))
        if op == "urem":
            b = self.const_ub(i.ops[1])
            if b is not None and b > 0: return Poly.const(b - 1)
            return A(0)
        if op == "and":
            cands = []
            for n in (0, 1):
                c = self.const_ub(i.ops[n])
                if c is not None: cands.append(Poly.const(c))
            if cands: return min(cands, key=lambda p: p.c())
            return A(0)
        if op in ("or", "xor"):
            if cu is not None: return Poly.const(cu)
            return A(0) + A(1)
        if op == "select": return pmax(A(1), A(2))
        if op == "icmp": return Poly.const(1)
        if op == "load" and self.roles:
            from . import sizeterms as ST
            r = ST.role(self.fn, self.mod, {"k": "inst", "v": i.id, "t": i["t"]})
            if r[0] in ("field", "param"): return Poly.atom(("q", r[1]))
            if r[0] in ("elem", "elem-of", "member"): return Poly.atom(("q",) + tuple(map(str, r)))
        if op == "call" and self.roles:
            from . import sizeterms as ST
            c = i.get("callee") or ""
            vals = [i.ops[k] for k in range(i["nargs"]) if not i.ops[k]["t"].endswith("*")]
            if len(vals) == 1 and self.mod.fn(c) is not None:
                tab = ST.length_table(self.mod, c)
                if tab[0] != "name":
                    r = ST.role(self.fn, self.mod, vals[0])
                    if r[0] in ("const", "const-max"):
                        v = (1 << 64) - 1 if r[0] == "const-max" else r[1]
                        return Poly.const(next(ln for (a, b, ln) in tab if a <= v <= b))
                    name = r[1] if r[0] in ("field", "param") else "/".join(map(str, r))
                    if r[0] == "param":
                        pk = next((k for k, n in self.fn.argnames.items() if n == r[1]), None)
                        if pk in self.arg_role: name = self.arg_role[pk]
                    return Poly.atom(("len", hash(tab) & 0xffff, name))
        if op == "load":
            src = self.fi.load_source(i)
            if src is not None and not src["t"].endswith("*"): return self.ub(src)
            tok = self.fi.load_atom.get(i.id)
            if tok is not None and tok[0] == "cv":
                c = self.fn.imap[tok[1]]; k, ai, aj = self.w.outvals()[c["callee"]]
                return self.ub(c.ops[ai]) * self.ub(c.ops[aj])
            if tok is not None and tok[0] == "entry":
                return Poly.atom(("field",) + tuple(tok[1][0]) + (tok[1][1], tok[1][2]))
            if bits < 64: return Poly.const(tmax)
            raise Unbounded("load of an unknown 64-bit value at line %s" % i.line)
        if op == "call": return self.call_ub(i)
        if op == "phi": return self.phi_ub(i)
        if op == "extractvalue" and cu is not None: return Poly.const(cu)
        if op == "ptrtoint":
            return self.ptr_ub(i.ops[0])[1]
        if cu is not None and cu < tmax: return Poly.const(cu)
        raise Unbounded("%s at line %s" % (op, i.line))

    # ---- calls ----
    def call_ub(self, i):
        c = i.get("callee")
        cr = const_return(self.mod, c)
        if cr is not None: return Poly.const(cr)
        g = self.mod.fn(c) if c else None
        if g is None: raise Unbounded("call to %s" % c)
        if self.roles and not g.decl and self.depth < 3:
            from . import sizeterms as ST
            sub = UB(self.w, g, depth=self.depth + 1); sub.roles = True
            for k in range(i["nargs"]):
                if i.ops[k]["t"].endswith("*"): continue
                sub.arg_poly[k] = self.ub(i.ops[k])
                r = ST.role(self.fn, self.mod, i.ops[k])
                sub.arg_role[k] = r[1] if r[0] in ("field", "param") else "/".join(map(str, r))
            r = None
            for rt in g.rets():
                if not rt.ops: continue
                v = rt.ops[0]; cands = [v]
                if v["k"] == "inst" and g.imap[v["v"]].op == "phi" and g.imap[v["v"]].block is rt.block: cands = [inc["v"] for inc in g.imap[v["v"]]["incoming"]]
                for cv in cands:
                    p = sub.ub(cv); r = p if r is None else pmax(r, p)
            if r is not None: return r
        key = ("ret", c)
        cache = self.w.__dict__.setdefault("_esize_ret", {})
        if key not in cache:
            cache[key] = None
            if self.depth < 4:
                try:
                    sub = UB(self.w, g, depth=self.depth + 1)
                    r = None
                    for rt in g.rets():
                        if not rt.ops: continue
                        v = rt.ops[0]
                        cands = [v]
                        if v["k"] == "inst" and g.imap[v["v"]].op == "phi" and g.imap[v["v"]].block is rt.block: cands = [inc["v"] for inc in g.imap[v["v"]]["incoming"]]
                        for cv in cands:
                            p = sub.ub(cv); r = p if r is None else pmax(r, p)
                    cache[key] = r
                except Unbounded:
                    cache[key] = None
        r = cache[key]
        if r is not None and r.is_const(): return r
        if r is not None:
            # polynomial in the callee's parameters: substitute the bounds of the actuals (needs monotonicity: coefficients >= 0)
            if r.nonneg_coeffs():
                out = r
                for a in list(r.atoms()):
                    if isinstance(a, tuple) and a[0] == "arg": out = out.subst(a, self.ub(i.ops[a[1]]))
                    elif isinstance(a, tuple) and a[0] in ("call",): pass
                    else: out = None; break
                if out is not None: return out
        # a side-effect-free callee whose result we cannot bound: an uninterpreted atom of its (bounded) integer arguments
        s = self.w.pts.summ.get(c)
        if s is not None and not s.mod and not i["t"].endswith("*"):
            args = tuple(self.ub(i.ops[n]).key() if not i.ops[n]["t"].endswith("*") else "ptr" for n in range(i["nargs"]))
            return Poly.atom(("call", c, args))
        raise Unbounded("result of %s" % c)

    # ---- loops ----
    def backedges(self, h):
        """upper bound (Poly) of the number of times the back edge of loop h is taken"""
        fn = self.fn; body = self.loops[h]
        best = None
        for bid in body:
            b = fn.bmap[bid]; t = b.term
            if t.op != "br" or len(t.ops) != 3: continue
            tru, fls = t.ops[2]["v"], t.ops[1]["v"]
            if (tru in body) == (fls in body): continue
            stay_true = tru in body
            c = t.ops[0]
            if c["k"] != "inst": continue
            conds = self.split_and(c, stay_true)
            for (ci, truth) in conds:
                try: p = self.trip_from_cmp(ci, truth, h, body)
                except Unbounded: p = None
                if p is not None and (best is None or (best - p).nonneg_coeffs()):
                    best = p; self.be_test[h] = (bid, tru if stay_true else fls) if ci.block.id == bid else (None, None)
        if best is None: raise Unbounded("no recognisable exit test for the loop at block %d" % h)
        return best

    def split_and(self, c, want):
        """conjuncts of a loop-continuation condition (short-circuit && is an i1 phi at -O0)"""
        ci = self.fn.imap[c["v"]]
        if ci.op == "icmp": return [(ci, want)]
        if ci.op == "xor" and ci.ops[1]["k"] == "int": return self.split_and(ci.ops[0], not want) if ci.ops[0]["k"] == "inst" else []
        if ci.op == "phi" and want:
            out = []
            for inc in ci["incoming"]:
                v = inc["v"]
                if v["k"] == "inst": out += self.split_and(v, True)
                # the constant-false incoming edges carry the earlier conjuncts: they are the tests of the predecessor blocks
                else:
                    pb = self.fn.bmap[inc["b"]]; pt = pb.term
                    if pt.op == "br" and len(pt.ops) == 3 and pt.ops[0]["k"] == "inst":
                        out += self.split_and(pt.ops[0], pt.ops[2]["v"] != ci.block.id)
            return out
        return []

    def trip_from_cmp(self, ci, truth, h, body):
        fn = self.fn; pred = ci["pred"]; a, b = ci.ops
        if not truth: pred = {"ult": "uge", "ule": "ugt", "ugt": "ule", "uge": "ult", "slt": "sge", "sle": "sgt", "sgt": "sle", "sge": "slt", "eq": "ne", "ne": "eq"}[pred]
        # (ii) shift loop: continue while (v >> k) != 0
        for x, y in ((a, b), (b, a)):
            if pred in ("ne", "ugt") and y["k"] == "int" and int(y["v"]) == 0 and x["k"] == "inst":
                xi = fn.imap[x["v"]]; shifted = 0
                if xi.op == "lshr" and xi.ops[1]["k"] == "int" and xi.ops[0]["k"] == "inst":
                    k = int(xi.ops[1]["v"]); ph = fn.imap[xi.ops[0]["v"]]; shifted = 1
                elif xi.op == "phi": ph = xi; k = None
                else: continue
                if ph.op != "phi" or ph.block.id != h: continue
                backv = [inc["v"] for inc in ph["incoming"] if inc["b"] in body]
                if len(backv) != 1 or backv[0]["k"] != "inst": continue
                bi = fn.imap[backv[0]["v"]]
                if bi.op != "lshr" or bi.ops[1]["k"] != "int" or not (bi.ops[0]["k"] == "inst" and bi.ops[0]["v"] == ph.id): continue
                k = int(bi.ops[1]["v"]); w = type_bits(ph["t"]) or 64
                if k <= 0: continue
                n = -(-w // k)
                return Poly.const(n - shifted)
        # (i) counter: continue while i < N (step s > 0)
        flip = {"ult": "ugt", "ule": "uge", "ugt": "ult", "uge": "ule", "slt": "sgt", "sle": "sge", "sgt": "slt", "sge": "sle", "ne": "ne", "eq": "eq"}
        for (x, y, p) in ((a, b, pred), (b, a, flip[pred])):
            if p not in ("ult", "slt", "ule", "sle", "ne"): continue
            ph, s0 = self.counter(x, h, body)
            if ph is None: continue
            init = [inc["v"] for inc in ph["incoming"] if inc["b"] not in body][0]
            N = self.ub(y); I0 = self.lb(init)
            span = N - I0 + (Poly.const(1) if p in ("ule", "sle") else Poly.const(0))
            if s0 == 1: return span
            return udiv_poly(span + Poly.const(s0 - 1), s0)
        raise Unbounded("exit test not understood")

    def counter(self, o, h, body):
        """o is (a cast of) a header phi with constant positive step: returns (phi, step)"""
        fn = self.fn
        for _ in range(4):
            if o["k"] != "inst": return None, None
            i = fn.imap[o["v"]]
            if i.op in ("zext", "sext", "trunc"): o = i.ops[0]; continue
            break
        if o["k"] != "inst": return None, None
        i = fn.imap[o["v"]]
        if i.op == "add" and i.ops[1]["k"] == "int" and i.ops[0]["k"] == "inst":      # tested after the increment
            inner = fn.imap[i.ops[0]["v"]]
            if inner.op == "phi" and inner.block.id == h: i = inner
        if i.op != "phi" or i.block.id != h: return None, None
        back = [inc["v"] for inc in i["incoming"] if inc["b"] in body]; out = [inc for inc in i["incoming"] if inc["b"] not in body]
        if len(back) != 1 or len(out) != 1 or back[0]["k"] != "inst": return None, None
        bi = fn.imap[back[0]["v"]]
        for _ in range(3):
            if bi.op in ("zext", "sext", "trunc") and bi.ops[0]["k"] == "inst": bi = fn.imap[bi.ops[0]["v"]]
        if bi.op == "add" and bi.ops[1]["k"] == "int":
            src = bi.ops[0]
            for _ in range(3):
                if src["k"] == "inst" and fn.imap[src["v"]].op in ("zext", "sext", "trunc"): src = fn.imap[src["v"]].ops[0]
            if src["k"] == "inst" and src["v"] == i.id:
                s0 = int(bi.ops[1]["sv"])
                if s0 > 0: return i, s0
        return None, None

    def phi_ub(self, i):
        fn = self.fn; h = i.block.id
        if h in self.loops and any(inc["b"] in self.loops[h] for inc in i["incoming"]):
            body = self.loops[h]
            init = None
            for inc in i["incoming"]:
                if inc["b"] not in body:
                    p = self.ub(inc["v"]); init = p if init is None else pmax(init, p)
            if init is None: raise Unbounded("loop phi without an entry value")
            # largest advance in one iteration: bound of the back value with this phi := placeholder P, minus P
            P = Poly.atom(("phi", i.id))
            adv = None
            saved = dict(self.sub); self.sub[i.id] = P
            try:
                for inc in i["incoming"]:
                    if inc["b"] in body:
                        b = self.ub(inc["v"])
                        d = b - P
                        if ("phi", i.id) in d.atoms(): raise Unbounded("loop value grows non-additively (line %s)" % i.line)
                        adv = d if adv is None else pmax(adv, d)
            finally:
                self.sub = saved
            if adv.is_const() and adv.c() <= 0: return init
            if not adv.nonneg_coeffs(): raise Unbounded("advance with negative terms")
            return init + self.trips(h) * adv
        out = None
        for inc in i["incoming"]:
            p = self.ub(inc["v"]); out = p if out is None else pmax(out, p)
        return out

    # ---- pointers: (root, upper bound of the byte offset) ----
    def ptr_ub(self, o):
        fn = self.fn
        if o["k"] == "arg": return ("arg", o["v"]), Poly.const(0)
        if o["k"] != "inst": raise Unbounded("pointer operand %r" % (o,))
        if o["v"] in self.sub: return self.subroot[o["v"]], self.sub[o["v"]]
        key = ("p", o["v"])
        if key in self.memo: return self.memo[key]
        if key in self.busy: raise Unbounded("cyclic pointer")
        self.busy.add(key)
        try: r = self._ptr_ub(fn.imap[o["v"]])
        finally: self.busy.discard(key)
        if not self.sub: self.memo[key] = r
        return r

    subroot = {}

    def _ptr_ub(self, i):
        fn = self.fn
        if i.op in ("bitcast",): return self.ptr_ub(i.ops[0])
        if i.op == "alloca": return ("alloca", i.id), Poly.const(0)
        if i.op == "getelementptr":
            root, off = self.ptr_ub(i.ops[0])
            off = off + Poly.const(i["coff"])
            for v in i["var"]:
                off = off + self.ub(v["idx"]) * Poly.const(v["stride"])
            return root, off
        if i.op == "phi":
            h = i.block.id
            if h in self.loops and any(inc["b"] in self.loops[h] for inc in i["incoming"]):
                body = self.loops[h]; root = None; init = None
                for inc in i["incoming"]:
                    if inc["b"] not in body:
                        r, p = self.ptr_ub(inc["v"]); root = r; init = p if init is None else pmax(init, p)
                P = Poly.atom(("phi", i.id)); adv = None
                saved = dict(self.sub); savedroot = dict(self.subroot)
                self.sub[i.id] = P; self.subroot = dict(self.subroot); self.subroot[i.id] = root
                try:
                    for inc in i["incoming"]:
                        if inc["b"] in body:
                            r2, b = self.ptr_ub(inc["v"])
                            d = b - P
                            if ("phi", i.id) in d.atoms(): raise Unbounded("pointer grows non-additively")
                            adv = d if adv is None else pmax(adv, d)
                finally:
                    self.sub = saved; self.subroot = savedroot
                if adv.is_const() and adv.c() <= 0: return root, init
                return root, init + self.trips(h) * adv
            root = None; out = None
            for inc in i["incoming"]:
                if inc["v"]["k"] == "null": continue
                r, p = self.ptr_ub(inc["v"]); root = r; out = p if out is None else pmax(out, p)
            return root, out
        if i.op == "select":
            r, a = self.ptr_ub(i.ops[1]); r2, b = self.ptr_ub(i.ops[2]); return r, pmax(a, b)
        if i.op == "load":
            src = self.fi.load_source(i)
            if src is not None: return self.ptr_ub(src)
        raise Unbounded("pointer from %s at line %s" % (i.op, i.line))


    # ---- write extents ----
    def extent(self, B, root, depth=0):
        """upper bound (Poly) of offset + size over every write this function makes through `root`, and the number of write sites"""
        from .bounds import MEM_INTR
        from .core import ALLOC_FUNCS
        fn = self.fn; fi = self.fi; worst = []; n = 0          # worst: the maximal bounds seen (pairwise incomparable)
        live = B.live_blocks(fn)
        def note(p):
            nonlocal worst, n
            n += 1
            if any((q - p).nonneg_coeffs() for q in worst): return
            worst = [q for q in worst if not (p - q).nonneg_coeffs()] + [p]
        for b in fn.blocks:
            if b.id not in live: continue
            for i in b.insts:
                if i.op == "store":
                    if fi.ptr(i.ops[1])[0] != root: continue
                    self.at(b); note(self.ptr_ub(i.ops[1])[1] + Poly.const(i["size"]))
                elif i.op == "call":
                    c = i.get("callee")
                    if c and c.startswith(MEM_INTR):
                        if fi.ptr(i.ops[0])[0] != root: continue
                        self.at(b); note(self.ptr_ub(i.ops[0])[1] + self.ub(i.ops[2]))
                    elif c and (c.startswith("llvm.") or c in ALLOC_FUNCS or c == "free"): continue
                    else:
                        for k in range(i["nargs"]):
                            a = i.ops[k]
                            if not a["t"].endswith("*"): continue
                            if fi.ptr(a)[0] != root:
                                if B.indirect_access(fn, i, k, root, "w"): raise Unbounded("%s writes the output through a pointer kept in a local object (line %s)" % (c, i.line))
                                continue
                            w = B.summary(c, k, "w") if c else ("inf", "indirect call")
                            if w[0] == "none": continue
                            self.at(b)
                            cands = []
                            for alt in (w[1] if w[0] == "alts" else [w]):
                                if alt[0] == "const": cands.append(Poly.const(alt[1]))
                                elif alt[0] == "arg":
                                    try: cands.append(self.ub(i.ops[alt[1]]) * Poly.const(alt[2]))
                                    except Unbounded: pass
                            g = self.mod.fn(c) if c else None
                            if g is not None and not g.decl and depth < 3:
                                try:
                                    sub = UB(self.w, g, depth=self.depth + 1)
                                    for j in range(i["nargs"]):
                                        if not i.ops[j]["t"].endswith("*"):
                                            try: sub.arg_poly[j] = self.ub(i.ops[j])
                                            except Unbounded: pass
                                    e, _ = sub.extent(B, ("arg", k), depth + 1)
                                    if e:
                                        m = e[0]
                                        for q in e[1:]: m = pmax(m, q)
                                        cands.append(m)
                                except Unbounded: pass
                            if not cands: raise Unbounded("extent of %s through its argument %d (line %s): %s" % (c, k, i.line, w[1] if w[0] == "inf" else w))
                            best = cands[0]
                            for cnd in cands[1:]:
                                if (best - cnd).nonneg_coeffs(): best = cnd
                            note(self.ptr_ub(a)[1] + best)
        self.at(fn.entry)
        return worst, n
