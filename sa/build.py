"""S0 - build model: compile /repo's current working tree to LLVM IR, link, normalise, extract facts.

Nothing here executes library code.  Every call recomputes the hash of the tree
(sources, CMake files, witness sources, flags, extractor) and reuses cached IR/facts only
for an identical hash (DESIGN 2.1)."""
import fcntl, glob, hashlib, json, os, shutil, subprocess, sys, tempfile, time
from concurrent.futures import ThreadPoolExecutor

VERIF = os.path.dirname(os.path.dirname(os.path.abspath(__file__)))
REPO = os.environ.get("VERIF_REPO", "/repo")
SRC = os.path.join(REPO, "src")
CACHE = os.path.join(VERIF, ".cache")
IRFACTS = os.path.join(VERIF, ".build", "irfacts")
CLANG = "clang-14" if shutil.which("clang-14") else "clang"
OPT = "opt-14"; LLVM_LINK = "llvm-link-14"

CONFIGS = {
    # the pinned build is RelWithDebInfo: -O2 -g -DNDEBUG -> asserts are off
    "ndebug": ["-DNDEBUG"],
    "asserts": ["-UNDEBUG"],
    "native": ["-DNDEBUG", "-march=native"],
}
BASE_FLAGS = ["-std=c11", "-O0", "-Xclang", "-disable-O0-optnone", "-g", "-S", "-emit-llvm",
              "-Wno-everything"]


class AnalysisBroken(Exception):
    """exit 2: the analysis could not be carried out (never a pass, never a violation)"""


def library_units():
    """every src/*.c that is library code: not a *Test.c driver, not the varintCompare benchmark"""
    out = []
    for p in sorted(glob.glob(os.path.join(SRC, "*.c"))):
        b = os.path.basename(p)
        if b.endswith("Test.c") or b == "varintCompare.c":
            continue
        out.append(p)
    return out


def _sha(paths, extra=()):
    h = hashlib.sha256()
    for p in sorted(paths):
        h.update(p.encode()); h.update(b"\0")
        try:
            with open(p, "rb") as f: h.update(f.read())
        except OSError:
            h.update(b"<missing>")
        h.update(b"\0")
    for e in extra:
        h.update(repr(e).encode())
    return h.hexdigest()


def tree_hash():
    files = glob.glob(os.path.join(SRC, "*.[ch]")) + glob.glob(os.path.join(REPO, "CMakeLists.txt")) \
        + glob.glob(os.path.join(SRC, "CMakeLists.txt")) + glob.glob(os.path.join(REPO, "README.md")) \
        + glob.glob(os.path.join(VERIF, "witness", "*.[ch]")) + glob.glob(os.path.join(VERIF, "witness", "*.py")) \
        + glob.glob(os.path.join(VERIF, "controls", "*.c")) \
        + [os.path.join(VERIF, "tools", "irfacts.cc"), os.path.join(VERIF, "sa", "build.py")]
    return _sha(files, extra=[BASE_FLAGS, CONFIGS])[:20]


def _prune(keep):
    try:
        ds = [os.path.join(CACHE, d) for d in os.listdir(CACHE) if os.path.isdir(os.path.join(CACHE, d)) and d != "tmp"]
    except OSError:
        return
    ds.sort(key=lambda d: os.path.getmtime(d), reverse=True)
    for d in ds[3:]:
        if os.path.basename(d) != keep:
            shutil.rmtree(d, ignore_errors=True)


def _run(cmd, **kw):
    r = subprocess.run(cmd, stdout=subprocess.PIPE, stderr=subprocess.PIPE, text=True, **kw)
    return r.returncode, r.stdout, r.stderr


def _compile(src, out, flags, incs):
    cmd = [CLANG] + BASE_FLAGS + flags + ["-I" + i for i in incs] + [src, "-o", out]
    rc, so, se = _run(cmd)
    if rc != 0:
        raise AnalysisBroken("unit failed to compile: %s\n%s" % (src, se[-2000:]))
    return out


class Lock:
    def __init__(self, path): self.path = path
    def __enter__(self):
        os.makedirs(os.path.dirname(self.path), exist_ok=True)
        self.f = open(self.path, "w"); fcntl.flock(self.f, fcntl.LOCK_EX); return self
    def __exit__(self, *a):
        fcntl.flock(self.f, fcntl.LOCK_UN); self.f.close()


def ensure_irfacts():
    src = os.path.join(VERIF, "tools", "irfacts.cc")
    if os.path.exists(IRFACTS) and os.path.getmtime(IRFACTS) >= os.path.getmtime(src):
        return
    with Lock(os.path.join(VERIF, ".build", ".lock")):
        if os.path.exists(IRFACTS) and os.path.getmtime(IRFACTS) >= os.path.getmtime(src):
            return
        flags = subprocess.check_output(["llvm-config-14", "--cxxflags"], text=True).split()
        cmd = ["clang++"] + flags + ["-fno-rtti", "-O1", src, "-o", IRFACTS + ".tmp", "/usr/lib/llvm-14/lib/libLLVM-14.so"]
        rc, so, se = _run(cmd)
        if rc != 0:
            raise AnalysisBroken("irfacts failed to build:\n" + se[-3000:])
        os.replace(IRFACTS + ".tmp", IRFACTS)


def compdb_check(cdir):
    """Cross-check the analysed unit list against what the real build compiles (configure only)."""
    stamp = os.path.join(cdir, "compdb.json")
    if os.path.exists(stamp):
        return json.load(open(stamp))
    scratch = tempfile.mkdtemp(prefix="verif-cmake-", dir=os.path.join(CACHE, "tmp"))
    try:
        rc, so, se = _run(["cmake", "-G", "Ninja", "-S", REPO, "-B", scratch, "-DCMAKE_EXPORT_COMPILE_COMMANDS=ON",
                           "-DCMAKE_BUILD_TYPE=RelWithDebInfo"])
        if rc != 0:
            raise AnalysisBroken("cmake configure failed:\n" + (so + se)[-2000:])
        db = json.load(open(os.path.join(scratch, "compile_commands.json")))
    finally:
        shutil.rmtree(scratch, ignore_errors=True)
    built = sorted({os.path.realpath(e["file"]) for e in db})
    units = {os.path.realpath(p) for p in library_units()}
    src_real = os.path.realpath(SRC)
    unanalysed = [f for f in built if os.path.dirname(f) == src_real and f not in units
                  and not f.endswith("Test.c") and os.path.basename(f) != "varintCompare.c"]
    not_built = sorted(os.path.basename(u) for u in units if u not in built)
    res = {"built_src_units": sorted(os.path.basename(f) for f in built if os.path.dirname(f) == src_real),
           "examples_and_other": len([f for f in built if os.path.dirname(f) != src_real]),
           "unanalysed": unanalysed, "analysed_but_not_in_build": not_built}
    if unanalysed:
        raise AnalysisBroken("source compiled by the build but not analysed: %s" % unanalysed)
    with open(stamp, "w") as f: json.dump(res, f)
    return res


def _force_inline(path, names):
    """mark the named file-local functions of a linked .ll alwaysinline (and drop -O0's noinline, which is the only thing the
    always-inline pass would trip over): used to analyse a function together with the static helpers it was split into"""
    import re
    txt = open(path).read()
    hit = 0
    for n in names:
        pat = re.compile(r'^(define internal [^\n]*@%s\([^\n]*\))( (?:local_unnamed_addr |unnamed_addr )?)(#\d+)' % re.escape(n), re.M)
        txt, k = pat.subn(lambda m: m.group(1) + m.group(2) + "alwaysinline " + m.group(3), txt)
        hit += k
    if hit != len(names): raise AnalysisBroken("inline plan: %d of %d helper definitions found" % (hit, len(names)))
    txt = re.sub(r'^(attributes #\d+ = \{[^\n]*?) noinline ', r'\1 ', txt, flags=re.M)
    open(path, "w").write(txt)


def build_module(name, sources, config="ndebug", defines=(), incs=None, inline=()):
    """Compile `sources` (paths) under `config`, link, mem2reg+sroa, extract facts.
    Returns the path of the facts JSON.  `name` is the cache entry name.  `inline`: file-local functions to inline into their callers first."""
    ensure_irfacts()
    th = tree_hash()
    cdir = os.path.join(CACHE, th)
    os.makedirs(os.path.join(CACHE, "tmp"), exist_ok=True)
    extra = os.environ.get("VERIF_EXTRA_PASSES", "")       # robustness experiments only (tools/irstress.sh): semantics-preserving passes appended to the pipeline
    key = hashlib.sha256(repr((name, sorted(sources), config, sorted(defines)) + ((tuple(sorted(inline)),) if inline else ()) + ((extra,) if extra else ())).encode()).hexdigest()[:10]
    mdir = os.path.join(cdir, "%s-%s-%s" % (name, config, key))
    facts = os.path.join(mdir, "all.json")
    if os.path.exists(facts):
        os.utime(cdir, None)
        return facts
    with Lock(os.path.join(CACHE, "tmp", "%s-%s.lock" % (th, key))):
        if os.path.exists(facts):
            return facts
        tmp = tempfile.mkdtemp(prefix="verif-build-", dir=os.path.join(CACHE, "tmp"))
        try:
            flags = CONFIGS[config] + ["-D" + d for d in defines]
            incs = incs or [SRC, os.path.join(VERIF, "witness")]
            jobs = []
            with ThreadPoolExecutor(max_workers=16) as ex:
                for k, s in enumerate(sources):
                    out = os.path.join(tmp, "%03d_%s.ll" % (k, os.path.basename(s).rsplit(".", 1)[0]))
                    jobs.append(ex.submit(_compile, s, out, flags, incs))
                lls = [j.result() for j in jobs]
            rc, so, se = _run([LLVM_LINK, "-S"] + lls + ["-o", os.path.join(tmp, "all.ll")])
            if rc != 0:
                raise AnalysisBroken("llvm-link failed:\n" + se[-2000:])
            if inline: _force_inline(os.path.join(tmp, "all.ll"), sorted(inline))
            rc, so, se = _run([OPT, "-passes=" + ("always-inline,function(mem2reg,sroa,jump-threading,instsimplify)" if inline else "function(mem2reg,sroa)") + (("," + extra) if extra else ""), "-S", os.path.join(tmp, "all.ll"), "-o", os.path.join(tmp, "all.m.ll")])
            if rc != 0:
                raise AnalysisBroken("opt failed:\n" + se[-2000:])
            with open(os.path.join(tmp, "all.json"), "w") as f:
                r = subprocess.run([IRFACTS, os.path.join(tmp, "all.m.ll")], stdout=f, stderr=subprocess.PIPE, text=True)
            if r.returncode != 0:
                raise AnalysisBroken("irfacts failed:\n" + r.stderr[-2000:])
            os.makedirs(cdir, exist_ok=True)
            for f in lls + [os.path.join(tmp, "all.ll")]:
                os.unlink(f)
            if os.path.exists(mdir): shutil.rmtree(mdir)
            os.replace(tmp, mdir)
        finally:
            shutil.rmtree(tmp, ignore_errors=True)
        _prune(th)
    return facts


def witness_sources(which=("wrap",)):
    out = []
    for w in which:
        p = os.path.join(VERIF, "witness", w + ".c")
        if not os.path.exists(p):
            raise AnalysisBroken("witness source missing: " + p)
        out.append(p)
    return out


def lib_facts(config="ndebug", witness=("wrap",), inline=()):
    """facts of the linked library (17 units today) plus the macro-wrapper witness units"""
    units = library_units()
    if len(units) < 17:
        raise AnalysisBroken("only %d library units found under %s (17 confirmed by hand)" % (len(units), SRC))
    facts = build_module("lib", units + witness_sources(witness), config, inline=tuple(inline))
    compdb_check(os.path.dirname(os.path.dirname(facts)))
    return facts


def compile_only(src, flags, incs=None, syntax_only=True):
    """used by the W engine: returns (rc, stderr) of a front-end run; nothing is executed"""
    incs = incs or [SRC, os.path.join(VERIF, "witness")]
    cmd = [CLANG, "-std=c11"] + (["-fsyntax-only"] if syntax_only else ["-c", "-o", os.devnull]) + flags + ["-I" + i for i in incs] + [src]
    rc, so, se = _run(cmd)
    return rc, se


if __name__ == "__main__":
    t = time.time()
    p = lib_facts(sys.argv[1] if len(sys.argv) > 1 else "ndebug")
    print(p, "%.1fs" % (time.time() - t))
