"""Core (from the design-phase prototype, DESIGN App. D): pointer roots, write effects, available-load value numbering,
linear expressions of SSA values, dominating facts, and a small prover."""
from collections import defaultdict
from .ir import type_bits
from .lin import Lin

ALLOC_FUNCS = {"malloc", "calloc", "realloc"}
MEM_INTR = ("llvm.memset", "llvm.memcpy", "llvm.memmove")

def okey(o):
    """hashable key of an operand"""
    k = o["k"]
    if k == "int": return ("int", int(o["v"]), o.get("bits"))
    if k in ("inst", "arg"): return (k, o["v"])
    if k in ("global", "func"): return (k, o["v"])
    return (k, repr(o.get("v")))

def single_atom(l):
    if l.c == 0 and len(l.t) == 1:
        (a, k), = l.t.items()
        if k == 1: return a
    return None


def prod_atom(a, b):
    """canonical atom for the product of two single-atom linear forms"""
    x, y = single_atom(a), single_atom(b)
    if x is None or y is None: return None
    x, y = sorted((x, y), key=repr)
    return ("prod", x, y)


class FnInfo:
    """per-function derived facts"""
    def __init__(self, fn, world):
        self.fn = fn; self.world = world
        self._ptr = {}; self._lin = {}
        self.load_atom = {}      # load inst id -> atom
        self.mphi = {}           # memory-phi token -> {pred block id: token}
        self.call_state = {}     # (block id, inst idx) of a call -> available-location state just before it
        self._avail_done = False

    # ---------- pointers: (root, Lin byte offset) ----------
    def ptr(self, o):
        k = okey(o)
        if k in self._ptr: return self._ptr[k]
        self._ptr[k] = (("pending",), Lin())     # recursion guard
        r = self._ptr_compute(o)
        self._ptr[k] = r
        return r
    def _ptr_compute(self, o):
        kind = o["k"]
        if kind == "arg": return (("arg", o["v"]), Lin())
        if kind == "global": return (("global", o["v"]), Lin())
        if kind == "null": return (("null",), Lin())
        if kind == "cexpr":
            if o["op"] in ("getelementptr", "bitcast"):
                base = self.ptr(o["ops"][0])
                return (base[0], base[1] + int(o.get("off", 0)))
            return (("unknown", "cexpr"), Lin())
        if kind != "inst": return (("unknown", kind), Lin())
        i = self.fn.imap[o["v"]]
        if i.op == "alloca": return (("alloca", i.id), Lin())
        if i.op in ("bitcast", "addrspacecast"): return self.ptr(i.ops[0])
        if i.op == "getelementptr":
            root, off = self.ptr(i.ops[0])
            off = off + i["coff"]
            for v in i["var"]:
                off = off + self.lin(v["idx"]).scale(v["stride"])
            return (root, off)
        if i.op == "call":
            c = i.get("callee")
            if c in ALLOC_FUNCS: return (("heap", i.id), Lin())
            return (("call", i.id), Lin())
        if i.op in ("phi", "select"):
            vals = [c["v"] for c in i["incoming"]] if i.op == "phi" else i.ops[1:3]
            roots = set()
            for v in vals:
                if v["k"] == "inst" and v["v"] == i.id: continue
                roots.add(self.ptr(v)[0])
            roots.discard(("null",)); roots.discard(("pending",))
            if len(roots) == 1:
                st = self._strided(i) if i.op == "phi" else None
                if st is not None: return (next(iter(roots)), st)
                return (roots.pop(), Lin.atom(("pv", i.id)))   # same object, symbolic offset
            return (("multi", tuple(sorted(map(repr, roots)))), Lin.atom(("pv", i.id)))
        if i.op == "load":
            tok = self.load_atom.get(i.id)
            if tok is not None and tok[0] == "st":
                st = self.fn.bmap[tok[1]].insts[tok[2]]
                if st.ops[0]["t"].endswith("*"): return self.ptr(st.ops[0])
            if tok is not None and tok[0] == "ld" and tok[1] != i.id:
                return (("loaded", tok[1]), Lin())
            return (("loaded", i.id), Lin())
        if i.op == "inttoptr": return (("unknown", "inttoptr"), Lin())
        return (("unknown", i.op), Lin())

    def _strided(self, phi):
        """p = phi(p0, p + S) in a loop with a unit counter i = phi(0, i + 1), both advanced exactly once per iteration:
        offset(p) = offset(p0) + i * S   (S loop-invariant; a product atom when S is symbolic)"""
        fn = self.fn; loops = fn.loops(); h = phi.block.id
        if h not in loops or len(phi["incoming"]) != 2: return None
        body = loops[h]
        ins = phi["incoming"]
        out = [x for x in ins if x["b"] not in body]; back = [x for x in ins if x["b"] in body]
        if len(out) != 1 or len(back) != 1: return None
        latch = back[0]["b"]
        if sum(1 for p in phi.block.preds if p.id in body) != 1: return None
        bv = back[0]["v"]
        if bv["k"] != "inst": return None
        bi = fn.imap[bv["v"]]
        if not fn.dominates(bi.block.id, latch) or bi.block.id not in body: return None
        # offset of the back value relative to the phi itself
        key = okey({"k": "inst", "v": phi.id})
        saved = self._ptr.get(key)
        self._ptr[key] = (("self", phi.id), Lin())
        try:
            memo = dict(self._ptr)
            r, off = self._ptr_compute(bv) if okey(bv) not in memo or memo[okey(bv)][0] == ("pending",) else memo[okey(bv)]
        finally:
            # drop everything computed relative to the placeholder
            for k2 in [k2 for k2, v in self._ptr.items() if v[0] == ("self", phi.id) and k2 != key]: del self._ptr[k2]
            if saved is not None: self._ptr[key] = saved
        if r != ("self", phi.id): return None
        S = off
        def invariant(l):
            for a in l.atoms():
                ii = None
                if isinstance(a, tuple) and a[0] == "v" and a[1] == "inst": ii = fn.imap.get(a[2])
                elif isinstance(a, tuple) and a[0] in ("ld", "i", "trunc", "and", "mul"): ii = fn.imap.get(a[1])
                elif isinstance(a, tuple) and a[0] in ("arg", "entry"): continue
                elif isinstance(a, tuple) and a[0] == "v" and a[1] == "arg": continue
                else: return False
                if ii is None or ii.block.id in body: return False
            return True
        if not invariant(S): return None
        # the unit counter of this loop
        ctr = None
        for j in phi.block.insts:
            if j.op != "phi" or j is phi or j["t"].endswith("*") or len(j["incoming"]) != 2: continue
            o2 = [x for x in j["incoming"] if x["b"] not in body]; b2 = [x for x in j["incoming"] if x["b"] in body]
            if len(o2) != 1 or len(b2) != 1: continue
            if not (o2[0]["v"]["k"] == "int" and int(o2[0]["v"]["v"]) == 0): continue
            sv = b2[0]["v"]
            if sv["k"] != "inst": continue
            si = fn.imap[sv["v"]]
            if si.op == "add" and si.ops[0]["k"] == "inst" and si.ops[0]["v"] == j.id and si.ops[1]["k"] == "int" and int(si.ops[1]["v"]) == 1 \
                    and fn.dominates(si.block.id, latch):
                ctr = j; break
        if ctr is None:
            # a counter counted down by one from a loop-invariant start (`for (remaining = n; remaining > 0; remaining--)`): n - remaining
            # iterations are behind us
            for j in phi.block.insts:
                if j.op != "phi" or j is phi or j["t"].endswith("*") or len(j["incoming"]) != 2: continue
                o2 = [x for x in j["incoming"] if x["b"] not in body]; b2 = [x for x in j["incoming"] if x["b"] in body]
                if len(o2) != 1 or len(b2) != 1: continue
                sv = b2[0]["v"]
                if sv["k"] != "inst": continue
                si = fn.imap[sv["v"]]
                down = si.op in ("add", "sub") and si.ops[0]["k"] == "inst" and si.ops[0]["v"] == j.id and si.ops[1]["k"] == "int" and int(si.ops[1].get("sv", 0)) == (-1 if si.op == "add" else 1)
                if not (down and fn.dominates(si.block.id, latch)): continue
                n0 = self.lin(o2[0]["v"])
                if not invariant(n0): continue
                r0, off0 = self.ptr(out[0]["v"])
                jl = self.lin({"k": "inst", "v": j.id, "t": j["t"]})
                if S.is_const(): return off0 + (n0 - jl).scale(S.c)
                pn = prod_atom(n0, S); pj = prod_atom(jl, S)
                if pn is None or pj is None: continue
                return off0 + Lin.atom(pn) - Lin.atom(pj)
            return None
        r0, off0 = self.ptr(out[0]["v"])
        il = self.lin({"k": "inst", "v": ctr.id, "t": ctr["t"]})
        if S.is_const(): return off0 + il.scale(S.c)
        pa = prod_atom(il, S)
        if pa is None: return None
        return off0 + Lin.atom(pa)

    # ---------- linear form of integer values ----------
    def lin(self, o):
        k = okey(o)
        if k in self._lin: return self._lin[k]
        self._lin[k] = Lin.atom(("v",) + k)
        r = self._lin_compute(o)
        self._lin[k] = r
        return r
    def _lin_compute(self, o):
        kind = o["k"]
        if kind == "int":
            return Lin.const(int(o["v"]))      # unsigned reading
        if kind == "arg": return Lin.atom(("arg", o["v"]))
        if kind != "inst": return Lin.atom(("v", kind, repr(o.get("v"))))
        i = self.fn.imap[o["v"]]
        op = i.op
        A = lambda n: self.lin(i.ops[n])
        def cint(n):
            x = i.ops[n]
            return int(x["v"]) if x["k"] == "int" else None
        def scint(n):
            x = i.ops[n]
            return int(x["sv"]) if x["k"] == "int" else None
        if op == "add":
            c = scint(1)
            if c is not None and c < 0: return A(0) + c          # x + (-k)
            return A(0) + A(1)
        if op == "sub": return A(0) - A(1)
        if op in ("mul", "shl") and (type_bits(i["t"]) or 64) < 64 and not i.get("nuw") and self.may_wrap(i):
            # a product in a narrow type whose operands are not known to be small (e.g. a 32-bit count read from the input times an
            # element size) can wrap: the mathematical product says nothing about the value that is compared afterwards
            return Lin.atom(("wrap", i.id))
        if op == "mul":
            if cint(1) is not None: return A(0).scale(cint(1))
            if cint(0) is not None: return A(1).scale(cint(0))
            a, b = A(0), A(1)
            if a.is_const(): return b.scale(a.c)
            if b.is_const(): return a.scale(b.c)
            pa = prod_atom(a, b)
            return Lin.atom(pa) if pa is not None else Lin.atom(("mul", i.id))
        if op == "shl" and cint(1) is not None: return A(0).scale(1 << cint(1))
        if op in ("zext", "sext"):
            return A(0)                                          # value-preserving for in-range values
        if op == "trunc":
            return Lin.atom(("trunc", i.id))
        if op == "load":
            return self.token_lin(self.load_atom.get(i.id, ("ld", i.id)))
        if op == "ptrtoint":
            root, off = self.ptr(i.ops[0])
            return Lin.atom(("base", root)) + off
        if op == "and" and cint(1) is not None:
            return Lin.atom(("and", i.id))
        if op == "extractvalue" and i.get("indices") == [0] and i.ops[0]["k"] == "inst":
            c = self.fn.imap[i.ops[0]["v"]]
            if c.op == "call" and (c.get("callee") or "").startswith(("llvm.umul.with.overflow", "llvm.uadd.with.overflow", "llvm.sadd.with.overflow", "llvm.smul.with.overflow")):
                a, b = self.lin(c.ops[0]), self.lin(c.ops[1])
                if "add" in c["callee"]: return a + b
                if a.is_const(): return b.scale(a.c)
                if b.is_const(): return a.scale(b.c)
        return Lin.atom(("i", i.id))

    def may_wrap(self, i):
        from .ival import Intervals, INF
        iv = self.__dict__.get("_iv")
        if iv is None: iv = self._iv = Intervals(self.fn, None, None)
        a = iv.ival(i.ops[0]); b = iv.ival(i.ops[1]); top = (1 << (type_bits(i["t"]) or 64)) - 1
        if a[1] == INF or b[1] == INF or a[0] < 0 or b[0] < 0: return True
        hi = a[1] * b[1] if i.op == "mul" else (a[1] << b[1] if b[1] < 64 else INF)
        return hi > top

    def token_lin(self, tok):
        if tok[0] == "cv":
            c = self.fn.imap[tok[1]]; k, ai, aj = self.world.outvals()[c["callee"]]
            a, b = self.lin(c.ops[ai]), self.lin(c.ops[aj])
            if a.is_const(): return b.scale(a.c)
            if b.is_const(): return a.scale(b.c)
            return Lin.atom(("mul", tok[1]))
        if tok[0] == "st":
            st = self.fn.bmap[tok[1]].insts[tok[2]]
            if st.ops[0]["t"].endswith("*"): return Lin.atom(tok)
            return self.lin(st.ops[0])
        return Lin.atom(tok)
    def load_source(self, i):
        """the operand a load is known to return (store-to-load forwarding), or None"""
        tok = self.load_atom.get(i.id)
        if tok is not None and tok[0] == "st":
            return self.fn.bmap[tok[1]].insts[tok[2]].ops[0]
        return None
    def same_value(self, i):
        """canonical representative of a load: the earliest load known to return the same value"""
        tok = self.load_atom.get(i.id)
        if tok is not None and tok[0] == "ld": return tok[1]
        return None
    # ---------- available-load value numbering ----------
    def loc_of(self, ptr_op, size):
        root, off = self.ptr(ptr_op)
        if off.is_const(): return (root, off.c, size)
        return (root, None, size)
    def _kills(self, i):
        """list of (root, off|None, size|None) possibly written by instruction i"""
        if i.op == "store":
            return [self.loc_of(i.ops[1], i["size"])]
        if i.op == "call":
            c = i.get("callee")
            out = []
            if c and c.startswith(MEM_INTR):
                root, off = self.ptr(i.ops[0]); out.append((root, None, None)); return out
            if c in ALLOC_FUNCS or c == "free": return out
            w = self.world.writes(c) if c else None
            for n in range(i["nargs"]):
                a = i.ops[n]
                if not a["t"].endswith("*"): continue
                if w is None or n in w:
                    out.append((self.ptr(a)[0], None, None))
            return out
        return []
    @staticmethod
    def _overlap(a, b):
        if a[0] != b[0]:
            # different roots: args/allocas/heap are pairwise disjoint by assumption; unknown/loaded may alias anything but allocas not escaped
            ua = a[0][0] in ("unknown", "loaded", "multi", "call"); ub = b[0][0] in ("unknown", "loaded", "multi", "call")
            if ua or ub:
                other = b if ua else a
                return other[0][0] != "alloca" or True   # conservative
            return False
        if a[1] is None or b[1] is None or a[2] is None or b[2] is None: return True
        return a[1] < b[1] + b[2] and b[1] < a[1] + a[2]
    def _avail(self):
        if self._avail_done: return
        self._avail_done = True
        fn = self.fn; fn.dom()
        IN = {}; OUT = {}
        def transfer(b, st, record):
            st = dict(st)
            for i in b.insts:
                if record and i.op == "call" and i.get("callee") and not i["callee"].startswith("llvm."):
                    self.call_state[(b.id, i.idx)] = dict(st)
                if i.op == "load":
                    loc = self.loc_of(i.ops[0], i["size"])
                    if loc[1] is not None and loc in st:
                        if record: self.load_atom[i.id] = st[loc]
                    else:
                        at = ("ld", i.id)
                        if record: self.load_atom[i.id] = at
                        if loc[1] is not None: st[loc] = at
                else:
                    ks = self._kills(i)
                    if ks:
                        for loc in list(st):
                            if any(self._overlap(loc, k) for k in ks): del st[loc]
                    if i.op == "call" and i.get("callee") in self.world.outvals():
                        k, ai, aj = self.world.outvals()[i["callee"]]
                        root, off = self.ptr(i.ops[k])
                        if off.is_const() and root[0] == "alloca":
                            st[(root, off.c, 8)] = ("cv", i.id)
                    if i.op == "store" and ks and ks[0][1] is not None:
                        st[ks[0]] = ("st", b.id, i.idx)
            return st
        for b in fn.rpo: OUT[b.id] = None
        # memory reachable from a parameter is unmodified at entry: its first load yields the *entry value* of that location
        entry_state = {}
        for i in fn.insts():
            if i.op == "load":
                loc = self.loc_of(i.ops[0], i["size"])
                if loc[1] is not None and loc[0][0] == "arg": entry_state[loc] = ("entry", loc)
        changed = True; rounds = 0
        while changed and rounds < 50:
            changed = False; rounds += 1
            for b in fn.rpo:
                ps = [OUT[p.id] for p in b.preds if OUT.get(p.id) is not None]
                if b is fn.entry: st = dict(entry_state)
                elif not ps: continue
                else:
                    st = {}
                    vis = [p for p in b.preds if OUT.get(p.id) is not None]   # optimistic: unvisited preds agree
                    keys = set()
                    for q in ps: keys |= set(q)
                    for k in keys:
                        vals = [OUT[p.id].get(k) for p in vis]
                        if any(v is None for v in vals):
                            # killed (or never loaded) on some incoming path: keep the join as a memory phi with an unknown
                            # alternative, but only for parameter-rooted locations (entry values), to keep states small
                            if k[0][0] != "arg": continue
                            vals = [v if v is not None else ("unk", p.id, k) for v, p in zip(vals, vis)]
                        tok = ("mphi", b.id, k)
                        others = [v for v in vals if v != tok]
                        if others and all(v == others[0] for v in others): st[k] = others[0]
                        else:
                            self.mphi[tok] = {p.id: v for p, v in zip(vis, vals)}
                            st[k] = tok
                IN[b.id] = st
                o = transfer(b, st, False)
                if OUT[b.id] != o: OUT[b.id] = o; changed = True
        for b in fn.rpo:
            if b.id in IN: transfer(b, IN[b.id], True)
        self._lin = {}; self._ptr = {}
    def prepare(self):
        self._avail()
        return self

class World:
    """per-module cache of FnInfo plus callee write summaries (backed by the E-PTS Mod sets)"""
    def __init__(self, mod, pts=None):
        from . import pts as _pts
        self.mod = mod; self.info = {}
        self.pts = pts or _pts.World(mod)
    def fi(self, fn):
        if fn.name not in self.info: self.info[fn.name] = FnInfo(fn, self)
        return self.info[fn.name]
    def outvals(self):
        """checked-multiply helpers: {name: (k, i, j)} meaning `*param_k = param_i * param_j` (or 0 when a factor is 0)
        on every path - recognised structurally: every store goes to param k and stores const 0 or mul(arg i, arg j)"""
        if getattr(self, "_outvals", None) is not None: return self._outvals
        out = {}
        for f in self.mod.defined():
            if len(f.blocks) > 6 or f.d["ret"] != "i1": continue
            stores = [i for i in f.insts() if i.op == "store"]
            if not stores or any(i.op == "call" and not (i.get("callee") or "").startswith(("llvm.dbg", "llvm.umul.with.overflow")) for i in f.insts()): continue
            ks = set(); pair = set(); ok = True
            def product_of_args(v, d=0):
                """0, arg_i * arg_j (plain or as the value half of __builtin_mul_overflow), or a merge of those"""
                if v["k"] == "int": return int(v["v"]) == 0
                if v["k"] != "inst" or d > 3: return False
                m = f.imap[v["v"]]
                if m.op == "extractvalue" and m.get("indices") == [0] and m.ops[0]["k"] == "inst": m = f.imap[m.ops[0]["v"]]
                if m.op == "mul" or (m.op == "call" and (m.get("callee") or "").startswith("llvm.umul.with.overflow")):
                    fac = m.ops[:2]
                    if all(o["k"] == "arg" for o in fac): pair.add(tuple(sorted(o["v"] for o in fac))); return True
                    return False
                if m.op == "phi": return all(product_of_args(c["v"], d + 1) for c in m["incoming"])
                return False
            for st in stores:
                a = st.ops[1]
                if a["k"] != "arg": ok = False; break
                ks.add(a["v"])
                if product_of_args(st.ops[0]): continue
                ok = False; break
            if ok and len(ks) == 1 and len(pair) == 1:
                (i, j), = pair; out[f.name] = (ks.pop(), i, j)
        self._outvals = out
        return out
    def writes(self, name):
        """set of param indices the function may write through at any depth (None = unknown: everything)"""
        from .pts import is_pure_external
        s = self.pts.summ.get(name)
        if s is not None:
            if any(r[0] not in ("arg", "global") for r in s.mod): return None
            return {r[1] for r in s.mod if r[0] == "arg"}
        if is_pure_external(name) or name in ("free",): return set()
        if name == "qsort": return {0}
        return None
