"""E1 (DESIGN 3; grown from the design-phase prototype): class tables of unary integer functions by interval-partitioned
symbolic constant propagation.  Terms are small trees over the single input X."""
import sys
from .ir import Module, type_bits

M64 = (1 << 64) - 1

# ---------------- terms ----------------
def C(c, bits=64): return ("c", c & ((1 << bits) - 1), bits)
X = ("x",)
def is_c(t): return t[0] == "c"

def ev(t, x):
    k = t[0]
    if k == "x": return x
    if k == "c": return t[1]
    if k == "sub": return (ev(t[1], x) - t[2]) & ((1 << t[3]) - 1)
    if k == "add": return (ev(t[1], x) + t[2]) & ((1 << t[3]) - 1)
    if k == "mulc": return (ev(t[1], x) * t[2]) & ((1 << t[3]) - 1)
    if k == "shr": return ev(t[1], x) >> t[2]
    if k == "shl": return (ev(t[1], x) << t[2]) & ((1 << t[3]) - 1)
    if k == "and": return ev(t[1], x) & t[2]
    if k == "or": return ev(t[1], x) | t[2]
    if k == "udiv": return ev(t[1], x) // t[2]
    if k == "urem": return ev(t[1], x) % t[2]
    if k == "or2": return ev(t[1], x) | ev(t[2], x)
    if k == "add2": return (ev(t[1], x) + ev(t[2], x)) & ((1 << t[3]) - 1)
    raise ValueError(t)

def monotone(t, lo, hi):
    """structurally non-decreasing in x on [lo,hi] (no wrap)"""
    k = t[0]
    if k in ("x", "c"): return True
    if k == "sub": return monotone(t[1], lo, hi) and ev(t[1], lo) >= t[2]
    if k in ("add", "mulc", "shl"): return monotone(t[1], lo, hi) and ev(t, hi) >= ev(t, lo) and _nowrap(t, lo, hi)
    if k in ("shr", "udiv"): return monotone(t[1], lo, hi)
    if k == "or": return monotone(t[1], lo, hi) and (t[2] & (t[2] + 1)) == 0        # x | (2^k - 1) = floor to a multiple of 2^k, plus the mask
    if k == "and":
        m = t[2]
        low = (m & -m) if m else 0
        topmask = m != 0 and ((m + low) & (m + low - 1)) == 0 and False
        # low mask keeps value when operand already fits; top mask (ones from bit k up to operand width) is monotone
        if monotone(t[1], lo, hi) and ev(t[1], hi) <= m and (m & (m + 1)) == 0: return True
        if monotone(t[1], lo, hi):
            full = (1 << max(1, ev(t[1], hi).bit_length())) - 1
            inv = full & ~m
            if (inv & (inv + 1)) == 0: return True      # mask keeps the top bits of the operand's range: floor to a power of two
        return False
    return False

def ubound(t, lo, hi):
    """an upper bound of the (unsigned) value of t on [lo, hi]"""
    k = t[0]
    if k == "x": return hi
    if k == "c": return t[1]
    if k in ("or2", "add2"):
        a, b = ubound(t[1], lo, hi), ubound(t[2], lo, hi)
        if k == "or2": return (1 << max(a, b).bit_length()) - 1
        return min(a + b, (1 << t[3]) - 1) if a + b >= (1 << t[3]) else a + b
    if monotone(t, lo, hi): return ev(t, hi)
    a = ubound(t[1], lo, hi)
    if k == "sub": return a if (monotone(t[1], lo, hi) and ev(t[1], lo) >= t[2]) else (1 << t[3]) - 1
    if k == "add": return a + t[2] if a + t[2] < (1 << t[3]) else (1 << t[3]) - 1
    if k == "mulc": return a * t[2] if a * t[2] < (1 << t[3]) else (1 << t[3]) - 1
    if k == "shr": return a >> t[2]
    if k == "shl": return (a << t[2]) if (a << t[2]) < (1 << t[3]) else (1 << t[3]) - 1
    if k == "and": return min(a, t[2])
    if k == "or": return (1 << max(a, t[2]).bit_length()) - 1
    if k == "udiv": return a // t[2]
    if k == "urem": return min(a, t[2] - 1)
    return (1 << 64) - 1


def lbound(t, lo, hi):
    """a lower bound of the (unsigned) value of t on [lo, hi]"""
    k = t[0]
    if k == "x": return lo
    if k == "c": return t[1]
    if k == "or2": return max(lbound(t[1], lo, hi), lbound(t[2], lo, hi))
    if k == "add2":
        return lbound(t[1], lo, hi) + lbound(t[2], lo, hi) if ubound(t[1], lo, hi) + ubound(t[2], lo, hi) < (1 << t[3]) else 0
    if monotone(t, lo, hi): return ev(t, lo)
    a = lbound(t[1], lo, hi)
    if k == "or": return max(a, t[2])
    if k == "shr": return a >> t[2]
    if k == "udiv": return a // t[2]
    if k == "add": return a + t[2] if ubound(t[1], lo, hi) + t[2] < (1 << t[3]) else 0
    if k == "shl": return (a << t[2]) if (ubound(t[1], lo, hi) << t[2]) < (1 << t[3]) else 0
    if k == "mulc": return a * t[2] if ubound(t[1], lo, hi) * t[2] < (1 << t[3]) else 0
    return 0


def _nowrap(t, lo, hi):
    k = t[0]
    if k == "add": return ev(t[1], hi) + t[2] < (1 << t[3])
    if k == "mulc": return ev(t[1], hi) * t[2] < (1 << t[3])
    if k == "shl": return (ev(t[1], hi) << t[2]) < (1 << t[3])
    return True

def norm(t, lo, hi):
    """canonicalise using the current interval of x"""
    k = t[0]
    if k in ("x", "c"): return t
    a = norm(t[1], lo, hi)
    if k == "or2" or k == "add2":
        b = norm(t[2], lo, hi)
        if is_c(a) and is_c(b): return C(ev((k, a, b) + t[3:], 0))
        if is_c(a) and a[1] == 0: return b
        if is_c(b) and b[1] == 0: return a
        return (k, a, b) + t[3:]
    t = (k, a) + t[2:]
    if is_c(a): return C(ev(t, 0))
    if monotone(t, lo, hi) and ev(t, lo) == ev(t, hi): return C(ev(t, lo))
    if k == "udiv" and t[2] & (t[2] - 1) == 0: return norm(("shr", a, t[2].bit_length() - 1), lo, hi)
    if k == "urem" and t[2] & (t[2] - 1) == 0: return norm(("and", a, t[2] - 1), lo, hi)
    if k == "shr":
        if t[2] == 0: return a
        if a[0] == "shr": return norm(("shr", a[1], a[2] + t[2]), lo, hi)
        if a[0] == "and": return norm(("and", ("shr", a[1], t[2]), a[2] >> t[2]), lo, hi)
    if k == "and":
        m = t[2]
        if a[0] == "and": return norm(("and", a[1], a[2] & m), lo, hi)
        if a[0] == "or2": return norm(("or2", ("and", a[1], m), ("and", a[2], m)), lo, hi)          # a mask distributes over an or of two terms
        if a[0] == "shl" and (len(a) < 4 or a[3] >= 64 or True):
            if m >> a[2] == 0: return C(0)                                                           # everything the mask keeps was shifted in as zeros
            if m & ((1 << a[2]) - 1) == 0 or True: return _shl_and(a, m, lo, hi)
        if a[0] == "or": return norm(("or", ("and", a[1], m & ~a[2]), a[2] & m), lo, hi) if (a[2] & m) else norm(("and", a[1], m), lo, hi)
        if monotone(a, lo, hi):
            full = (1 << max(1, ev(a, hi).bit_length())) - 1
            m &= full
            if m == full: return a
            t = ("and", a, m)
        if m == 0: return C(0)
    if k == "or":
        if t[2] == 0: return a
        if a[0] == "or": return norm(("or", a[1], a[2] | t[2]), lo, hi)
    if k == "add" and t[2] == 0: return a
    if k == "sub" and t[2] == 0: return a
    # the operation width is irrelevant when the result cannot wrap on this interval: canonical width 64
    if k in ("add", "mulc", "shl") and t[3] != 64 and monotone(a, lo, hi) and _nowrap(t, lo, hi): t = t[:3] + (64,)
    if k == "sub" and t[3] != 64 and monotone(a, lo, hi) and ev(a, lo) >= t[2]: t = t[:3] + (64,)
    return t

def _shl_and(a, m, lo, hi):
    """(A << n) & m  ==  (A & (m >> n)) << n   (the low n bits of the shifted value are zero anyway)"""
    n = a[2]; inner = norm(("and", a[1], m >> n), lo, hi)
    if is_c(inner): return C((inner[1] << n) & ((1 << (a[3] if len(a) > 3 else 64)) - 1))
    return ("shl", inner, n) + a[3:]


def show(t):
    k = t[0]
    if k == "x": return "x"
    if k == "c": return str(t[1])
    if k == "sub": return "(%s-%d)" % (show(t[1]), t[2])
    if k == "add": return "(%s+%d)" % (show(t[1]), t[2])
    if k == "mulc": return "(%s*%d)" % (show(t[1]), t[2])
    if k == "shr": return "(%s>>%d)" % (show(t[1]), t[2])
    if k == "shl": return "(%s<<%d)" % (show(t[1]), t[2])
    if k == "and": return "(%s&0x%x)" % (show(t[1]), t[2])
    if k == "or": return "(%s|0x%x)" % (show(t[1]), t[2])
    if k in ("udiv", "urem"): return "(%s%s%d)" % (show(t[1]), "/" if k == "udiv" else "%", t[2])
    if k in ("or2", "add2"): return "(%s%s%s)" % (show(t[1]), "|" if k == "or2" else "+", show(t[2]))
    return repr(t)

# ---------------- interpreter ----------------
class Unsupported(Exception): pass


class NonIntervalClass(Unsupported):
    """a branch whose outcome, as a function of x, is true - false - true (or the reverse) at three increasing inputs: the set of
    inputs that take one side is not an interval, so the function's classes cannot be tabulated"""
    def __init__(self, term, pred, c, xs):
        Unsupported.__init__(self, "branch on %s %s %d has outcomes %s at x = %d < %d < %d: its classes are not intervals" % (show(term), pred, c, "TFT" if xs[3] else "FTF", xs[0], xs[1], xs[2]))
        self.xs = xs[:3]


class NotInjective(Unsupported):
    """two different inputs (witnesses of a non-interval class) for which the function writes the same bytes and returns the same value"""
    def __init__(self, x1, x2, ret, stores, why):
        Unsupported.__init__(self, "inputs %d and %d produce the same result (%s) - %s" % (x1, x2, " ".join("%02x" % stores[k] for k in sorted(stores)) or ret, why))
        self.x1 = x1; self.x2 = x2; self.ret = ret; self.stores = stores

class Ptr:
    def __init__(self, base, off): self.base = base; self.off = off
    def __repr__(self): return "%s%+d" % (self.base, self.off)

class Path:
    def __init__(self, lo, hi):
        self.lo = lo; self.hi = hi; self.mem = {}; self.stores = {}; self.steps = 0
    def fork(self, lo, hi):
        p = Path(lo, hi); p.mem = dict(self.mem); p.stores = dict(self.stores); p.steps = self.steps
        return p

class E1:
    def __init__(self, mod, input_kind="arg", input_arg=1, input_bits=64, dst_arg=0, in_lo=0, in_hi=None, const_args=None):
        self.mod = mod; self.input_kind = input_kind; self.input_arg = input_arg; self.const_args = const_args or {}
        self.input_bits = input_bits; self.dst_arg = dst_arg
        self.in_lo = in_lo; self.in_hi = (1 << input_bits) - 1 if in_hi is None else in_hi
        self.classes = []; self.nalloca = 0

    def run(self, fname):
        fn = self.mod.functions[fname]
        args = []
        for k, p in enumerate(fn.params):
            if p["t"].endswith("*"):
                args.append(Ptr("dst" if k == self.dst_arg else "in%d" % k, 0))
            elif self.input_kind == "arg" and k == self.input_arg: args.append(X)
            elif k in self.const_args: args.append(C(self.const_args[k], type_bits(p["t"]) or 64))
            else: raise Unsupported("free integer parameter %d of %s" % (k, fname))
        for path, ret in self.call(fn, args, Path(self.in_lo, self.in_hi)):
            self.classes.append((path.lo, path.hi, ret, dict(path.stores)))
        self.classes.sort(key=lambda c: c[0])
        return self.classes

    # generator of (path, return value) for all partitions
    def call(self, fn, args, path):
        yield from self.block(fn, fn.entry, None, {}, args, path)

    def val(self, o, env, args, path):
        k = o["k"]
        if k == "int": return C(int(o["v"]), o["bits"])
        if k == "arg": return args[o["v"]]
        if k == "inst": return env[o["v"]]
        if k == "null": return Ptr("null", 0)
        if k == "global":
            return Ptr("g:" + o["v"], 0)
        if k == "cexpr" and o["op"] in ("getelementptr", "bitcast"):
            b = self.val(o["ops"][0], env, args, path); return Ptr(b.base, b.off + int(o.get("off", 0)))
        raise Unsupported("operand %r" % (o,))

    def load(self, p, size, path):
        if p.base.startswith("g:"):
            g = self.mod.globals[p.base[2:]]
            if not g["constant"]: raise Unsupported("load from mutable global")
            if "int" in g: return C(int(g["int"]), g["bits"])
            if "bytes" in g:
                raw = bytes.fromhex(g["bytes"]); return C(int.from_bytes(raw[p.off:p.off + size], "little"), size * 8)
            if "struct" in g:
                o = g["struct"][0]
                if o["k"] == "int": return C((int(o["v"]) >> (8 * p.off)) & ((1 << (8 * size)) - 1), size * 8)
            raise Unsupported("global initializer")
        if p.base == "in0" and self.input_kind == "byte0" and p.off == 0 and size == 1: return X
        w = path.mem.get(("whole", p.base, p.off, size))
        if w is not None: return w
        # byte-granular local memory
        out = None
        for k in range(size):
            b = path.mem.get((p.base, p.off + k))
            if b is None: raise Unsupported("load of unknown memory %r+%d" % (p, k))
            out = b if k == 0 else ("or2", out, ("shl", b, 8 * k, 64))
        return norm(out, path.lo, path.hi)

    def byte_of(self, t, k, path):
        if t[0] == "bswap": return self.byte_of(t[1], t[2] // 8 - 1 - k, path)
        return norm(("and", ("shr", t, 8 * k), 0xff), path.lo, path.hi)

    def store(self, p, t, size, path):
        if isinstance(t, Ptr): raise Unsupported("pointer store")
        if p.base != "dst":
            for key in [k for k in path.mem if k[0] == "whole" and k[1] == p.base and k[2] < p.off + size and p.off < k[2] + k[3]]:
                del path.mem[key]
            path.mem[("whole", p.base, p.off, size)] = t
        for k in range(size):
            byte = self.byte_of(t, k, path)
            if p.base == "dst": path.stores[p.off + k] = byte
            else: path.mem[(p.base, p.off + k)] = byte

    def _canon(self, t, path):
        from .slices import canonical_term
        try: return canonical_term(t, path.lo, path.hi)
        except Exception: return None

    def split(self, t, pred, c, path):
        """partition [lo,hi] into (sub-interval, truth) pieces for condition  t <pred> c  (c constant)"""
        lo, hi = path.lo, path.hi
        if is_c(t):
            v = t[1]
            res = {"eq": v == c, "ne": v != c, "ult": v < c, "ule": v <= c, "ugt": v > c, "uge": v >= c}[pred]
            return [(lo, hi, res)]
        if not monotone(t, lo, hi):
            # a low-bits mask of x (a value narrowed before it is compared) makes the outcome periodic: look for three inputs that show it
            def res(x):
                v = ev(t, x)
                return {"eq": v == c, "ne": v != c, "ult": v < c, "ule": v <= c, "ugt": v > c, "uge": v >= c}[pred]
            periods = set()
            def masks(u):
                if u[0] in ("x", "c"): return
                if u[0] == "and" and (u[2] & (u[2] + 1)) == 0 and u[2]: periods.add(u[2] + 1)
                if u[0] in ("shl",) and len(u) > 3 and u[3] < 64: periods.add(1 << u[3])
                if u[0] in ("add", "sub", "mulc") and u[3] < 64: periods.add(1 << u[3])
                masks(u[1])
                if u[0] in ("or2", "add2"): masks(u[2])
            masks(t)
            pts = {lo, hi}
            for P in periods:
                for j in range(0, 4):
                    for d in (0, 1, P // 2, P - 1):
                        if lo + j * P + d <= hi: pts.add(lo + j * P + d)
                        if c + j * P + d <= hi and c + j * P + d >= lo: pts.add(c + j * P + d)
            pts = sorted(pts)
            # preferably two inputs one whole period apart (what the narrowing throws away is exactly what distinguishes them)
            for P in sorted(periods):
                for x1 in pts:
                    x3 = x1 + P
                    if x3 > hi or res(x1) != res(x3): continue
                    for x2 in (x1 + P // 2, x1 + 1, x3 - 1, x1 + P // 4):
                        if x1 < x2 < x3 and res(x2) != res(x1): raise NonIntervalClass(t, pred, c, (x1, x2, x3, res(x1)))
            for i1 in range(len(pts)):
                for i2 in range(i1 + 1, len(pts)):
                    if res(pts[i2]) == res(pts[i1]): continue
                    for i3 in range(i2 + 1, len(pts)):
                        if res(pts[i3]) == res(pts[i1]): raise NonIntervalClass(t, pred, c, (pts[i1], pts[i2], pts[i3], res(pts[i1])))
            raise Unsupported("branch on non-monotone term %s" % show(t))
        def last_le(cv):      # max x in [lo,hi] with t(x) <= cv, or lo-1
            if ev(t, lo) > cv: return lo - 1
            a, b = lo, hi
            while a < b:
                m = (a + b + 1) // 2
                if ev(t, m) <= cv: a = m
                else: b = m - 1
            return a
        le = last_le(c); lt = last_le(c - 1) if c > 0 else lo - 1
        pieces = []
        def add(a, b, truth):
            if a <= b: pieces.append((a, b, truth))
        if pred in ("ule", "ugt"): add(lo, le, pred == "ule"); add(le + 1, hi, pred == "ugt")
        elif pred in ("ult", "uge"): add(lo, lt, pred == "ult"); add(lt + 1, hi, pred == "uge")
        else:
            add(lo, lt, pred == "ne"); add(lt + 1, le, pred == "eq"); add(le + 1, hi, pred == "ne")
        return pieces

    def block(self, fn, b, prev, env, args, path):
        env = dict(env)
        # phis first (simultaneous)
        newv = {}
        for i in b.insts:
            if i.op != "phi": break
            for inc in i["incoming"]:
                if inc["b"] == prev.id: newv[i.id] = self.val(inc["v"], env, args, path); break
        env.update(newv)
        for i in b.insts:
            path.steps += 1
            if path.steps > 20000: raise Unsupported("step budget")
            op = i.op
            if op == "phi": continue
            V = lambda n: self.val(i.ops[n], env, args, path)
            bits = type_bits(i["t"]) or 64
            if op == "ashr":
                a0 = V(0); sb = type_bits(i["t"]) or 64
                if is_c(a0) or (monotone(a0, path.lo, path.hi) and ev(a0, path.hi) < (1 << (sb - 1))): op = "lshr"
                else: raise Unsupported("ashr of possibly negative term")
            if op in ("add", "sub", "mul", "shl", "lshr", "and", "or", "udiv", "urem", "xor"):
                a, c2 = V(0), V(1)
                if isinstance(a, Ptr) or isinstance(c2, Ptr): raise Unsupported("pointer arithmetic via int")
                if a[0] == "pint" and c2[0] == "pint" and op == "sub" and a[1].base == c2[1].base:
                    env[i.id] = C(a[1].off - c2[1].off, bits); continue
                if is_c(a) and is_c(c2):
                    f = {"add": lambda p, q: p + q, "sub": lambda p, q: p - q, "mul": lambda p, q: p * q, "shl": lambda p, q: p << q,
                         "lshr": lambda p, q: p >> q, "and": lambda p, q: p & q, "or": lambda p, q: p | q, "udiv": lambda p, q: p // q,
                         "urem": lambda p, q: p % q, "xor": lambda p, q: p ^ q}[op]
                    env[i.id] = C(f(a[1], c2[1]), bits); continue
                if is_c(c2):
                    c = c2[1]
                    t = {"add": ("add", a, c, bits), "sub": ("sub", a, c, bits), "mul": ("mulc", a, c, bits), "shl": ("shl", a, c, bits),
                         "lshr": ("shr", a, c), "and": ("and", a, c), "or": ("or", a, c), "udiv": ("udiv", a, c), "urem": ("urem", a, c)}.get(op)
                    if t is None: raise Unsupported(op)
                    # add of a "negative" constant (x + (2^bits - k), i.e. x - k written the way an optimiser or a cast would): where the sum
                    # wraps on the whole interval it is the plain difference
                    if op == "add" and bits < 128 and c >= (1 << (bits - 1)) and monotone(a, path.lo, path.hi) and ev(a, path.lo) + c >= (1 << bits) \
                            and ev(a, path.hi) < (1 << bits):
                        env[i.id] = norm(("sub", a, (1 << bits) - c, bits), path.lo, path.hi); continue
                    # sub that wraps on the lower part of the interval: split the interval at the wrap point; below it the
                    # result is a + (2^bits - c) (no wrap), above it the plain difference
                    if op == "sub" and monotone(a, path.lo, path.hi) and ev(a, path.lo) < c:
                        if ev(a, path.hi) < c:
                            env[i.id] = norm(("add", a, (1 << bits) - c, bits), path.lo, path.hi); continue
                        lo_, hi_ = path.lo, path.hi
                        while lo_ < hi_:
                            mid = (lo_ + hi_ + 1) // 2
                            if ev(a, mid) < c: lo_ = mid
                            else: hi_ = mid - 1
                        for (pa, pb, wrapped) in ((path.lo, lo_, True), (lo_ + 1, path.hi, False)):
                            p2 = path.fork(pa, pb); env2 = self.renorm(env, pa, pb)
                            a2 = norm(a, pa, pb)
                            env2[i.id] = norm(("add", a2, (1 << bits) - c, bits) if wrapped else ("sub", a2, c, bits), pa, pb)
                            yield from self.rest(fn, b, i.idx + 1, env2, args, p2)
                        return
                    env[i.id] = norm(t, path.lo, path.hi); continue
                if is_c(a) and op in ("add", "or", "and", "mul"):
                    c = a[1]
                    t = {"add": ("add", c2, c, bits), "or": ("or", c2, c), "and": ("and", c2, c), "mul": ("mulc", c2, c, bits)}[op]
                    env[i.id] = norm(t, path.lo, path.hi); continue
                if op == "or": env[i.id] = ("or2", a, c2); continue
                if op == "add": env[i.id] = ("add2", a, c2, bits); continue
                raise Unsupported("%s of two terms" % op)
            elif op in ("zext",):
                t = V(0)
                env[i.id] = C(t[1], bits) if is_c(t) else t          # a widened constant is a constant of the wider type (signed compares look at the width)
            elif op == "sext":
                t = V(0); sb = type_bits(i.ops[0]["t"])
                if is_c(t):
                    v = t[1]
                    if v >> (sb - 1): v -= 1 << sb
                    env[i.id] = C(v, bits)
                elif monotone(t, path.lo, path.hi) and ev(t, path.hi) < (1 << (sb - 1)): env[i.id] = t
                elif ubound(t, path.lo, path.hi) < (1 << (sb - 1)): env[i.id] = t        # cannot have its sign bit set
                elif t[0] == "or" and (t[2] >> (sb - 1)) & 1:
                    # the sign bit is set by construction (a continuation flag or-ed in): the extension fills the upper bits with ones
                    env[i.id] = norm(("or", t, ((1 << bits) - 1) & ~((1 << sb) - 1)), path.lo, path.hi)
                elif not monotone(t, path.lo, path.hi) and self._canon(t, path) is not None:
                    # a re-assembly of byte slices that is just x (or x - a) again: extend that
                    t = self._canon(t, path)
                    pieces = self.split(t, "uge", 1 << (sb - 1), path)
                    for (pa, pb, neg) in pieces:
                        p2 = path.fork(pa, pb); env2 = self.renorm(env, pa, pb); t2 = norm(t, pa, pb)
                        env2[i.id] = norm(("add", t2, ((1 << bits) - (1 << sb)), bits), pa, pb) if neg else t2
                        yield from self.rest(fn, b, i.idx + 1, env2, args, p2)
                    return
                elif monotone(t, path.lo, path.hi):
                    # the sign bit is set on the upper part of the interval only: below the boundary the value is kept, above it the
                    # extension fills the upper bits with ones (this is how `(ptr)[4] << 24` as an int turns into 0xffffffff........)
                    pieces = self.split(t, "uge", 1 << (sb - 1), path)
                    for (pa, pb, neg) in pieces:
                        p2 = path.fork(pa, pb); env2 = self.renorm(env, pa, pb); t2 = norm(t, pa, pb)
                        env2[i.id] = norm(("add", t2, ((1 << bits) - (1 << sb)), bits), pa, pb) if neg else t2
                        yield from self.rest(fn, b, i.idx + 1, env2, args, p2)
                    return
                else: raise Unsupported("sext of possibly negative term %s on [%d, %d]" % (show(t)[:200], path.lo, path.hi))
            elif op == "trunc": env[i.id] = norm(("and", V(0), (1 << bits) - 1), path.lo, path.hi)
            elif op in ("bitcast",): env[i.id] = V(0)
            elif op == "alloca":
                self.nalloca += 1; env[i.id] = Ptr("a%d" % self.nalloca, 0)
            elif op == "getelementptr":
                p = V(0); off = i["coff"]
                for v in i["var"]:
                    t = self.val(v["idx"], env, args, path)
                    if not is_c(t) and path.lo == path.hi and not isinstance(t, Ptr) and t[0] not in ("cmp", "pint"):
                        t = C(ev(t, path.lo), type_bits(v["idx"]["t"]) or 64)               # one input: the index is a number
                    if not is_c(t) and path.hi - path.lo <= 64:
                        # a lookup table indexed by (a function of) the input on a small interval: one input at a time
                        for xv in range(path.lo, path.hi + 1):
                            p2 = path.fork(xv, xv); env2 = self.renorm(env, xv, xv)
                            yield from self.rest(fn, b, i.idx, env2, args, p2)
                        return
                    if not is_c(t): raise Unsupported("variable GEP index %s" % show(t))
                    iv = t[1]; ib = t[2]
                    if iv >> (ib - 1): iv -= 1 << ib
                    off += iv * v["stride"]
                env[i.id] = Ptr(p.base, p.off + off)
            elif op == "load":
                p = V(0)
                env[i.id] = self.load(p, i["size"], path)
            elif op == "store":
                self.store(V(1), V(0), i["size"], path)
            elif op == "ptrtoint":
                p = V(0); env[i.id] = ("pint", p)
            elif op == "icmp":
                a, c2 = V(0), V(1)
                env[i.id] = ("cmp", i["pred"], a, c2, type_bits(i.ops[0]["t"]) or 64)
            elif op == "select":
                c = V(0)
                pieces = list(self.cond_pieces(c, path))
                if len(pieces) == 1 and (pieces[0][0], pieces[0][1]) == (path.lo, path.hi):
                    env[i.id] = V(1) if pieces[0][2] else V(2)
                else:
                    # the condition holds on part of the interval only: continue once per piece, as a branch would
                    for (pa, pb, truth) in pieces:
                        p2 = path.fork(pa, pb); env2 = self.renorm(env, pa, pb)
                        v = self.val(i.ops[1] if truth else i.ops[2], env2, args, p2)
                        env2[i.id] = norm(v, pa, pb) if isinstance(v, tuple) and v and v[0] in ("sub", "add", "shr", "and", "or", "udiv", "urem", "shl", "mulc", "or2", "add2") else v
                        yield from self.rest(fn, b, i.idx + 1, env2, args, p2)
                    return
            elif op == "call":
                callee = i.get("callee")
                if callee and callee.startswith("llvm.memcpy"):
                    d, s, n = V(0), V(1), V(2)
                    if not is_c(n): raise Unsupported("memcpy variable length")
                    for k in range(n[1]):
                        self.store(Ptr(d.base, d.off + k), self.load(Ptr(s.base, s.off + k), 1, path), 1, path)
                    continue
                if callee and callee.startswith("llvm.bswap"):
                    env[i.id] = ("bswap", V(0), bits); continue
                if callee and callee.startswith("llvm.ctlz"):
                    a = V(0)
                    if is_c(a): env[i.id] = C(bits - a[1].bit_length(), bits); continue
                    if not monotone(a, path.lo, path.hi): raise Unsupported("ctlz of a non-monotone term")
                    # constant on every sub-interval where the argument keeps its bit length: split there
                    pieces = []; cur = path.lo
                    while cur <= path.hi:
                        bl = ev(a, cur).bit_length(); lo_, hi_ = cur, path.hi
                        while lo_ < hi_:
                            mid = (lo_ + hi_ + 1) // 2
                            if ev(a, mid).bit_length() == bl: lo_ = mid
                            else: hi_ = mid - 1
                        pieces.append((cur, lo_, bl)); cur = lo_ + 1
                    if len(pieces) == 1: env[i.id] = C(bits - pieces[0][2], bits); continue
                    for (pa, pb, bl) in pieces:
                        p2 = path.fork(pa, pb); env2 = self.renorm(env, pa, pb); env2[i.id] = C(bits - bl, bits)
                        yield from self.rest(fn, b, i.idx + 1, env2, args, p2)
                    return
                g = self.mod.functions.get(callee) if callee else None
                if g is None or g.decl: raise Unsupported("call to %s" % callee)
                cargs = [V(n) for n in range(i["nargs"])]
                # continue the rest of this block for every result partition of the callee
                rest_idx = i.idx
                for p2, ret in self.call(g, cargs, path):
                    env2 = dict(env); env2[i.id] = ret
                    yield from self.rest(fn, b, rest_idx + 1, env2, args, p2.fork(p2.lo, p2.hi))
                return
            elif op == "br":
                yield from self.branch(fn, b, i, env, args, path); return
            elif op == "switch":
                t = V(0)
                if is_c(t):
                    tgt = i["default"]
                    for cs in i["cases"]:
                        if int(cs["v"]) == t[1]: tgt = cs["b"]
                    yield from self.block(fn, fn.bmap[tgt], getattr(b, "orig", b), env, args, path); return
                pieces = [(path.lo, path.hi, i["default"])]
                for cs in i["cases"]:
                    new = []
                    for lo, hi, tgt in pieces:
                        if tgt != i["default"]: new.append((lo, hi, tgt)); continue
                        sub = path.fork(lo, hi)
                        for a2, b2, truth in self.split(norm(t, lo, hi), "eq", int(cs["v"]), sub):
                            new.append((a2, b2, cs["b"] if truth else i["default"]))
                    pieces = new
                for lo, hi, tgt in pieces:
                    p2 = path.fork(lo, hi)
                    yield from self.block(fn, fn.bmap[tgt], getattr(b, "orig", b), self.renorm(env, lo, hi), args, p2)
                return
            elif op == "ret":
                yield (path, V(0) if i.ops else None); return
            elif op == "unreachable": return
            else: raise Unsupported("instruction %s" % op)

    def rest(self, fn, b, start, env, args, path):
        """run block b from instruction index start (after an inlined call)"""
        class _B:  # shallow view of the block tail
            pass
        orig = getattr(b, "orig", b)
        tail = _B(); tail.orig = orig; tail.id = orig.id; tail.insts = orig.insts[start:]; tail.succs = orig.succs; tail.preds = orig.preds
        yield from self.block(fn, tail, None, env, args, path)

    def renorm(self, env, lo, hi):
        out = {}
        for k, v in env.items():
            if isinstance(v, tuple) and v and v[0] in ("sub", "add", "shr", "and", "or", "udiv", "urem", "shl", "mulc", "or2", "add2"):
                out[k] = norm(v, lo, hi)
            else: out[k] = v
        return out

    def cond_pieces(self, c, path):
        if is_c(c): return [(path.lo, path.hi, bool(c[1]))]
        if c[0] != "cmp": raise Unsupported("condition %r" % (c,))
        _, pred, a, b2 = c[:4]; cw = c[4] if len(c) > 4 else 64
        if isinstance(a, Ptr) or isinstance(b2, Ptr): raise Unsupported("pointer compare")
        if a[0] == "pint" or b2[0] == "pint": raise Unsupported("ptrtoint compare")
        if pred[0] == "s":
            # signed compare: constants are re-read as signed; a term is required to stay below 2^(bits-1)
            def sgn(t):
                if is_c(t):
                    v, bits = t[1], t[2]
                    return v - (1 << bits) if v >> (bits - 1) else v
                return None
            sa, sb2 = sgn(a), sgn(b2)
            if sa is not None and sb2 is not None:
                res = {"slt": sa < sb2, "sle": sa <= sb2, "sgt": sa > sb2, "sge": sa >= sb2}[pred]
                return [(path.lo, path.hi, res)]
            # a term whose sign bit is set by construction (flag or-ed in, then sign-extended) against a non-negative constant
            for (t, cs, term_left) in ((a, sb2, True), (b2, sa, False)):
                if not is_c(t) and cs is not None and cs >= 0:
                    wbits = (b2 if term_left else a)[2]
                    if t[0] == "or" and (t[2] >> (wbits - 1)) & 1:
                        res = pred in ("slt", "sle") if term_left else pred in ("sgt", "sge")
                        return [(path.lo, path.hi, res)]
            for t in (a, b2):
                if not is_c(t):
                    # the sign is read at the width of the comparison (an i8 compare of a raw byte sees bit 7)
                    if ubound(t, path.lo, path.hi) >= (1 << (cw - 1)):
                        if lbound(t, path.lo, path.hi) >= (1 << (cw - 1)) and is_c(b2 if t is a else a):
                            # negative on the whole interval: against a non-negative constant the answer is fixed; against a negative one
                            # both are compared as unsigned numbers of that width (the order is the same among negatives)
                            other = sb2 if t is a else sa
                            if other is not None and other >= 0:
                                res = pred in ("slt", "sle") if t is a else pred in ("sgt", "sge")
                                return [(path.lo, path.hi, res)]
                            pred_u = "u" + pred[1:]
                            cu = (b2 if t is a else a)[1] & ((1 << cw) - 1)
                            if t is a: return self.split(a, pred_u, cu, path) if monotone(a, path.lo, path.hi) else self._range_cmp(a, pred_u, cu, path)
                            flip = {"ult": "ugt", "ule": "uge", "ugt": "ult", "uge": "ule"}[pred_u]
                            return self.split(b2, flip, cu, path) if monotone(b2, path.lo, path.hi) else self._range_cmp(b2, flip, cu, path)
                        raise Unsupported("signed compare of a possibly negative term")
            neg_const = (sb2 is not None and sb2 < 0) or (sa is not None and sa < 0)
            if neg_const:
                # term >= 0 > negative constant
                if sb2 is not None: res = pred in ("sgt", "sge")
                else: res = pred in ("slt", "sle")
                return [(path.lo, path.hi, res)]
            pred = "u" + pred[1:]
        if is_c(b2) and not is_c(a) and not monotone(a, path.lo, path.hi):
            # decided by the range of the term alone (e.g. (x & 0x7f) >= 0, (x & 0x7f) < 128)
            u = ubound(a, path.lo, path.hi); cst = b2[1]
            if pred == "uge" and cst == 0: return [(path.lo, path.hi, True)]
            if pred == "ult" and (cst == 0 or u < cst): return [(path.lo, path.hi, cst != 0)]
            if pred == "ule" and u <= cst: return [(path.lo, path.hi, True)]
            if pred == "ugt" and u <= cst: return [(path.lo, path.hi, False)]
            if pred == "uge" and u < cst: return [(path.lo, path.hi, False)]
        if is_c(b2): return self.split(a, pred, b2[1], path)
        if is_c(a):
            flip = {"ult": "ugt", "ule": "uge", "ugt": "ult", "uge": "ule", "eq": "eq", "ne": "ne"}[pred]
            return self.split(b2, flip, a[1], path)
        raise Unsupported("compare of two non-constant terms")

    def _range_cmp(self, t, pred, cst, path):
        u = ubound(t, path.lo, path.hi); l = lbound(t, path.lo, path.hi)
        if pred == "ult" and u < cst: return [(path.lo, path.hi, True)]
        if pred == "ult" and l >= cst: return [(path.lo, path.hi, False)]
        if pred == "ule" and u <= cst: return [(path.lo, path.hi, True)]
        if pred == "ule" and l > cst: return [(path.lo, path.hi, False)]
        if pred == "ugt" and l > cst: return [(path.lo, path.hi, True)]
        if pred == "ugt" and u <= cst: return [(path.lo, path.hi, False)]
        if pred == "uge" and l >= cst: return [(path.lo, path.hi, True)]
        if pred == "uge" and u < cst: return [(path.lo, path.hi, False)]
        raise Unsupported("compare of a non-monotone term not decided by its range")

    def branch(self, fn, b, i, env, args, path):
        b = getattr(b, "orig", b)
        if len(i.ops) == 1:
            yield from self.block(fn, fn.bmap[i.ops[0]["v"]], b, env, args, path); return
        c = self.val(i.ops[0], env, args, path)
        fls, tru = i.ops[1]["v"], i.ops[2]["v"]
        if isinstance(c, tuple) and c[0] == "cmp" and (not isinstance(c[2], tuple) or not isinstance(c[3], tuple)): raise Unsupported("ptr compare")
        if isinstance(c, tuple) and c[0] == "cmp" and c[2][0] == "pint" and c[3][0] == "pint":
            # pointer difference compare handled via sub of pints elsewhere
            raise Unsupported("ptr compare")
        for lo, hi, truth in self.cond_pieces(c, path):
            p2 = path.fork(lo, hi)
            yield from self.block(fn, fn.bmap[tru if truth else fls], b, self.renorm(env, lo, hi), args, p2)

def table(mod, fname, **kw):
    try:
        return _table(mod, fname, **kw)
    except NonIntervalClass as ex:
        # evaluate the function at the two witnesses that take the same side (constant propagation on one-point intervals)
        x1, _x2, x3 = ex.xs
        try:
            k1 = dict(kw); k1["in_lo"] = k1["in_hi"] = x1; r1 = _table(mod, fname, **k1)
            k3 = dict(kw); k3["in_lo"] = k3["in_hi"] = x3; r3 = _table(mod, fname, **k3)
        except Unsupported: raise ex
        if len(r1) == 1 and len(r3) == 1:
            (_, _, ret1, st1), (_, _, ret3, st3) = r1[0], r3[0]
            cst = lambda st: {k: v[1] for k, v in st.items()} if all(is_c(v) for v in st.values()) else None
            s1, s3 = cst(st1), cst(st3)
            same_ret = (ret1 is None and ret3 is None) or (ret1 is not None and ret3 is not None and is_c(ret1) and is_c(ret3) and ret1[1] == ret3[1])
            if s1 is not None and s1 == s3 and same_ret: raise NotInjective(x1, x3, ret1[1] if ret1 is not None else None, s1, str(ex))
        raise ex


def _table(mod, fname, **kw):
    e = E1(mod, **kw)
    return e.run(fname)

def fmt_table(cls):
    out = []
    for lo, hi, ret, stores in cls:
        r = show(ret) if ret is not None else "-"
        st = ", ".join("z%d=%s" % (k, show(v)) for k, v in sorted(stores.items()))
        out.append("  x in [%d, %d]  ret=%s  %s" % (lo, hi, r, st))
    return "\n".join(out)

if False:
    mod = Module(sys.argv[1])
    for fname, kw in (("varintTaggedPut64", {}), ("varintTaggedLen", dict(input_arg=0, dst_arg=-1)),
                      ("varintTaggedGetLen", dict(input_kind="byte0", input_bits=8, dst_arg=-1)),
                      ("varintChainedSimpleEncode64", {}), ("varintChainedSimpleLength", dict(input_arg=0, dst_arg=-1)),
                      ("varintChainedVarintLen", dict(input_arg=0, dst_arg=-1)),
                      ("varintChainedPutVarint", {}), ("varintExternalPut", {}), ("varintExternalBigEndianPut", {})):
        print(fname)
        try: print(fmt_table(table(mod, fname, **kw)))
        except Unsupported as e: print("  UNSUPPORTED:", e)
