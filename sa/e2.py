"""E2 - bit-layout analysis (DESIGN 3): abstract interpretation of the packed-array / bitstream / bit-matrix accessors.

Integers are linear forms over opaque symbols (sa.lin.Lin).  A division or remainder of such a form by a constant d that does not
divide its coefficients *partitions* the symbol by its residue (Granger's congruence domain, made disjunctive): inside one class
every shift amount and mask is a constant.  Machine words are bit vectors whose bits are constants, input bits (sym, i) or small
boolean expressions over them.  Memory reached through a pointer parameter is a map  byte-offset form -> bit vector; the first read
of a location yields the symbolic old contents.  Nothing is executed; unknown control flow forks, unsupported constructs raise."""
from math import gcd
from .lin import Lin
from .ir import type_bits


class Unsupported(Exception): pass


# ---------------- bit expressions ----------------
def b_not(a):
    if a == 0: return 1
    if a == 1: return 0
    if isinstance(a, tuple) and a[0] == "not": return a[1]
    return ("not", a)
def b_and(a, b):
    if a == 0 or b == 0: return 0
    if a == 1: return b
    if b == 1: return a
    if a == b: return a
    if b_not(a) == b: return 0
    return ("and",) + tuple(sorted((a, b), key=repr))
def b_or(a, b):
    if a == 1 or b == 1: return 1
    if a == 0: return b
    if b == 0: return a
    if a == b: return a
    if b_not(a) == b: return 1
    return ("or",) + tuple(sorted((a, b), key=repr))
def b_xor(a, b):
    if a == 0: return b
    if b == 0: return a
    if a == 1: return b_not(b)
    if b == 1: return b_not(a)
    if a == b: return 0
    return ("xor",) + tuple(sorted((a, b), key=repr))


class BV:
    """little-endian list of bit expressions"""
    __slots__ = ("bits",)
    def __init__(self, bits): self.bits = list(bits)
    @staticmethod
    def const(v, w): return BV([(v >> i) & 1 for i in range(w)])
    @staticmethod
    def sym(name, w, known=None):
        """known: number of low bits that may be non-zero (precondition val < 2^known)"""
        return BV([(name, i) if (known is None or i < known) else 0 for i in range(w)])
    @property
    def w(self): return len(self.bits)
    def is_const(self): return all(b in (0, 1) for b in self.bits)
    def value(self): return sum(b << i for i, b in enumerate(self.bits))
    def resize(self, w): return BV((self.bits + [0] * w)[:w])
    def shl(self, k): return BV(([0] * k + self.bits)[:self.w])
    def lshr(self, k): return BV((self.bits[k:] + [0] * self.w)[:self.w])
    def map2(self, o, f): return BV([f(a, b) for a, b in zip(self.bits, o.bits)])
    def __eq__(self, o): return isinstance(o, BV) and self.bits == o.bits
    def __repr__(self): return "BV%d[%s]" % (self.w, ",".join(fmt_bit(b) for b in self.bits))


def fmt_bit(b):
    if b in (0, 1): return str(b)
    if isinstance(b, tuple) and len(b) == 2 and isinstance(b[0], str) and isinstance(b[1], int): return "%s%d" % b
    return "(" + b[0] + " " + " ".join(fmt_bit(x) for x in b[1:]) + ")"


class Ptr:
    def __init__(self, base, off): self.base = base; self.off = off      # off: Lin (bytes)


class Path:
    def __init__(self):
        self.subst = {}      # opaque symbol -> Lin (m*q + r) after a residue split
        self.local = {}      # (alloca id, byte off, size) -> value
        self.reads = {}      # (base, off key, size) -> BV old contents
        self.writes = {}     # (base, off key, size) -> BV new contents
        self.offs = {}       # off key -> Lin
        self.cases = []      # description of the residue classes chosen
        self.ret = None; self.steps = 0
        self.alias = {}
        self.calls = []      # uninterpreted side-effect-free calls made on this path: (callee, argument keys)
    def fork(self):
        p = Path(); p.subst = dict(self.subst); p.local = dict(self.local); p.reads = dict(self.reads); p.writes = dict(self.writes)
        p.offs = dict(self.offs); p.cases = list(self.cases); p.steps = self.steps; p.alias = dict(self.alias); p.calls = list(self.calls)
        return p


class E2:
    def __init__(self, mod, const_args=None, sym_args=None, known_bits=None, max_paths=4096):
        """const_args {idx: int}; sym_args {idx: name} integer params that are opaque symbols (default name arg<idx>);
        known_bits {idx: n} value parameters that are bit vectors with only the low n bits possibly set"""
        self.mod = mod; self.const_args = const_args or {}; self.sym_args = sym_args or {}; self.known_bits = known_bits or {}
        self.nfresh = 0; self.max_paths = max_paths; self.npaths = 0
        self.pure = None          # names of callees known to have an empty Mod set (may be left uninterpreted)

    # ---- values ----
    def fresh(self, tag):
        self.nfresh += 1; return ("u%d" % self.nfresh, tag)
    def apply(self, l, path):
        changed = True
        while changed:
            changed = False
            for a in list(l.t):
                if a in path.subst: l = l.subst(a, path.subst[a]); changed = True
        return l
    def as_lin(self, v, path):
        if isinstance(v, Lin): return self.apply(v, path)
        if isinstance(v, BV):
            if v.is_const(): return Lin.const(v.value())
            raise Unsupported("bit vector used as an integer")
        raise Unsupported("value %r as integer" % (v,))
    def as_bv(self, v, w, path):
        if isinstance(v, BV): return v.resize(w) if v.w != w else v
        if isinstance(v, Lin):
            v = self.apply(v, path)
            if v.is_const(): return BV.const(v.c & ((1 << w) - 1), w)
            # an integer we know nothing about bit-wise: unknown bits (within the documented value range when one is set)
            return BV.sym(self.fresh("int")[0], w, self.arith_bits)
        raise Unsupported("value %r as bits" % (v,))

    def run(self, fname):
        fn = self.mod.fn(fname)
        if fn is None: raise Unsupported("no function %s" % fname)
        args = []
        for k, p in enumerate(fn.params):
            t = p["t"]
            if t.endswith("*"): args.append(Ptr("p%d" % k, Lin()))
            elif k in self.const_args: args.append(Lin.const(self.const_args[k]))
            elif k in self.known_bits: args.append(BV.sym("val", type_bits(t) or 64, self.known_bits[k]))
            else: args.append(Lin.atom(self.sym_args.get(k, "arg%d" % k)))
        out = []
        for path in self.block(fn, fn.entry, None, {}, args, Path(), 0):
            out.append(path)
        return out

    # ---- residue split ----
    def split_for(self, l, d, path):
        """make l divisible-analysable by d: returns list of paths (possibly forked) in which every coefficient of l (after
        substitution) is a multiple of d"""
        l = self.apply(l, path)
        bad = [(a, c) for a, c in l.t.items() if c % d != 0]
        if not bad: return [path]
        if len(bad) > 1 or len(l.t) > 1 and False:
            # several symbols: name the whole form
            key = l.key()
            if key not in path.alias:
                s = self.fresh("sum"); path.alias[key] = s
                # l == s : express one bad symbol through s (coefficient must be +-1)
                a, c = bad[0]
                if abs(c) != 1: raise Unsupported("cannot alias %r" % (l,))
                rest = l - Lin.atom(a).scale(c)
                path.subst[a] = (Lin.atom(s) - rest).scale(c)        # a = c*(s - rest)  (c = +-1)
            return self.split_for(Lin.atom(path.alias[key]), d, path)
        a, c = bad[0]
        m = d // gcd(abs(c), d)
        if m > 64: raise Unsupported("residue split modulo %d" % m)
        outs = []
        for r in range(m):
            p2 = path.fork(); q = self.fresh("q")
            p2.subst[a] = Lin.atom(q).scale(m) + r
            p2.cases.append((a, m, r))
            outs.append(p2)
        return outs

    # ---- interpreter ----
    def val(self, o, env, args):
        k = o["k"]
        if k == "int": return Lin.const(int(o["v"])) if o["bits"] > 1 else Lin.const(int(o["v"]))
        if k == "arg": return args[o["v"]]
        if k == "inst": return env[o["v"]]
        if k in ("null",): return Ptr("null", Lin())
        if k == "undef": return Lin.const(0)
        raise Unsupported("operand %r" % (o,))

    def block(self, fn, b, prev, env, args, path, depth):
        env = dict(env)
        newv = {}
        for i in b.insts:
            if i.op != "phi": break
            for inc in i["incoming"]:
                if prev is not None and inc["b"] == prev.id: newv[i.id] = self.val(inc["v"], env, args); break
        env.update(newv)
        yield from self.insts(fn, b, 0, env, args, path, depth)

    def insts(self, fn, b, start, env, args, path, depth):
        for idx in range(start, len(b.insts)):
            i = b.insts[idx]
            path.steps += 1
            if path.steps > 5000: raise Unsupported("step budget")
            op = i.op
            if op == "phi": continue
            V = lambda n: self.val(i.ops[n], env, args)
            bits = type_bits(i["t"]) or 64
            if op == "and" and isinstance(V(0), Lin) and not self.apply(V(0), path).is_const() and isinstance(V(1), Lin) \
                    and self.apply(V(1), path).is_const() and (self.apply(V(1), path).c & (self.apply(V(1), path).c + 1)) == 0:
                op = "urem_mask"
            if op in ("udiv", "urem", "lshr", "shl", "urem_mask") and isinstance(V(0), Lin) and not self.apply(V(0), path).is_const():
                # arithmetic on an integer form
                a = V(0); cv = self.as_lin(V(1), path)
                if not cv.is_const(): raise Unsupported("%s by a symbolic amount" % op)
                if op == "urem_mask": cv = cv + 1; op = "urem"
                d = cv.c if op in ("udiv", "urem") else (1 << cv.c)
                if op == "shl": env[i.id] = self.apply(a, path).scale(d); continue
                outs = self.split_for(a, d, path)
                if len(outs) > 1 or outs[0] is not path:
                    for p2 in outs:
                        self.npaths += 1
                        if self.npaths > self.max_paths: raise Unsupported("path budget")
                        yield from self.insts(fn, b, idx, dict(env), args, p2, depth)
                    return
                l = self.apply(a, path)
                if op in ("udiv", "lshr"):
                    env[i.id] = Lin(l.c // d, {s: c // d for s, c in l.t.items()})
                else: env[i.id] = Lin.const(l.c % d)
                continue
            if op in ("udiv", "urem") and isinstance(V(0), Lin) and self.apply(V(0), path).is_const():
                cv = self.as_lin(V(1), path)
                if not cv.is_const() or cv.c == 0: raise Unsupported("%s by %r" % (op, cv))
                a = self.apply(V(0), path).c & ((1 << bits) - 1)
                env[i.id] = Lin.const(a // cv.c if op == "udiv" else a % cv.c); continue
            if op in ("udiv", "sdiv") and isinstance(V(0), BV):
                a = V(0); cv = self.as_lin(V(1), path)
                if not cv.is_const() or cv.c <= 0 or cv.c & (cv.c - 1): raise Unsupported("division of bits by %r" % (cv,))
                av = self.as_bv(a, bits, path)
                if op == "sdiv" and av.bits[-1] != 0: raise Unsupported("sdiv of possibly negative bits")
                env[i.id] = av.lshr(cv.c.bit_length() - 1); continue
            if op in ("add", "sub", "mul"):
                a, c = V(0), V(1)
                if isinstance(a, Ptr) or isinstance(c, Ptr): raise Unsupported("pointer arithmetic via integers")
                if isinstance(a, BV) or isinstance(c, BV):
                    # bits used as an integer: a constant; in a product, an opaque integer named after its bit pattern
                    if isinstance(a, BV) and a.is_const(): a = Lin.const(a.value())
                    if isinstance(c, BV) and c.is_const(): c = Lin.const(c.value())
                    if op == "mul":
                        if isinstance(a, BV): a = Lin.atom(("bits", repr(a)))
                        if isinstance(c, BV): c = Lin.atom(("bits", repr(c)))
                if isinstance(a, Lin) and isinstance(c, Lin):
                    a, c = self.apply(a, path), self.apply(c, path)
                    if op == "add": r = a + c
                    elif op == "sub": r = a - c
                    elif a.is_const(): r = c.scale(a.c)
                    elif c.is_const(): r = a.scale(c.c)
                    else: r = Lin.atom(("mul",) + tuple(sorted((a.key(), c.key()), key=repr)))
                    if op == "mul" and bits < 64 and not r.is_const():
                        # a symbolic product formed in a narrow type: exact only while it stays below 2^bits (checked by the caller)
                        self.__dict__.setdefault("narrow_products", []).append((i, bits, (a if c.is_const() else c), (c.c if c.is_const() else (a.c if a.is_const() else None))))
                    if r.is_const(): r = Lin.const(r.c & ((1 << bits) - 1))
                    env[i.id] = r; continue
                # arithmetic on symbolic bits: result unknown, but stays within the documented value range (see property)
                env[i.id] = BV.sym(self.fresh("arith")[0], bits, self.arith_bits); continue
            if op in ("and", "or", "xor", "shl", "lshr", "ashr"):
                a, c = V(0), V(1)
                if op in ("shl", "lshr", "ashr"):
                    k = self.as_lin(c, path)
                    if not k.is_const(): raise Unsupported("shift by a symbolic amount %r" % (k,))
                    av = self.as_bv(a, bits, path)
                    if k.c >= bits: env[i.id] = BV.const(0, bits); continue
                    if op == "ashr" and av.bits[-1] != 0: raise Unsupported("ashr of possibly negative")
                    env[i.id] = av.shl(k.c) if op == "shl" else av.lshr(k.c); continue
                av, cv = self.as_bv(a, bits, path), self.as_bv(c, bits, path)
                env[i.id] = av.map2(cv, {"and": b_and, "or": b_or, "xor": b_xor}[op]); continue
            if op in ("zext", "trunc"):
                a = V(0)
                if isinstance(a, Lin):
                    a = self.apply(a, path)
                    if a.is_const(): env[i.id] = Lin.const(a.c & ((1 << bits) - 1))
                    else: env[i.id] = a                 # in-range by assumption (offsets / sizes)
                else: env[i.id] = a.resize(bits)
                continue
            if op == "sext":
                a = V(0)
                if isinstance(a, Lin):
                    a = self.apply(a, path)
                    if a.is_const():
                        sb = type_bits(i.ops[0]["t"]); v = a.c & ((1 << sb) - 1)
                        if v >> (sb - 1): v -= 1 << sb
                        env[i.id] = Lin.const(v)
                    else: env[i.id] = a
                else:
                    if a.bits[-1] != 0: raise Unsupported("sext of possibly negative bits")
                    env[i.id] = a.resize(bits)
                continue
            if op in ("bitcast", "freeze"): env[i.id] = V(0); continue
            if op == "alloca": env[i.id] = Ptr(("alloca", i.id), Lin()); continue
            if op == "getelementptr":
                p = V(0)
                if not isinstance(p, Ptr): raise Unsupported("gep on non-pointer")
                off = p.off + i["coff"]
                for v in i["var"]:
                    off = off + self.as_lin(self.val(v["idx"], env, args), path).scale(v["stride"])
                env[i.id] = Ptr(p.base, off); continue
            if op == "load":
                env[i.id] = self.load(V(0), i["size"], i["t"], path); continue
            if op == "store":
                self.store(V(1), V(0), i["size"], path); continue
            if op == "icmp":
                a, c = V(0), V(1)
                env[i.id] = self.icmp(i["pred"], a, c, path, type_bits(i.ops[0]["t"]) or 64); continue
            if op == "select":
                c = V(0)
                if isinstance(c, Lin) and self.apply(c, path).is_const(): env[i.id] = V(1) if self.apply(c, path).c else V(2)
                elif isinstance(c, BV) and c.is_const(): env[i.id] = V(1) if c.value() else V(2)
                else:
                    a, d2 = V(1), V(2)
                    if isinstance(a, BV) or isinstance(d2, BV):
                        env[i.id] = BV.sym(self.fresh("sel")[0], bits, self.arith_bits)
                    else: raise Unsupported("select of integers on an unknown condition")
                continue
            if op == "call":
                c = i.get("callee") or ""
                if c.startswith(("llvm.memcpy", "llvm.memmove")):
                    n = self.as_lin(V(2), path)
                    if not n.is_const(): raise Unsupported("memcpy of symbolic length")
                    sp_, dp_ = V(1), V(0)
                    if isinstance(sp_, Ptr) and isinstance(dp_, Ptr) and isinstance(sp_.base, tuple) and sp_.base[0] == "alloca" and isinstance(dp_.base, tuple) and dp_.base[0] == "alloca":
                        so_ = self.apply(sp_.off, path); do_ = self.apply(dp_.off, path)
                        if so_.is_const() and do_.is_const() and path.local.get((sp_.base, so_.c, n.c)) is None:
                            # indeterminate bytes moved from one local to another (struct padding): the destination stays unwritten - reading
                            # it later is still refused
                            path.local.pop((dp_.base, do_.c, n.c), None); continue
                    v = self.load(V(1), n.c, "i%d" % (8 * n.c), path); self.store(V(0), v, n.c, path); continue
                if c.startswith(("llvm.dbg", "llvm.lifetime")): continue
                g = self.mod.fn(c)
                if g is None: raise Unsupported("call to %s" % c)
                from .ival import const_return
                cr = const_return(self.mod, c)
                if cr is not None: env[i.id] = Lin.const(cr); continue          # e.g. endianIsLittle() on this target
                cargs = [V(n) for n in range(i["nargs"])]
                results = None
                if depth < 3 and len(g.blocks) <= 40:
                    try:
                        saved = self.npaths
                        results = list(self.block(g, g.entry, None, {}, cargs, path.fork(), depth + 1))
                    except Unsupported:
                        results = None; self.npaths = saved
                if results is None:
                    # a side-effect-free callee that cannot be interpreted: an uninterpreted function of its arguments
                    if self.pure is None or c not in self.pure or i["t"] == "void" or i["t"].endswith("*"): raise Unsupported("call to %s" % c)
                    def akey(a):
                        if isinstance(a, Ptr): return ("ptr", a.base, self.apply(a.off, path).key())
                        if isinstance(a, Lin): return self.apply(a, path).key()
                        return repr(a)
                    path.calls.append((c, tuple(akey(a) for a in cargs)))
                    env[i.id] = Lin.atom(("call", c) + tuple(akey(a) for a in cargs)); continue
                for p2 in results:
                    env2 = dict(env); env2[i.id] = p2.ret; p2.ret = None
                    yield from self.insts(fn, b, idx + 1, env2, args, p2, depth)
                return
            if op == "br":
                if len(i.ops) == 1:
                    yield from self.block(fn, fn.bmap[i.ops[0]["v"]], b, env, args, path, depth); return
                c = V(0); fls, tru = i.ops[1]["v"], i.ops[2]["v"]
                cv = None
                if isinstance(c, Lin) and self.apply(c, path).is_const(): cv = bool(self.apply(c, path).c)
                elif isinstance(c, BV) and c.is_const(): cv = bool(c.value())
                if cv is not None:
                    yield from self.block(fn, fn.bmap[tru if cv else fls], b, env, args, path, depth); return
                for tgt in (tru, fls):                      # unknown condition: both ways; only `form == 0` is recorded
                    p2 = path.fork(); p2.cases.append(("branch", i.line, tgt == tru))
                    # a branch on one bit of a symbolic value (if (flag) ...): that bit is known on each side
                    if isinstance(c, BV) and c.w >= 1:
                        e = c.bits[0]; truth = (tgt == tru)
                        while isinstance(e, tuple) and e and e[0] == "not": e = e[1]; truth = not truth
                        if isinstance(e, tuple) and len(e) == 2 and isinstance(e[0], str) and isinstance(e[1], int) and e[0] not in ("not", "cmp"):
                            p2.cases.append(("bit", e, 1 if truth else 0))
                    if isinstance(c, BV) and c.w >= 1 and isinstance(c.bits[0], tuple) and c.bits[0][0] in ("cmp", "not"):
                        e = c.bits[0]; truth = (tgt == tru)
                        if e[0] == "not": e = e[1]; truth = not truth
                        if isinstance(e, tuple) and e[0] == "cmp" and isinstance(e[2], Lin) and ((e[1] == "eq") == truth) and e[1] in ("eq", "ne"):
                            d = self.apply(e[2], p2)
                            if len(d.t) == 1:
                                (a, k), = d.t.items()
                                if abs(k) == 1 and a not in p2.subst: p2.subst[a] = Lin.const(-d.c * k)
                    self.npaths += 1
                    if self.npaths > self.max_paths: raise Unsupported("path budget")
                    yield from self.block(fn, fn.bmap[tgt], b, env, args, p2, depth)
                return
            if op == "switch":
                v = self.as_lin(V(0), path)
                if not v.is_const(): raise Unsupported("switch on a symbolic value")
                tgt = i["default"]
                for cs in i["cases"]:
                    if int(cs["v"]) == v.c: tgt = cs["b"]
                yield from self.block(fn, fn.bmap[tgt], b, env, args, path, depth); return
            if op == "ret":
                path.ret = V(0) if i.ops else None
                yield path; return
            if op == "unreachable": return
            raise Unsupported("instruction %s" % op)

    arith_bits = None

    def icmp(self, pred, a, c, path, w):
        if isinstance(a, Lin) and isinstance(c, Lin):
            a, c = self.apply(a, path), self.apply(c, path)
            if a.is_const() and c.is_const():
                def rd(v):
                    v &= (1 << w) - 1
                    if pred.startswith("s") and v >> (w - 1): v -= 1 << w
                    return v
                x, y = rd(a.c), rd(c.c)
                r = {"eq": x == y, "ne": x != y, "ult": x < y, "ule": x <= y, "ugt": x > y, "uge": x >= y,
                     "slt": x < y, "sle": x <= y, "sgt": x > y, "sge": x >= y}[pred]
                return Lin.const(int(r))
            d = a - c
            if d.is_const():
                x = d.c
                r = {"eq": x == 0, "ne": x != 0, "ult": x < 0, "ule": x <= 0, "ugt": x > 0, "uge": x >= 0,
                     "slt": x < 0, "sle": x <= 0, "sgt": x > 0, "sge": x >= 0}[pred]
                return Lin.const(int(r))
            return BV([("cmp", pred, d)])
        av, cv = self.as_bv(a, w, path), self.as_bv(c, w, path)
        if av.is_const() and cv.is_const():
            x, y = av.value(), cv.value()
            r = {"eq": x == y, "ne": x != y, "ult": x < y, "ule": x <= y, "ugt": x > y, "uge": x >= y}.get(pred)
            if r is None: raise Unsupported("signed compare of bit vectors")
            return Lin.const(int(r))
        if pred in ("eq", "ne") and cv.is_const() and cv.value() == 0:
            # x == 0  <=>  no bit set
            e = 0
            for bt in av.bits: e = b_or(e, bt)
            return BV([e if pred == "ne" else b_not(e)])
        return BV([("cmp", pred, repr(av), repr(cv))])

    def load(self, p, size, t, path):
        if not isinstance(p, Ptr): raise Unsupported("load through non-pointer")
        off = self.apply(p.off, path); w = 8 * size
        if isinstance(p.base, tuple) and p.base[0] == "alloca":
            if not off.is_const(): raise Unsupported("local indexed symbolically")
            v = path.local.get((p.base, off.c, size))
            if v is None: raise Unsupported("load of unwritten local")
            return v
        key = (p.base, off.key(), size); path.offs[off.key()] = off
        if key in path.writes: return path.writes[key]
        for (b2, k2, s2) in list(path.writes) + list(path.reads):
            if b2 == p.base and (k2, s2) != (off.key(), size):
                o2 = path.offs[k2]; d = off - o2
                if d.is_const() and -size < d.c < s2: raise Unsupported("overlapping accesses of different shape")
        if key not in path.reads: path.reads[key] = BV.sym("old%d" % len(path.reads), w)
        v = path.reads[key]
        return v if not t.endswith("*") else v

    def store(self, p, v, size, path):
        if not isinstance(p, Ptr): raise Unsupported("store through non-pointer")
        off = self.apply(p.off, path)
        if isinstance(p.base, tuple) and p.base[0] == "alloca":
            if not off.is_const(): raise Unsupported("local indexed symbolically")
            path.local[(p.base, off.c, size)] = v; return
        key = (p.base, off.key(), size); path.offs[off.key()] = off
        path.writes[key] = self.as_bv(v, 8 * size, path)
