"""Small interval evaluator used to prune infeasible CFG edges of a callee analysed under constant integer arguments
(context specialisation), and by E-RANGE.  Values are mathematical integers; anything not understood is the full range
of its type (sound over-approximation)."""
from .ir import type_bits

INF = float("inf")


def type_range(t, signed=False):
    b = type_bits(t)
    if b is None: return (-INF, INF)
    if b == 1: return (0, 1)
    return (0, (1 << b) - 1)


_CR = {}


def global_bytes(mod, name):
    g = mod.globals.get(name)
    if g is None or not g.get("constant"): return None
    if "bytes" in g: return bytes.fromhex(g["bytes"])
    if "int" in g: return int(g["int"]).to_bytes(g["bits"] // 8, "little")
    if "struct" in g:
        out = b""
        for o in g["struct"]:
            if o["k"] != "int": return None
            out += int(o["v"]).to_bytes(max(1, o["bits"] // 8), "little")
        return out
    return None


def const_return(mod, name):
    """value returned by a parameterless single-block function that only inspects constant globals
    (endianIsLittle() reads the first byte of a constant union): little-endian target"""
    if name is None: return None
    key = (id(mod), name)
    if key in _CR: return _CR[key]
    _CR[key] = None
    fn = mod.fn(name)
    if fn is None or fn.params or len(fn.blocks) != 1: return None
    val = {}
    def ev(o):
        if o["k"] == "int": return int(o["v"])
        if o["k"] == "inst": return val.get(o["v"])
        return None
    def gaddr(o):
        # (global name, byte offset) for constant expressions over a global
        if o["k"] == "global": return (o["v"], 0)
        if o["k"] == "cexpr" and o["op"] in ("bitcast", "getelementptr"):
            b = gaddr(o["ops"][0])
            if b is None: return None
            return (b[0], b[1] + int(o.get("off", 0))) if o["op"] == "getelementptr" else b
        return None
    for i in fn.blocks[0].insts:
        if i.op == "load":
            ga = gaddr(i.ops[0])
            by = global_bytes(mod, ga[0]) if ga else None
            if by is not None and ga[1] + i["size"] <= len(by): val[i.id] = int.from_bytes(by[ga[1]:ga[1] + i["size"]], "little")
        elif i.op in ("zext", "trunc"):
            v = ev(i.ops[0])
            if v is not None: val[i.id] = v & ((1 << (type_bits(i["t"]) or 64)) - 1)
        elif i.op == "icmp":
            a, b = ev(i.ops[0]), ev(i.ops[1])
            if a is not None and b is not None and i["pred"] in ("eq", "ne"):
                val[i.id] = int((a == b) == (i["pred"] == "eq"))
        elif i.op == "ret":
            r = ev(i.ops[0]) if i.ops else None
            _CR[key] = r
            return r
    return None


class Intervals:
    def __init__(self, fn, ctx=None, fi=None):
        self.fn = fn; self.ctx = ctx or {}; self.memo = {}; self.fi = fi; self._ref = {}

    # ---- flow-sensitive refinement by dominating branch / switch edges ----
    def key_of(self, o):
        """canonical key of an integer value: casts stripped, loads of the same memory value unified"""
        for _ in range(6):
            if o["k"] != "inst": break
            i = self.fn.imap[o["v"]]
            if i.op in ("zext", "sext") : o = i.ops[0]; continue
            if i.op == "load" and self.fi is not None:
                tok = self.fi.load_atom.get(i.id)
                if tok is not None and tok[0] == "ld": return ("ld", tok[1])
                if tok is not None and tok[0] == "entry": return tok
                if tok is not None and tok[0] == "st":
                    st = self.fn.bmap[tok[1]].insts[tok[2]]
                    if not st.ops[0]["t"].endswith("*"): o = st.ops[0]; continue
                return ("ld", i.id)
            break
        if o["k"] == "inst": return ("v", o["v"])
        if o["k"] == "arg": return ("arg", o["v"])
        return None

    def constraints_at(self, b):
        """{key: [lo, hi, excluded]} implied by the single-predecessor edges that dominate block b"""
        if b.id in self._ref: return self._ref[b.id]
        fn = self.fn; idom = fn.dom(); cons = {}
        def add(k, lo=None, hi=None, ne=None):
            c = cons.setdefault(k, [-INF, INF, set()])
            if lo is not None: c[0] = max(c[0], lo)
            if hi is not None: c[1] = min(c[1], hi)
            if ne is not None: c[2].add(ne)
        x = b
        while True:
            if len(x.preds) == 1:
                self._edge_cons(x.preds[0], x, add)
            if x.id not in idom or idom[x.id] == x.id: break
            x = fn.bmap[idom[x.id]]
        return self._cons_close(b, cons, add)

    def _edge_cons(self, p, x, add):
        """what taking the edge p -> x says about the values its branch tests"""
        fn = self.fn
        if True:
            if True:
                t = p.term
                if t.op == "br" and len(t.ops) == 3 and t.ops[1]["v"] != t.ops[2]["v"] and t.ops[0]["k"] == "inst":
                    ci = fn.imap[t.ops[0]["v"]]; taken = (x.id == t.ops[2]["v"])
                    rhs_const = None
                    if ci.op == "icmp" and ci.ops[1]["k"] != "int" and ci.ops[0]["k"] != "int":
                        # compared with a value that is a single constant in this context (e.g. (1 << to_bits) - 1 for a known to_bits)
                        try: rv = self.ival(ci.ops[1])
                        except RecursionError: rv = (-INF, INF)
                        if rv[0] == rv[1] and rv[0] not in (INF, -INF): rhs_const = int(rv[0])
                    if ci.op == "icmp" and (ci.ops[1]["k"] == "int" or rhs_const is not None):
                        k = self.key_of(ci.ops[0]); pr = ci["pred"]
                        c = rhs_const if rhs_const is not None else (int(ci.ops[1]["sv"]) if pr.startswith("s") else int(ci.ops[1]["v"]))
                        q = pr[1:] if pr not in ("eq", "ne") else pr
                        if not taken: q = {"lt": "ge", "le": "gt", "gt": "le", "ge": "lt", "eq": "ne", "ne": "eq"}[q]
                        # (v >> s) == 0  <=>  v < 2^s
                        o0 = ci.ops[0]
                        if o0["k"] == "inst" and fn.imap[o0["v"]].op == "lshr" and c == 0 and q in ("eq", "ne"):
                            sh = fn.imap[o0["v"]]; amt = self.ival(sh.ops[1])
                            if amt[0] == amt[1] and amt[0] != INF:
                                kv = self.key_of(sh.ops[0])
                                if kv is not None:
                                    if q == "eq": add(kv, hi=(1 << int(amt[0])) - 1)
                                    else: add(kv, lo=(1 << int(amt[0])))
                        if k is not None:
                            if q == "lt": add(k, hi=c - 1)
                            elif q == "le": add(k, hi=c)
                            elif q == "gt": add(k, lo=c + 1)
                            elif q == "ge": add(k, lo=c)
                            elif q == "eq": add(k, lo=c, hi=c)
                            elif q == "ne": add(k, ne=c)
                elif t.op == "switch":
                    k = self.key_of(t.ops[0])
                    if k is not None:
                        mine = [int(c["v"]) for c in t["cases"] if c["b"] == x.id]
                        if x.id != t["default"] and len(mine) == 1: add(k, lo=mine[0], hi=mine[0])
                        elif x.id == t["default"] and not mine:
                            for c in t["cases"]: add(k, ne=int(c["v"]))

    def _cons_close(self, b, cons, add):
        fn = self.fn
        # a phi whose constant incoming values are all excluded here can only have come in by its remaining edge: what held on
        # that edge's source holds here too (e.g. `need` = 1 / 2 / tag - 246 and need is neither 1 nor 2  =>  the path set tag >= 249)
        self._ref[b.id] = cons                       # (recursion guard: partial result)
        snap = lambda kk: None if kk not in cons else (cons[kk][0], cons[kk][1], frozenset(cons[kk][2]))
        def follow(ph, c, depth):
            """the only incoming edge of phi `ph` compatible with constraint c: import what holds at its source; returns True if anything was added"""
            if depth > 4 or ph.block.id in fn.loops(): return False
            live = []
            for inc in ph["incoming"]:
                v = inc["v"]
                if v["k"] == "int":
                    cv = int(v["sv"]) if "sv" in v else int(v["v"])
                    if cv < c[0] or cv > c[1] or cv in c[2]: continue          # this edge would contradict what is known here
                live.append(inc)
            if len(live) != 1: return False
            inc = live[0]; src = fn.bmap[inc["b"]]; grew = False
            for k2, c2 in self.constraints_at(src).items():
                before = snap(k2)
                add(k2, lo=c2[0] if c2[0] != -INF else None, hi=c2[1] if c2[1] != INF else None)
                for e in c2[2]: add(k2, ne=e)
                if snap(k2) != before: grew = True
            kv = self.key_of(inc["v"])
            if kv is not None:
                before = snap(kv)
                add(kv, lo=c[0] if c[0] != -INF else None, hi=c[1] if c[1] != INF else None)
                for e in c[2]: add(kv, ne=e)
                if snap(kv) != before: grew = True
                if kv[0] == "v":
                    inner = fn.imap.get(kv[1])
                    if inner is not None and inner.op == "phi" and fn.dominates(inner.block.id, src.id):
                        if follow(inner, cons[kv], depth + 1): grew = True
            return grew
        for _round in range(3):
            grew = False
            for k, c in list(cons.items()):
                if k[0] != "v": continue
                ph = fn.imap.get(k[1])
                if ph is None or ph.op != "phi" or ph.block.id == b.id or not fn.dominates(ph.block.id, b.id): continue
                if follow(ph, c, 0): grew = True
            if not grew: break
        self._ref[b.id] = cons
        return cons

    def ival_on_edge(self, o, p, b):
        """the value o as known when control leaves block p for block b (what dominates p, and the branch of p itself)"""
        base = self.constraints_at(p)
        cons = {k: [c[0], c[1], set(c[2])] for k, c in base.items()}
        def add(k, lo=None, hi=None, ne=None):
            c = cons.setdefault(k, [-INF, INF, set()])
            if lo is not None: c[0] = max(c[0], lo)
            if hi is not None: c[1] = min(c[1], hi)
            if ne is not None: c[2].add(ne)
        self._edge_cons(p, b, add)
        lo, hi = self.ival(o)
        k = self.key_of(o)
        c = cons.get(k) if k is not None else None
        if c is None: return (lo, hi)
        lo = max(lo, c[0]); hi = min(hi, c[1])
        while lo in c[2]: lo += 1
        while hi in c[2]: hi -= 1
        return (lo, hi)

    def ival_at(self, o, b):
        lo, hi = self.ival(o)
        k = self.key_of(o)
        c = self.constraints_at(b).get(k) if k is not None else None
        if c is None: return (lo, hi), set()
        lo = max(lo, c[0]); hi = min(hi, c[1])
        ex = c[2]
        while lo in ex: lo += 1
        while hi in ex: hi -= 1
        return (lo, hi), ex

    def ival(self, o, depth=0):
        k = o["k"]
        if k == "int": return (int(o["v"]), int(o["v"]))       # unsigned reading
        if k == "null": return (0, 0)
        if k == "arg":
            if o["v"] in self.ctx: c = self.ctx[o["v"]]; return (c, c)
            if o["v"] in getattr(self, "arg_ranges", {}): return self.arg_ranges[o["v"]]
            return type_range(o["t"])
        if k != "inst": return (-INF, INF)
        key = o["v"]
        if key in self.memo: return self.memo[key]
        self.memo[key] = type_range(o["t"])        # recursion guard (phis)
        r = self._compute(self.fn.imap[key], depth)
        self.memo[key] = r
        return r

    def call_range(self, i, depth):
        """range of the value a small callee returns for the ranges of the actual integer arguments (helpers such as
        `widthOfTag(tag)`); None when it cannot be bounded.  Memory the callee reads is unknown to it, which is sound."""
        g = self.fn.mod.fn(i.get("callee") or "")
        cd = getattr(self, "calldepth", 0)
        if g is None or g.decl or not g.blocks or len(g.blocks) > 60 or cd >= 2 or g is self.fn: return None
        if g.d["ret"] in ("void",) or g.d["ret"].endswith("*") or not g.d["ret"].startswith("i"): return None
        key = ("callrange", g.name, tuple((k, self.ival(i.ops[k], depth + 1)) for k in range(i["nargs"]) if not i.ops[k]["t"].endswith("*")))
        memo = self.fn.mod.__dict__.setdefault("_callrange", {})
        if key in memo: return memo[key]
        memo[key] = None
        sub = Intervals(g, None, None); sub.calldepth = cd + 1
        sub.arg_ranges = {k: v for (k, v) in key[2] if v[0] >= 0 and v[1] != INF}
        try:
            dead = sub.dead_edges(); live = set(); st = [g.entry.id]
            while st:
                x = st.pop()
                if x in live: continue
                live.add(x)
                for s2 in g.bmap[x].succs:
                    if (x, s2.id) not in dead: st.append(s2.id)
            lo, hi = INF, -INF
            for r in g.rets():
                if r.block.id not in live or not r.ops: continue
                a, _ = sub.ival_at(r.ops[0], r.block)
                lo = min(lo, a[0]); hi = max(hi, a[1])
        except RecursionError:
            return None
        memo[key] = (lo, hi) if lo != INF else None
        return memo[key]

    def sval(self, o):
        """signed reading of a constant operand"""
        if o["k"] == "int": c = int(o["sv"]); return (c, c)
        return self.ival(o)

    def _compute(self, i, depth):
        op = i.op; top = type_range(i["t"])
        if depth > 30: return top
        def A(n):
            # the operand as seen where this instruction executes: what the dominating branches of its block say about it holds here
            a = self.ival(i.ops[n], depth + 1)
            if op == "phi" or depth > 12: return a
            try:
                k = self.key_of(i.ops[n])
                c = self.constraints_at(i.block).get(k) if k is not None else None
            except RecursionError: c = None
            if c is None: return a
            lo, hi = max(a[0], c[0]), min(a[1], c[1])
            return (lo, hi) if lo <= hi else a
        bits = type_bits(i["t"]) or 64
        def clamp(lo, hi):
            # result is only meaningful if it cannot wrap in the unsigned or signed range of the type
            if lo >= 0 and hi <= (1 << bits) - 1: return (lo, hi)
            if lo >= -(1 << (bits - 1)) and hi <= (1 << (bits - 1)) - 1: return (lo, hi)   # a (possibly negative) signed value
            return top if lo >= 0 else (-(1 << (bits - 1)), (1 << (bits - 1)) - 1)
        if op in ("zext",):
            a = A(0)
            return a if a[0] >= 0 else type_range(i.ops[0]["t"])
        if op == "sext":
            a = A(0); sb = type_bits(i.ops[0]["t"]) or 64; half = 1 << (sb - 1)
            if a[0] < 0 or a[1] == INF: return a
            if a[1] < half: return a                                   # non-negative in the source type
            if a[0] >= half: return (a[0] - (1 << sb), a[1] - (1 << sb))   # negative throughout: the signed value
            return (-half, half - 1)
        if op == "trunc":
            a = A(0)
            if a[0] >= 0 and a[1] <= top[1]: return a
            return top
        if op == "add":
            a = A(0); b = self.sval(i.ops[1]) if i.ops[1]["k"] == "int" else A(1)
            return clamp(a[0] + b[0], a[1] + b[1])
        if op == "sub":
            a = A(0); b = A(1)
            return clamp(a[0] - b[1], a[1] - b[0])
        if op == "mul":
            a = A(0); b = A(1)
            if a[0] >= 0 and b[0] >= 0 and a[1] != INF and b[1] != INF: return clamp(a[0] * b[0], a[1] * b[1])
            return top
        if op == "udiv":
            a = A(0); b = A(1)
            if a[0] >= 0 and b[0] > 0 and b[1] != INF: return (a[0] // b[1], a[1] // b[0] if a[1] != INF else INF)
            return top
        if op == "urem":
            b = A(1)
            if b[0] > 0 and b[1] != INF: return (0, b[1] - 1)
            return top
        if op in ("and", "or", "xor") and not (i["t"] == "i1" and op == "xor"):
            a0 = A(0); b0 = A(1)
            if a0[0] == a0[1] and b0[0] == b0[1] and 0 <= a0[0] != INF and 0 <= b0[0] != INF:
                v = {"and": int(a0[0]) & int(b0[0]), "or": int(a0[0]) | int(b0[0]), "xor": int(a0[0]) ^ int(b0[0])}[op]      # both operands known exactly
                return (v, v)
        if op == "and":
            a = A(0); b = A(1)
            hi = min(x for x in (a[1], b[1]) if True)
            if a[0] >= 0 and b[0] >= 0: return (0, hi)
            if b[0] >= 0: return (0, b[1])
            if a[0] >= 0: return (0, a[1])
            return top
        if op == "lshr":
            a = A(0); b = A(1)
            if a[0] >= 0 and b[0] == b[1] and a[1] != INF: return (a[0] >> b[0], a[1] >> b[0])
            if a[0] >= 0: return (0, a[1])
            return top
        if op == "shl":
            a = A(0); b = A(1)
            if a[0] == a[1] and b[0] == b[1] and a[0] >= 0 and 0 <= b[0] < bits:        # one value: the exact (wrapping) result, `~0ULL << k`
                v = (a[0] << b[0]) & ((1 << bits) - 1); return (v, v)
            if a[0] >= 0 and b[0] == b[1] and a[1] != INF: return clamp(a[0] << b[0], a[1] << b[0])
            return top
        if op == "or":
            a = A(0); b = A(1)
            if a[0] >= 0 and b[0] >= 0 and a[1] != INF and b[1] != INF:
                n = max(a[1], b[1]).bit_length(); return (max(a[0], b[0]), (1 << n) - 1)
            return top
        if op == "select":
            a = A(1); b = A(2)
            # refine an arm that is the very value the condition tests:  (v >> k) != 0 ? K : v   =>   v < 2^k on the else arm
            c = i.ops[0]
            if c["k"] == "inst":
                ci = self.fn.imap[c["v"]]
                if ci.op == "icmp" and ci.ops[1]["k"] == "int":
                    tested = ci.ops[0]; k0 = int(ci.ops[1]["v"]); pr = ci["pred"]
                    lim = None      # (value operand, [lo,hi] when the condition is FALSE, [lo,hi] when TRUE)
                    if tested["k"] == "inst" and self.fn.imap[tested["v"]].op == "lshr" and self.fn.imap[tested["v"]].ops[1]["k"] == "int" and k0 == 0 and pr in ("ne", "eq"):
                        sh = self.fn.imap[tested["v"]]; kk = int(sh.ops[1]["v"])
                        small = (0, (1 << kk) - 1); big = (1 << kk, INF)
                        lim = (sh.ops[0], small if pr == "ne" else big, big if pr == "ne" else small)
                    elif pr in ("ult", "ule", "ugt", "uge"):
                        lt = {"ult": (0, k0 - 1), "ule": (0, k0), "ugt": (k0 + 1, INF), "uge": (k0, INF)}[pr]
                        ge = {"ult": (k0, INF), "ule": (k0 + 1, INF), "ugt": (0, k0), "uge": (0, k0 - 1)}[pr]
                        lim = (tested, ge, lt)
                    if lim is not None:
                        def same(x, y): return (x["k"], x.get("v")) == (y["k"], y.get("v"))
                        if same(i.ops[1], lim[0]): a = (max(a[0], lim[2][0]), min(a[1], lim[2][1]))
                        if same(i.ops[2], lim[0]): b = (max(b[0], lim[1][0]), min(b[1], lim[1][1]))
            return (min(a[0], b[0]), max(a[1], b[1]))
        if op == "phi":
            lo, hi = INF, -INF
            for inc in i["incoming"]:
                if inc["v"]["k"] == "inst" and inc["v"]["v"] == i.id: continue
                if (inc["b"], i.block.id) in getattr(self, "_dead", ()): continue      # that edge cannot be taken in this context
                a = self.ival(inc["v"], depth + 1)
                if self.fi is not None or True:
                    try:
                        ra, _ = self.ival_at(inc["v"], self.fn.bmap[inc["b"]])        # facts that hold where the value comes from
                        a = (max(a[0], ra[0]), min(a[1], ra[1]))
                    except Exception: pass
                lo = min(lo, a[0]); hi = max(hi, a[1])
            # a loop-carried phi may grow: only trust it when no incoming value depends on the phi itself
            if any(inc["v"]["k"] == "inst" and self._depends(inc["v"]["v"], i.id) for inc in i["incoming"]): return top
            return (lo, hi) if lo != INF else top
        if op == "icmp":
            r = self.decide(i)
            if r is True: return (1, 1)
            if r is False: return (0, 0)
            return (0, 1)
        if op == "call":
            c = const_return(self.fn.mod, i.get("callee"))
            if c is not None: return (c, c)
            r = self.call_range(i, depth)
            if r is not None: return (max(r[0], top[0]) if r[0] != -INF else top[0], min(r[1], top[1]) if r[1] != INF else top[1]) if r[0] >= 0 else top
            return top
        if op == "xor" and i["t"] == "i1":
            a = A(0); b = A(1)
            if a[0] == a[1] and b[0] == b[1]: return (a[0] ^ b[0],) * 2
            return (0, 1)
        if op == "load" and i["t"].startswith("i"):
            r = self._const_table_load(i, depth)
            if r is not None: return r
        return top

    def _const_table_load(self, i, depth):
        """load of `table[idx]` where table is a constant global and idx ranges over few values: the range of the elements read"""
        a = i.ops[0]; g = None
        if a["k"] == "inst":
            g = self.fn.imap[a["v"]]
            while g is not None and g.op == "bitcast" and g.ops[0]["k"] == "inst": g = self.fn.imap[g.ops[0]["v"]]
        if g is None or g.op != "getelementptr" or g.ops[0]["k"] != "global" or len(g["var"]) != 1: return None
        by = global_bytes(self.fn.mod, g.ops[0]["v"])
        if by is None: return None
        v = g["var"][0]
        ix = self.ival(v["idx"], depth + 1)
        try:
            k = self.key_of(v["idx"]); c = self.constraints_at(g.block).get(k) if k is not None else None
        except RecursionError: c = None
        if c is not None: ix = (max(ix[0], c[0]), min(ix[1], c[1]))
        if ix[0] < 0 or ix[1] == INF or ix[1] - ix[0] > 256 or ix[0] > ix[1]: return None
        sz = i["size"]; vals = []
        for n in range(int(ix[0]), int(ix[1]) + 1):
            off = g["coff"] + n * v["stride"]
            if off < 0 or off + sz > len(by): return None          # (an out-of-range index is somebody else's finding)
            vals.append(int.from_bytes(by[off:off + sz], "little"))
        return (min(vals), max(vals))

    def _depends(self, v, target, seen=None):
        seen = seen or set()
        if v == target: return True
        if v in seen or len(seen) > 200: return False
        seen.add(v)
        i = self.fn.imap.get(v)
        if i is None: return False
        ops = [inc["v"] for inc in i["incoming"]] if i.op == "phi" else i.ops
        return any(o["k"] == "inst" and self._depends(o["v"], target, seen) for o in ops)

    def decide(self, ci):
        """icmp -> True / False / None"""
        p = ci["pred"]
        signed = p.startswith("s")
        a = self.ival(ci.ops[0]); b = self.ival(ci.ops[1])
        if signed:
            if ci.ops[1]["k"] == "int": b = self.sval(ci.ops[1])
            if ci.ops[0]["k"] == "int": a = self.sval(ci.ops[0])
            # an unsigned-range interval that may exceed the signed max is not comparable
            bits = type_bits(ci.ops[0]["t"]) or 64; smax = (1 << (bits - 1)) - 1
            if a[1] > smax or b[1] > smax: return None
        else:
            if a[0] < 0 or b[0] < 0: return None
        q = p[1:] if p not in ("eq", "ne") else p
        if q == "eq":
            if a[0] == a[1] == b[0] == b[1]: return True
            if a[1] < b[0] or b[1] < a[0]: return False
        elif q == "ne":
            if a[1] < b[0] or b[1] < a[0]: return True
            if a[0] == a[1] == b[0] == b[1]: return False
        elif q == "lt":
            if a[1] < b[0]: return True
            if a[0] >= b[1]: return False
        elif q == "le":
            if a[1] <= b[0]: return True
            if a[0] > b[1]: return False
        elif q == "gt":
            if a[0] > b[1]: return True
            if a[1] <= b[0]: return False
        elif q == "ge":
            if a[0] >= b[1]: return True
            if a[1] < b[0]: return False
        return None

    def dead_edges(self):
        """(pred, succ) edges that cannot be taken under this context.  Iterated: a phi only joins the values that arrive over edges
        already shown dead-free, and a block with no live way in has no live way out."""
        prev = None
        for _ in range(6):
            out = self._dead_edges_once()
            out |= getattr(self, "_dead", set())
            while True:
                grew = False
                for b in self.fn.blocks:
                    if b is self.fn.entry or not b.preds: continue
                    if all((p.id, b.id) in out for p in b.preds):
                        for sx in b.succs:
                            if (b.id, sx.id) not in out: out.add((b.id, sx.id)); grew = True
                if not grew: break
            if out == prev: break
            prev = out
            self._dead = set(out); self.memo = {}; self._ref = {}
        return prev if prev is not None else set()

    def _dead_edges_once(self):
        out = set()
        for b in self.fn.blocks:
            t = b.term
            if t.op == "br" and len(t.ops) == 3:
                c = self.ival(t.ops[0])
                fls, tru = t.ops[1]["v"], t.ops[2]["v"]
                if fls == tru: continue
                if c == (1, 1): out.add((b.id, fls))
                elif c == (0, 0): out.add((b.id, tru))
            elif t.op == "switch":
                v, ex = self.ival_at(t.ops[0], b)
                if v[0] > v[1]:
                    for sx in b.succs: out.add((b.id, sx.id))
                    continue
                cases = {int(c["v"]) for c in t["cases"]}
                if v[1] - v[0] < 4096 and all((x in cases or x in ex) for x in range(int(v[0]), int(v[1]) + 1)) and t["default"] not in {c["b"] for c in t["cases"]}:
                    out.add((b.id, t["default"]))
                if v[0] == v[1]:
                    hit = [c["b"] for c in t["cases"] if int(c["v"]) == v[0]]
                    keep = hit[0] if hit else t["default"]
                    for s in b.succs:
                        if s.id != keep: out.add((b.id, s.id))
                else:
                    for c in t["cases"]:
                        if not (v[0] <= int(c["v"]) <= v[1]) and c["b"] != t["default"] and sum(1 for x in t["cases"] if x["b"] == c["b"]) == 1:
                            out.add((b.id, c["b"]))
        return out
