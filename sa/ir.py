"""Loader for irfacts JSON: functions, CFG, dominators, post-dominators, natural loops."""
import json, re
from collections import defaultdict

class Inst:
    __slots__ = ("d", "op", "id", "ops", "block", "fn", "idx")
    def __init__(self, d, block, fn, idx):
        self.d = d; self.op = d["op"]; self.id = d["id"]; self.ops = d["ops"]
        self.block = block; self.fn = fn; self.idx = idx
    def __getitem__(self, k): return self.d[k]
    def get(self, k, default=None): return self.d.get(k, default)
    @property
    def line(self): return self.d.get("line")
    def loc(self):
        return "%s:%s" % (self.d.get("file", self.fn.file), self.d.get("line", "?"))
    def __repr__(self): return "<%s %%%s %s>" % (self.op, self.id, self.loc())

class Block:
    def __init__(self, d, fn):
        self.id = d["id"]; self.fn = fn
        self.insts = [Inst(i, self, fn, k) for k, i in enumerate(d["insts"])]
        self.succs = []; self.preds = []
    @property
    def term(self): return self.insts[-1]
    def __repr__(self): return "<bb %s>" % self.id

class Function:
    def __init__(self, d, mod):
        self.d = d; self.mod = mod; self.name = d["name"]; self.decl = d["decl"]
        self.params = d["params"]; self.file = d.get("file"); self.line = d.get("line")
        self.blocks = []; self.bmap = {}; self.imap = {}
        self.argnames = {int(k): v for k, v in d.get("argnames", {}).items()}
        self.noreturn = d.get("noreturn", False); self.internal = d.get("internal", False)
        if self.decl: return
        for bd in d["blocks"]:
            b = Block(bd, self); self.blocks.append(b); self.bmap[b.id] = b
            for i in b.insts:
                if i.id >= 0: self.imap[i.id] = i
        for b in self.blocks:
            t = b.term
            targets = []
            if t.op == "br":
                targets = [o["v"] for o in t.ops if o["k"] == "block"]
                # LLVM operand order for cond br: cond, false, true
            elif t.op == "switch":
                targets = [t["default"]] + [c["b"] for c in t["cases"]]
            seen = []
            for x in targets:
                if x not in seen: seen.append(x)
            b.succs = [self.bmap[x] for x in seen]
            for s in b.succs: s.preds.append(b)
        self.entry = self.blocks[0]
        self._dom = None; self._loops = None
        self.argnames = {int(k): v for k, v in d.get("argnames", {}).items()}
        self._drop_redundant_phis()

    def _drop_redundant_phis(self):
        """a web of phis that only ever merges one outside value (`a = phi(x, b); b = phi(x, a)`, what load-PRE leaves behind) IS that
        value: every use is redirected to it and the phis are removed (Braun et al., redundant phi SCCs).  No such web exists in the
        plain mem2reg output; the rewrite keeps rules from seeing a loop-carried copy as a new quantity."""
        phis = {i.id: i for b in self.blocks for i in b.insts if i.op == "phi" and i.id >= 0}
        if not phis: return
        repl = {}
        # strongly connected components of the "phi uses phi" graph (Tarjan, iterative); an SCC with one outside operand is that operand
        def resolve(v):
            while v["k"] == "inst" and v["v"] in repl: v = repl[v["v"]]
            return v
        changed = True
        while changed:
            changed = False
            live = {k: q for k, q in phis.items() if k not in repl}
            succ = {k: [resolve(c["v"])["v"] for c in q["incoming"] if resolve(c["v"])["k"] == "inst" and resolve(c["v"])["v"] in live] for k, q in live.items()}
            index = {}; low = {}; onst = set(); stack = []; sccs = []; n = [0]
            for root in live:
                if root in index: continue
                work = [(root, 0)]
                while work:
                    v, pi = work.pop()
                    if pi == 0:
                        index[v] = low[v] = n[0]; n[0] += 1; stack.append(v); onst.add(v)
                    rec = False
                    for k2 in range(pi, len(succ[v])):
                        w_ = succ[v][k2]
                        if w_ not in index:
                            work.append((v, k2 + 1)); work.append((w_, 0)); rec = True; break
                        if w_ in onst: low[v] = min(low[v], index[w_])
                    if rec: continue
                    if low[v] == index[v]:
                        comp = []
                        while True:
                            x = stack.pop(); onst.discard(x); comp.append(x)
                            if x == v: break
                        sccs.append(comp)
                    if work:
                        u = work[-1][0]; low[u] = min(low[u], low[v])
            for comp in sccs:
                cs = set(comp); outside = {}
                for k in comp:
                    for c in live[k]["incoming"]:
                        v = resolve(c["v"])
                        if v["k"] == "inst" and v["v"] in cs: continue
                        outside[(v["k"], repr(v.get("v")))] = v
                if len(outside) == 1:
                    leaf = next(iter(outside.values()))
                    if leaf["k"] in ("inst", "arg", "int", "null"):
                        for k in comp: repl[k] = dict(leaf)
                        changed = True
        for k in list(repl): repl[k] = resolve(repl[k])
        if not repl: return
        def walk(x):
            if isinstance(x, dict):
                if x.get("k") == "inst" and x.get("v") in repl and "t" in x:
                    l = repl[x["v"]]; x.clear(); x.update(l); return
                for y in x.values(): walk(y)
            elif isinstance(x, list):
                for y in x: walk(y)
        for b in self.blocks:
            b.insts = [i for i in b.insts if not (i.op == "phi" and i.id in repl)]
            for k, i in enumerate(b.insts):
                i.idx = k
                for key, val in i.d.items():
                    if key in ("ops", "incoming", "var", "cases"): walk(val)
        for pid in repl: self.imap.pop(pid, None)
        self.redundant_phis = len(repl)

    def param_index(self, name):
        for k, v in self.argnames.items():
            if v == name: return k
        return None
    def insts(self):
        for b in self.blocks:
            for i in b.insts: yield i
    def calls(self, callee=None):
        for i in self.insts():
            if i.op == "call" and (callee is None or i.get("callee") == callee): yield i
    def rets(self):
        return [b.term for b in self.blocks if b.term.op == "ret"]
    def reachable(self, src, avoid=()):
        """block ids reachable from block id src without entering blocks in `avoid`"""
        seen = set(); st = [src]
        while st:
            x = st.pop()
            if x in seen or x in avoid: continue
            seen.add(x)
            for s in self.bmap[x].succs: st.append(s.id)
        return seen

    def enum_of_value(self, o, depth=0):
        """if operand o is (a cast of) a load of a struct field whose declared type is an enum, return the enum's
        {name: value}; used to recognise exhaustive switches"""
        if o["k"] != "inst" or depth > 4: return None
        i = self.imap[o["v"]]
        if i.op in ("zext", "sext", "trunc"): return self.enum_of_value(i.ops[0], depth + 1)
        if i.op != "load": return None
        a = i.ops[0]
        if a["k"] != "inst": return None
        g = self.imap[a["v"]]
        if g.op != "getelementptr" or "field" not in g.d: return None
        sname = g["field"]["struct"]
        di = self.mod.ditypes.get(sname.split(".", 1)[1] if "." in sname else sname)
        if di is None: return None
        st = self.mod.structs.get(sname)
        if st is None: return None
        foff = st["fields"][g["field"]["field"]]["off"]
        for m in di["members"]:
            if m["off"] == foff:
                t = m["type"].replace("const ", "").strip()
                en = self.mod.enums.get(self.mod.typedefs.get(t, t)) or self.mod.enums.get(t)
                return en
        return None
    def enum_default_edges(self, fi=None):
        """(pred, succ) default edges of switches that name every enumerator of the switched enum-typed field:
        infeasible under the type's invariant.  With `fi` (core.FnInfo) the invariant is only assumed for objects
        received through a parameter - an object under construction may hold a value taken from input bytes."""
        if getattr(self, "_ede", None) is not None and fi is None: return self._ede
        out = set()
        for b in self.blocks:
            t = b.term
            if t.op != "switch": continue
            en = self.enum_of_value(t.ops[0])
            if not en: continue
            cases = {int(c["v"]) for c in t["cases"]}
            if {int(v) for v in en.values()} <= cases and t["default"] not in {c["b"] for c in t["cases"]}:
                if fi is not None:
                    o = t.ops[0]
                    while o["k"] == "inst" and self.imap[o["v"]].op in ("zext", "sext", "trunc"): o = self.imap[o["v"]].ops[0]
                    root = fi.ptr(self.imap[o["v"]].ops[0])[0]
                    if root[0] not in ("arg", "loaded"): continue
                out.add((b.id, t["default"]))
        if fi is None: self._ede = out
        return out

    # --- dominators (iterative) ---
    def dom(self):
        if self._dom is not None: return self._dom
        order = []; seen = set()
        def dfs(b):
            seen.add(b.id)
            for s in b.succs:
                if s.id not in seen: dfs(s)
            order.append(b)
        import sys; sys.setrecursionlimit(10000)
        dfs(self.entry); rpo = order[::-1]; idx = {b.id: k for k, b in enumerate(rpo)}
        idom = {self.entry.id: self.entry.id}
        changed = True
        def inter(a, b):
            while a != b:
                while idx[a] > idx[b]: a = idom[a]
                while idx[b] > idx[a]: b = idom[b]
            return a
        while changed:
            changed = False
            for b in rpo[1:]:
                ps = [p.id for p in b.preds if p.id in idom]
                if not ps: continue
                n = ps[0]
                for p in ps[1:]: n = inter(n, p)
                if idom.get(b.id) != n: idom[b.id] = n; changed = True
        self._dom = idom; self.rpo = rpo; self.rpo_idx = idx
        return idom
    def dominates(self, a, b):
        """block id a dominates block id b"""
        idom = self.dom()
        if b not in idom: return False
        while True:
            if a == b: return True
            if idom[b] == b: return False
            b = idom[b]
    def dom_chain(self, b):
        idom = self.dom(); out = []
        while True:
            out.append(b)
            if idom[b] == b: break
            b = idom[b]
        return out
    def loops(self):
        """natural loops: header id -> set of block ids"""
        if self._loops is not None: return self._loops
        self.dom(); loops = defaultdict(set)
        for b in self.blocks:
            if b.id not in self._dom: continue
            for s in b.succs:
                if self.dominates(s.id, b.id):  # back edge b->s
                    body = {s.id, b.id}; stack = [b]
                    while stack:
                        x = stack.pop()
                        if x.id == s.id: continue
                        for p in x.preds:
                            if p.id not in body: body.add(p.id); stack.append(p)
                    loops[s.id] |= body
        self._loops = loops
        return loops

class Module:
    def __init__(self, path):
        d = json.load(open(path)); self.d = d
        self.structs = d["structs"]; self.globals = {g["name"]: g for g in d["globals"]}
        self.ditypes = d.get("ditypes", {}); self.enums = d.get("enums", {}); self.typedefs = d.get("typedefs", {})
        self.path = path
        self.functions = {}
        for fd in d["functions"]:
            f = Function(fd, self); self.functions[f.name] = f
    def defined(self): return [f for f in self.functions.values() if not f.decl]
    def fn(self, name):
        f = self.functions.get(name)
        return f if f is not None and not f.decl else None
    def struct_of_di(self, diname):
        """LLVM struct layout for a debug-info composite name (struct.<name>)"""
        return self.structs.get("struct." + diname) or self.structs.get("union." + diname)

def type_bits(t):
    m = re.match(r"i(\d+)$", t)
    return int(m.group(1)) if m else None
