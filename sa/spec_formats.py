"""Independent format tables for the scalar varint families (C04-F1), written from the documented formats:
  tagged          sqlite4 varint as described in src/varintTagged.c's header comment (first byte 0-240 literal, 241-248 two bytes,
                  249 three bytes, 250-255 big-endian payload of 3..8 bytes)
  chained         sqlite3 varint: big-endian 7-bit groups, continuation bit 0x80 on all but the last byte, a full ninth byte
  chained-simple  LevelDB/protobuf base-128: little-endian 7-bit groups, continuation bit on all but the last, capped at 9 bytes
                  (the ninth byte carries the remaining 8 bits)
  external LE/BE  the minimal little- (big-) endian byte slice of the value
  split*          the 'Data Layout' comments of src/varintSplit*.h: first-type levels |PPvvvvvv|...| big-endian with the previous
                  level's maximum subtracted, second type |PP00wwww| + w little-endian payload bytes of (x - last first-type maximum),
                  never fewer bytes than the largest first-type encoding (the documented never-shrink rule)
Nothing here is derived from the library's code.  A row is (lo, hi, length, [byte terms]); terms use the constructors of sa.e1
and are normalised on [lo, hi] exactly like extracted terms."""
from .e1 import X, C, norm

M64 = (1 << 64) - 1


def sub(t, a): return ("sub", t, a, 64) if a else t
def shr(t, k): return ("shr", t, k) if k else t
def band(t, m): return ("and", t, m)
def bor(t, m): return ("or", t, m)
def add(t, a): return ("add", t, a, 64)
def byte(t, j): return band(shr(t, 8 * j), 0xff)


def rows_norm(rows):
    out = []
    for lo, hi, n, bs in rows:
        if lo > hi: continue
        out.append((lo, hi, n, {k: norm(b, lo, hi) for k, b in enumerate(bs)}))
    return out


def tagged():
    rows = [(0, 240, 1, [X]),
            (241, 2287, 2, [add(shr(sub(X, 240), 8), 241), byte(sub(X, 240), 0)]),
            (2288, 67823, 3, [C(249), byte(sub(X, 2288), 1), byte(sub(X, 2288), 0)])]
    lo = 67824
    for n in range(4, 10):                        # 250..255: payload of n-1 bytes, big-endian
        hi = (1 << (8 * (n - 1))) - 1
        rows.append((lo, hi, n, [C(246 + n)] + [byte(X, j) for j in range(n - 2, -1, -1)]))
        lo = hi + 1
    return rows_norm(rows)


def external(big_endian=False):
    rows = []; lo = 0
    for n in range(1, 9):
        hi = (1 << (8 * n)) - 1
        bs = [byte(X, j) for j in range(n)]
        if big_endian: bs = bs[::-1]
        rows.append((lo, hi, n, bs)); lo = hi + 1
    return rows_norm(rows)


def chained():
    rows = []; lo = 0
    for n in range(1, 9):
        hi = (1 << (7 * n)) - 1
        bs = [bor(band(shr(X, 7 * j), 0x7f), 0x80) for j in range(n - 1, 0, -1)] + [band(X, 0x7f)]
        rows.append((lo, hi, n, bs)); lo = hi + 1
    # nine bytes: eight 7-bit groups with the flag, then a full byte
    bs = [bor(band(shr(X, 8 + 7 * j), 0x7f), 0x80) for j in range(7, -1, -1)] + [band(X, 0xff)]
    rows.append((lo, M64, 9, bs))
    return rows_norm(rows)


def chained_simple(bits=64):
    rows = []; lo = 0; top = (1 << bits) - 1
    for n in range(1, 9):
        hi = min((1 << (7 * n)) - 1, top)
        bs = [bor(band(shr(X, 7 * j), 0x7f), 0x80) for j in range(n - 1)] + [shr(X, 7 * (n - 1))]
        rows.append((lo, hi, n, bs)); lo = hi + 1
        if lo > top: break
    if lo <= top:
        bs = [bor(band(shr(X, 7 * j), 0x7f), 0x80) for j in range(8)] + [shr(X, 56)]
        rows.append((lo, top, 9, bs))
    return rows_norm(rows)


def split_like(first_levels, var_prefix, min_ext, first_len=1, nozero=False, order="forward"):
    """first_levels: payload bit counts of the first-type levels (6, 14, 22, ...), prefixes 00, 01, 10 in order.
    The value stored at a level is x minus the previous level's maximum (the no-zero family stores x-1 at level 0).
    order: forward  - tag byte first; first-type payload big-endian, second-type payload little-endian (the headers'
                      'big endian split, little endian external')
           rev_rev  - 'Reversed': tag byte LAST at dst[0], payload little-endian below it (offsets -(n-1) .. -1)
           rev_fwd  - the same byte sequence written forward from dst[0] (payload, then tag at dst[n-1])"""
    rows = []; lo = 1 if nozero else 0; prev_max = 0
    for k, bits in enumerate(first_levels):
        n = first_len + k
        span = (1 << bits) - 1
        if k == 0:
            hi = span + (1 if nozero else 0); t = sub(X, 1) if nozero else X
        else:
            hi = prev_max + span; t = sub(X, prev_max)
        tag = bor(shr(t, 8 * (n - 1)), k << 6) if k else shr(t, 8 * (n - 1))
        low = [byte(t, j) for j in range(n - 1)]                  # little-endian order
        rows.append((lo, hi, n, place(tag, low, order, first_type=True)))
        lo = hi + 1; prev_max = hi
    base = prev_max
    w = min_ext
    while True:
        hi = min(base + (1 << (8 * w)) - 1, M64) if w < 8 else M64
        t = sub(X, base)
        rows.append((lo, hi, 1 + w, place(C(var_prefix | w), [byte(t, j) for j in range(w)], order, first_type=False)))
        if hi == M64: break
        lo = hi + 1; w += 1
    out = []
    for lo, hi, n, d in rows:
        if lo <= hi: out.append((lo, hi, n, {o: norm(t, lo, hi) for o, t in d.items()}))
    return out


def place(tag, low, order, first_type):
    n = 1 + len(low)
    if order == "forward":
        seq = [tag] + (low[::-1] if first_type else low)
        return {k: seq[k] for k in range(n)}
    seq = low + [tag]
    if order == "rev_fwd": return {k: seq[k] for k in range(n)}
    if order == "rev_rev": return {k - (n - 1): seq[k] for k in range(n)}
    raise ValueError(order)


def split(order="forward"): return split_like([6, 14], 0x80, 1, order=order)
def split_full(order="forward"): return split_like([6, 14, 22], 0xc0, 2, order=order)
def split_full_nozero(order="forward"): return split_like([6, 14, 22], 0xc0, 2, nozero=True, order=order)
def split_full16(): return split_like([14, 22, 30], 0xc0, 4, first_len=2)
