"""./check <ID> [--tier quick|thorough] [--explain FILE]"""
import importlib, json, os, sys
from .report import main_wrap
from .build import AnalysisBroken


def main():
    args = sys.argv[1:]
    if not args:
        print("usage: check <ID|all|selftest> [--tier quick|thorough] [--explain FILE]"); sys.exit(2)
    pid = args[0]; tier = os.environ.get("VERIF_TIER", "quick") or "quick"; explain = None
    k = 1
    while k < len(args):
        if args[k] == "--tier": tier = args[k + 1]; k += 2
        elif args[k] in ("--explain", "--replay"): explain = args[k + 1]; k += 2
        else: k += 1
    if tier not in ("quick", "thorough"): tier = "quick"
    if explain:
        d = json.load(open(explain))
        print(json.dumps(d, indent=1))
        print("re-deriving: running ./check %s and filtering on key %s" % (d["property"], d["key"]))
        os.environ["VERIF_EXPLAIN_KEY"] = d["key"]
        pid = d["property"]
    modname = "sa.props." + pid.lower()
    try:
        m = importlib.import_module(modname)
    except ModuleNotFoundError as e:
        if e.name != modname: raise
        print("no check for %s" % pid); sys.exit(2)
    main_wrap(lambda: m.run(tier))


if __name__ == "__main__":
    main()
