"""C05 - tagged varints sort bytewise in numeric order (E1; proof).  DESIGN 4/C05.
Obligations over the class table of varintTaggedPut64 (extracted from the code, not from the spec file):
 (1) the first-byte ranges of consecutive classes are disjoint and increasing
 (2) in each class the bytes are [high(t)+c, digit_{n-2}(t), ..., digit_0(t)] for one t = x - a that is strictly increasing on the
     class, with the first byte <= 255: the byte string read as a base-256 number is t + c*256^(n-1), strictly increasing in x
 (3) the length reader is a function of byte 0 that returns the class length (prefix-freeness)
Lemma: (1) and (2) give memcmp order == numeric order and equal values => identical bytes, for all 2^128 pairs; with (3) the same
holds for concatenations (compare the first differing component: equal prefixes have equal lengths)."""
from ..report import Run, Finding
from ..common import lib_module, configs_for
from ..build import AnalysisBroken
from .. import formats as FM
from ..e1 import norm, show, ev, is_c, X

PROP = "C05"


def sub_consts(t, acc):
    if isinstance(t, tuple):
        if t and t[0] == "sub": acc.add(t[2])
        for x in t[1:]:
            if isinstance(x, tuple): sub_consts(x, acc)
    return acc


def analyse(mod, run, label):
    try: cls = FM.extract(mod, "varintTaggedPut64", "enc")
    except FM.EncoderNotInjective as ni:
        run.fail(Finding("O1-equal-bytes-for-unequal-values", "varintTaggedPut64", "tagged", "witness",
                         "varintTaggedPut64 writes the same bytes for x = %d and x = %d (%s): unequal values compare equal, and every value between them that encodes differently is ordered wrongly against one of the two" % (ni.ex.x1, ni.ex.x2, ni.ex)))
        return 0
    lens = FM.ret_const(cls)
    if lens is None: raise AnalysisBroken("varintTaggedPut64: non-constant length in a class")
    if len(cls) < 9: raise AnalysisBroken("varintTaggedPut64: only %d classes" % len(cls))
    ranges = []
    for (lo, hi, ret, st), (_, _, n) in zip(cls, lens):
        z0 = norm(st.get(0), lo, hi) if 0 in st else None
        if z0 is None: raise AnalysisBroken("class [%d,%d] writes no byte 0" % (lo, hi))
        r0 = (ev(z0, lo), ev(z0, hi))
        ranges.append(r0)
        # ---- (2) ----
        cands = sorted(sub_consts(tuple(st.values()), {0}))
        okc = None
        for a in cands:
            if a > lo: continue
            t = ("sub", X, a, 64) if a else X
            c0 = ev(z0, lo) - (ev(t, lo) >> (8 * (n - 1)))
            if c0 < 0: continue
            exp0 = norm(("add", ("shr", t, 8 * (n - 1)), c0, 64), lo, hi) if n > 1 else norm(("add", t, c0, 64), lo, hi)
            if norm(z0, lo, hi) != exp0: continue
            good = set(st) == set(range(n))
            for j in range(1, n):
                if not good: break
                want = norm(("and", ("shr", t, 8 * (n - 1 - j)), 0xff), lo, hi)
                if norm(st[j], lo, hi) != want: good = False
            if good and ev(z0, hi) <= 255 and ev(z0, lo) <= ev(z0, hi):
                okc = (a, c0); break
        run.check(okc is not None, "O2-bytes-are-msb-first-digits", {"class": [lo, hi], "len": n, "t": "x-%d" % okc[0] if okc else None, "first_byte_offset": okc[1] if okc else None,
                                                                   "bytes": {str(k): show(norm(v, lo, hi)) for k, v in sorted(st.items())}},
                  Finding("O2-not-big-endian-digits", "varintTaggedPut64", "class[%d,%d]" % (lo, hi), "bytes",
                          "for x in [%d, %d] the %d bytes %s are not the most-significant-first base-256 digits of an increasing x - a: memcmp order can differ from numeric order inside this class" % (
                              lo, hi, n, {k: show(norm(v, lo, hi)) for k, v in sorted(st.items())})))
    # ---- (1) ----
    for k in range(len(cls) - 1):
        a, b = ranges[k], ranges[k + 1]
        ok = a[0] <= a[1] < b[0] <= b[1]
        run.check(ok, "O1-first-byte-ranges-increase", {"class": k, "first_byte": list(a), "next": list(b)},
                  Finding("O1-first-byte-ranges-overlap", "varintTaggedPut64", "class#%d" % k, "first-byte",
                          "first byte range %s of values [%d, %d] is not strictly below the range %s of the next class: a longer (larger) value can compare lower" % (list(a), cls[k][0], cls[k][1], list(b))))
    # ---- (3) ----
    for fn in ("varintTaggedGetLen", "w_taggedGetLenQuick"):
        gl = FM.extract(mod, fn, "b0")
        for (lo, hi, ret, st), (_, _, n), r0 in zip(cls, lens, ranges):
            vals = {FM.eval_len_at(gl, b) for b in range(r0[0], r0[1] + 1)}
            run.check(vals == {n}, "O3-length-from-first-byte", {"reader": fn, "first_byte": list(r0), "len": n},
                      Finding("O3-length-reader-disagrees", fn, "first-byte[%d,%d]" % r0, "length", "%s maps first bytes %s to lengths %s but the encoder writes %d bytes there: the code is not prefix-free as read" % (fn, list(r0), sorted(vals), n)))
    return len(cls)


def run(tier):
    run = Run(PROP, tier, level="proof", technique="class-table extraction (E1) + closed-form ordering argument over the extracted table")
    per = {}
    for cfg in configs_for(tier):
        n = analyse(lib_module(cfg), run, cfg)
        per[cfg] = {"classes": n}
        if n or not run.findings: run.floor("classes of varintTaggedPut64 (%s)" % cfg, n, 9)        # (no table at all when the encoder was shown not to be injective)
    # positive control: a little-endian payload must be rejected by (2)
    from ..e1 import C
    st = {0: C(250), 1: ("and", X, 0xff), 2: ("and", ("shr", X, 8), 0xff), 3: ("shr", X, 16)}
    lo, hi, n = 67824, (1 << 24) - 1, 4
    t = X; good = all(norm(st[j], lo, hi) == norm(("and", ("shr", t, 8 * (n - 1 - j)), 0xff), lo, hi) for j in range(1, n))
    run.control("little-endian payload is rejected by O2", not good)
    run.coverage.update({"configurations": per,
                         "lemma": "O1 and O2 => for a<b: same class -> byte strings are the digits of increasing numbers of equal length; different classes -> first bytes differ in the right direction; O3 => prefix-free => tuples compare componentwise"})
    run.trusted += ["clang-14 front end, mem2reg, sroa", "irfacts extractor", "E1 term normaliser (sa/e1.py norm/monotone)", "LP64 little-endian x86-64"]
    return run.finish(
        "The class table of varintTaggedPut64 is extracted from the IR; three conditions on the table (disjoint increasing first-byte ranges, "
        "bytes are most-significant-first digits of x - a within a class, length is a function of byte 0) are checked symbolically and imply "
        "that memcmp order equals numeric order for all pairs of 64-bit values and, by prefix-freeness, for all tuples.")
