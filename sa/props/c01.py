"""C01 - scalar varints: agreeing, bounded lengths; footprint; sign helpers; alignment (E1 + W + E-ACC).  DESIGN 4/C01.
 L1 the lengths returned by the encoder, predicted from the value (function and quick macro) and read back from the stored tag byte
    induce the same partition of the value domain (for reversed forms: same partition as the forward encoder)
 L2 every class length lies in the family's documented range
 L3 in every class the written offsets are exactly [0, len) (reversed put: (-len, 0]); fixed-width forms write exactly [0, w)
 L4 the sign-bit relocation constant of the 24/40/48/56-bit helpers is representable in the type it is formed in (compile witness)
 L7 within every class the bytes written determine x (the digits cover every bit of x - a that varies on the class): necessary for
    decode(encode(x)) == x, whatever the decoder does
 L6 no load/store wider than one byte with alignment > 1 through a pointer derived from a byte/void pointer parameter
Value round-trip (decode(encode(x)) == x) is decided only through these necessary clauses and C04's byte-exact format tables;
decoder tables (L5) are not built."""
import os, re
from ..report import Run, Finding, rel
from ..common import lib_module, configs_for
from ..build import AnalysisBroken, compile_only, VERIF
from ..core import World
from .. import formats as FM
from .. import e1
from ..e1 import norm, show, ev, is_c, X, C

PROP = "C01"
SCALAR_UNITS = ("varintTagged.c", "varintExternal.c", "varintExternalBigEndian.c", "varintChained.c", "varintChainedSimple.c", "wrap.c")


def loc(i): return "%s:%s" % (rel(i.d.get("file", i.fn.file)), i.d.get("line", "?"))


def footprint_ok(st, n, reversed_rev=False):
    offs = set(st)
    want = set(range(-(n - 1), 1)) if reversed_rev else set(range(n))
    return offs == want, sorted(offs), sorted(want)


def digit_info(t):
    """byte term -> ('const',) | (a, shift, width|None): the byte is bits [shift, shift+width) of x - a (width None = up to the top),
    possibly or-ed / added with a constant tag; None when the term has another shape"""
    if is_c(t): return ("const",)
    for _ in range(3):
        if t[0] == "or" and isinstance(t[2], int): t = t[1]
        elif t[0] == "add" and isinstance(t[2], int) and t[1][0] in ("shr", "and", "sub", "x"): t = t[1]
        else: break
    w = None; sh = 0
    if t[0] == "and":
        m = t[2]
        if m & (m + 1): return None
        w = m.bit_length(); t = t[1]
    if t[0] == "shr": sh = t[2]; t = t[1]
    if t[0] == "x": return (0, sh, w)
    if t[0] == "sub" and t[1][0] == "x": return (t[2], sh, w)
    return None


def injective(lo, hi, st):
    """the byte vector of a class determines x: the digits written cover every bit of x - a that varies on [lo, hi]"""
    infos = [digit_info(norm(v, lo, hi)) for v in st.values()]
    if any(i is None for i in infos): return None, "a byte is not a digit of x - a"
    as_ = {i[0] for i in infos if i != ("const",)}
    if not as_: return (lo == hi), "no byte depends on x"
    if len(as_) != 1: return None, "bytes are digits of different offsets %s" % sorted(as_)
    a = as_.pop(); tlo, thi = lo - a, hi - a
    if tlo < 0: return None, "offset larger than the class minimum"
    n = max(1, thi.bit_length()); cov = 0
    for i in infos:
        if i == ("const",): continue
        _, sh, w = i
        top = n if w is None else min(n, sh + w)
        for b in range(sh, top): cov |= 1 << b
    for b in range(n):
        if not (cov >> b) & 1 and (tlo >> b) != (thi >> b):
            t2 = thi if (thi >> b) & 1 and thi - (1 << b) >= tlo else tlo + (1 << b)
            return False, "bit %d of x-%d varies on the class but is written nowhere: x=%d and x=%d encode to the same bytes" % (b, a, t2 - (1 << b) + a, t2 + a)
    return True, ""


def analyse(mod, run, label):
    ntab = 0
    for fam, d in FM.FAMILIES.items():
        lo0 = d.get("in_lo", 0)
        try: cls = FM.extract(mod, d["enc"], "enc", in_lo=lo0); ntab += 1
        except FM.EncoderNotInjective as ni:
            run.fail(Finding("L7-two-values-one-encoding", d["enc"], fam, "witness", "%s writes the same bytes for x = %d and x = %d: %s - no decoder can return both values" % (
                d["enc"], ni.ex.x1, ni.ex.x2, ni.ex)))
            run.c01_not_injective = True
            continue
        lens = FM.ret_const(cls)
        if lens is None: raise AnalysisBroken("%s: non-constant length" % d["enc"])
        P = FM.merge(lens)
        # ---- L2 ----
        rlo, rhi = d["range"]
        bad = [l for l in P if not (rlo <= l[2] <= rhi)]
        run.check(not bad, "L2-length-in-documented-range", {"family": fam, "lengths": sorted({l[2] for l in P}), "range": [rlo, rhi]},
                  Finding("L2-length-out-of-range", d["enc"], fam, "range", "%s returns length %s for x=%s, outside the documented %d-%d bytes" % (d["enc"], bad and bad[0][2], bad and bad[0][0], rlo, rhi)))
        # ---- L3 ----
        for lo, hi, ret, st in cls:
            n = norm(ret, lo, hi)[1]
            ok, got, want = footprint_ok(st, n)
            run.check(ok, "L3-footprint-is-0-to-len", {"encoder": d["enc"], "x_in": [lo, hi], "len": n},
                      Finding("L3-footprint-differs", d["enc"], fam, "class[%d,%d]" % (lo, hi), "%s writes offsets %s for x in [%d, %d] but returns length %d" % (d["enc"], got, lo, hi, n)))
        # ---- L7: the encoder is injective on each class (necessary for decode(encode(x)) == x) ----
        for lo, hi, ret, st in cls:
            ok, why = injective(lo, hi, st)
            if ok is None: run.defer_broken("%s class [%d,%d]: injectivity not decidable: %s" % (d["enc"], lo, hi, why)); continue
            run.check(ok, "L7-encoder-injective", {"encoder": d["enc"], "x_in": [lo, hi]},
                      Finding("L7-two-values-one-encoding", d["enc"], fam, "class[%d,%d]" % (lo, hi), "%s on x in [%d, %d]: %s - no decoder can return both values" % (d["enc"], lo, hi, why)))
        # ---- L1: predictors ----
        for fn in d["lens"]:
            lt = FM.extract(mod, fn, "len", in_lo=lo0); ntab += 1
            lp = FM.ret_const(lt)
            if lp is None: raise AnalysisBroken("%s: non-constant result" % fn)
            df = FM.first_diff(P, FM.merge(lp))
            run.check(df is None, "L1-predicted-length-agrees", {"family": fam, "predictor": fn, "partition": [[a, b, L] for a, b, L in P][:12]},
                      Finding("L1-length-disagrees", fn, fam, "predictor", "for x=%s %s writes %s bytes but %s predicts %s" % (df and df[0], d["enc"], df and df[1], fn, df and df[2])))
        # ---- L1: read-back from the stored tag byte ----
        for fn in d["readback"]:
            gl = FM.extract(mod, fn, "b0"); ntab += 1
            for lo, hi, ret, st in cls:
                n = norm(ret, lo, hi)[1]
                z0 = norm(st[0], lo, hi)
                r0 = (ev(z0, lo), ev(z0, hi))
                if r0[0] > r0[1]: raise AnalysisBroken("%s: tag byte not monotone on class [%d,%d]" % (d["enc"], lo, hi))
                vals = {FM.eval_len_at(gl, b) for b in range(r0[0], r0[1] + 1)}
                run.check(vals == {n}, "L1-readback-length-agrees", {"family": fam, "reader": fn, "tag_byte": list(r0), "len": n},
                          Finding("L1-readback-disagrees", fn, fam, "tag[%d,%d]" % r0, "%s returns %s for tag bytes %s but the encoder wrote %d bytes (x in [%d, %d])" % (fn, sorted(vals), list(r0), n, lo, hi)))
        # ---- reversed forms ----
        for (fn, order) in d.get("rev", []):
            rc = FM.extract(mod, fn, "enc", in_lo=lo0); ntab += 1
            rp = FM.ret_const(rc)
            df = FM.first_diff(P, FM.merge(rp)) if rp else (0, "?", "?")
            run.check(df is None, "L1-reversed-length-agrees", {"family": fam, "encoder": fn},
                      Finding("L1-length-disagrees", fn, fam, "reversed", "for x=%s the forward encoder writes %s bytes but %s writes %s" % (df and df[0], df and df[1], fn, df and df[2])))
            for lo, hi, ret, st in rc:
                n = norm(ret, lo, hi)[1]
                ok, got, want = footprint_ok(st, n, reversed_rev=(order == "rev_rev"))
                run.check(ok, "L3-footprint-is-0-to-len", {"encoder": fn, "x_in": [lo, hi], "len": n, "offsets": got},
                          Finding("L3-footprint-differs", fn, fam, "class[%d,%d]" % (lo, hi), "%s writes offsets %s for x in [%d, %d]; expected %s" % (fn, got, lo, hi, want)))
    if getattr(run, "c01_not_injective", None): return ntab          # an encoder without a class table: what depends on it cannot be compared (reported above)
    # signed predictor of the external family
    cls = FM.extract(mod, "varintExternalPut", "enc", in_hi=(1 << 63) - 1)
    st = FM.extract(mod, "varintExternalSignedEncoding", "len", in_hi=(1 << 63) - 1); ntab += 2
    df = FM.first_diff(FM.merge(FM.ret_const(cls)), FM.merge(FM.ret_const(st)))
    run.check(df is None, "L1-predicted-length-agrees", {"family": "external", "predictor": "varintExternalSignedEncoding (non-negative values)"},
              Finding("L1-length-disagrees", "varintExternalSignedEncoding", "external", "predictor", "for x=%s Put writes %s bytes, SignedEncoding predicts %s" % (df and df[0], df and df[1], df and df[2])))
    # 32-bit entry point
    c32 = FM.extract(mod, "varintChainedSimpleEncode32", "enc", bits=32, in_hi=(1 << 32) - 1)
    c64 = FM.extract(mod, "varintChainedSimpleEncode64", "enc", in_hi=(1 << 32) - 1); ntab += 2
    df = FM.first_diff(FM.merge(FM.ret_const(c32)), FM.merge(FM.ret_const(c64)))
    run.check(df is None, "L1-32bit-entry-agrees", {"fn": "varintChainedSimpleEncode32"},
              Finding("L1-length-disagrees", "varintChainedSimpleEncode32", "chainedSimple", "32-bit", "for x=%s Encode32 and Encode64 return different lengths" % (df and df[0])))
    for lo, hi, ret, stt in c32:
        n = norm(ret, lo, hi)[1]; ok, got, want = footprint_ok(stt, n)
        run.check(ok, "L3-footprint-is-0-to-len", {"encoder": "varintChainedSimpleEncode32", "x_in": [lo, hi], "len": n},
                  Finding("L3-footprint-differs", "varintChainedSimpleEncode32", "chainedSimple", "class[%d,%d]" % (lo, hi), "writes offsets %s but returns %d" % (got, n)))
    # ---- fixed-width forms ----
    tag_cls = FM.extract(mod, "varintTaggedPut64", "enc")
    tmax = {norm(r, lo, hi)[1]: (lo, hi) for lo, hi, r, _ in tag_cls}
    for w in range(1, 10):
        dom = tmax[w] if w <= 3 else (0, (1 << (8 * (w - 1))) - 1)      # legal values for this fixed width (see level note)
        for fn, has_ret in (("varintTaggedPut64FixedWidth", True), ("w_taggedPutFixedQuick", False)):
            t = FM.extract(mod, fn, "enc", in_lo=dom[0], in_hi=dom[1], const_args={2: w}); ntab += 1
            for lo, hi, ret, stt in t:
                ok, got, want = footprint_ok(stt, w)
                rl = norm(ret, lo, hi) if (has_ret and ret is not None) else C(w)
                run.check(ok and is_c(rl) and rl[1] == w, "L3-fixed-width-footprint", {"fn": fn, "width": w, "x_in": [lo, hi]},
                          Finding("L3-footprint-differs", fn, "tagged", "width%d" % w, "%s with width %d writes offsets %s and returns %s for x in [%d, %d]" % (fn, w, got, show(rl), lo, hi)))
    for w in range(1, 9):
        for fn in ("varintExternalPutFixedWidth", "w_externalPutFixedQuick", "w_externalPutFixedQuickMedium"):
            t = FM.extract(mod, fn, "enc", in_hi=(1 << (8 * w)) - 1, const_args={2: w}); ntab += 1
            for lo, hi, ret, stt in t:
                ok, got, want = footprint_ok(stt, w)
                by = all(norm(stt[j], lo, hi) == norm(("and", ("shr", X, 8 * j), 0xff), lo, hi) for j in range(w)) if ok else False
                run.check(ok and by, "L3-fixed-width-footprint", {"fn": fn, "width": w, "x_in": [lo, hi]},
                          Finding("L3-footprint-differs", fn, "external", "width%d" % w, "%s with width %d writes offsets %s (or wrong bytes) for x in [%d, %d]" % (fn, w, got, lo, hi)))
    return ntab


def sign_helpers(run):
    n = 0
    for w in (24, 40, 48, 56):
        src = os.path.join(VERIF, "witness", "sign", "sign%d.c" % w)
        rc, err = compile_only(src, ["-Werror=shift-count-overflow", "-Werror=shift-overflow", "-ferror-limit=0"])
        errs = [l for l in err.splitlines() if "error:" in l]
        other = [l for l in errs if "shift" not in l]
        if other: raise AnalysisBroken("sign%d.c does not compile: %s" % (w, other[0]))
        n += 1
        run.check(not errs, "L4-sign-constant-representable", {"width": w, "witness": "witness/sign/sign%d.c" % w},
                  Finding("L4-sign-bit-shift-overflows", "varintPrepareSigned_/varintRestoreSigned_", "%d-bit" % w, "shift",
                          "the %d-bit signed-storage helpers form the sign-bit mask as `1 << %d` in type int: the shift count exceeds the width of the type (undefined; on x86 the wrong bit is toggled), so negative values are not restored; compiler: %s" % (w, w - 1, (errs[0].split("error:")[1].strip() if errs else "")),
                          loc="src/varintExternal.h"))
    return n


def alignment(mod, run):
    """L6: typed multi-byte access through a pointer derived from a byte / void pointer parameter"""
    w = World(mod); n = 0
    for fn in mod.defined():
        if not (fn.file or "").endswith(SCALAR_UNITS): continue
        fi = w.fi(fn).prepare()
        for i in fn.insts():
            if i.op not in ("load", "store"): continue
            if i["size"] <= 1: continue
            root, off = fi.ptr(i.ops[0] if i.op == "load" else i.ops[1])
            if root[0] != "arg" or fn.params[root[1]]["t"] != "i8*": continue
            n += 1
            run.check(i.get("align", 1) <= 1, "L6-byte-pointer-access-unaligned-safe", {"fn": fn.name, "at": loc(i), "size": i["size"], "align": i.get("align")},
                      Finding("L6-typed-access-through-byte-pointer", fn.name, "param:%s" % fn.argnames.get(root[1], root[1]), i.op,
                              "%d-byte %s with alignment %s through the byte pointer parameter at %s: the buffer is not guaranteed to be aligned (undefined behaviour on a misaligned varint)" % (i["size"], i.op, i.get("align"), loc(i)), loc=loc(i)))
    return n


# L8: decode(encode(x)) == x.  witness/roundtrip.c composes the library's encoder and decoder on a local buffer; E1 gives the closed
# form R(x) of the composition on every class and sa/slices.py decides R == identity (bit slices of x, or of x - bias, put back in place).
ROUNDTRIPS = {
    "rt_tagged": "varintTaggedPut64 / varintTaggedGet64", "rt_taggedQuick": "varintTaggedPut64 / varintTaggedGet64Quick_",
    "rt_taggedRV": "varintTaggedPut64 / varintTaggedGet64ReturnValue", "rt_taggedBounded": "varintTaggedPut64 / varintTaggedGet(n = written length)",
    "rt_chained": "varintChainedPutVarint / varintChainedGetVarint", "rt_chainedSimple": "varintChainedSimpleEncode64 / varintChainedSimpleDecode64",
    "rt_external": "varintExternalPut / varintExternalGet", "rt_externalQuick": "varintExternalPut / varintExternalGetQuick_",
    "rt_split": "varintSplitPut_ / varintSplitGet_", "rt_splitFull": "varintSplitFullPut_ / varintSplitFullGet_", "rt_splitFull16": "varintSplitFull16Put_ / varintSplitFull16Get_",
    "rt_splitFullNoZero": "varintSplitFullNoZeroPut_ / varintSplitFullNoZeroGet_ (x >= 1)",
    "rt_chainedSimple32": "varintChainedSimpleEncode32 / varintChainedSimpleDecode32", "rt_chainedSimple32Fallback": "varintChainedSimpleEncode32 / varintChainedSimpleDecode32Fallback",
}
RT_DOMAIN = {"rt_splitFullNoZero": dict(in_lo=1), "rt_chainedSimple32": dict(input_bits=32), "rt_chainedSimple32Fallback": dict(input_bits=32)}
# not covered: varintChainedGetVarint32 (reads p[1] before it knows the varint has a second byte: the closed form depends on a byte the
# encoder did not write), the reversed split forms (written backwards from an end pointer) and the fixed-width / signed forms


def roundtrip(run, cfg):
    from ..slices import is_identity, first_difference
    mod = lib_module(cfg, witness=("wrap", "roundtrip"))
    n = 0
    for name, what in sorted(ROUNDTRIPS.items()):
        if mod.fn(name) is None: raise AnalysisBroken("round-trip witness %s not found" % name)
        dom = RT_DOMAIN.get(name, {}); top = 1 << dom.get("input_bits", 64)
        try: cls = e1.table(mod, name, input_arg=0, dst_arg=-1, **dom)
        except e1.NotInjective as ex:
            n += 1
            run.fail(Finding("L8-round-trip-differs", name, what, "witness", "%s: x = %d and x = %d both come back as %s, so one of them does not round-trip (%s)" % (what, ex.x1, ex.x2, ex.ret, ex), loc="witness/roundtrip.c"))
            continue
        except e1.Unsupported as ex:
            run.defer_broken("L8 %s (%s): outside the supported term language: %s" % (name, what, ex)); continue
        # the classes tile the whole 64-bit domain
        cur = dom.get("in_lo", 0); holes = None
        for (lo, hi, ret, _st) in cls:
            if lo != cur: holes = cur; break
            cur = hi + 1
        if holes is None and cur != top: holes = cur
        if holes is not None:
            run.defer_broken("L8 %s: the classes of the composition do not tile the domain (gap at %d): some path of it has no closed form" % (name, holes)); continue
        for (lo, hi, ret, _st) in cls:
            n += 1
            ok = ret is not None and not isinstance(ret, e1.Ptr) and is_identity(ret, lo, hi)
            wit = first_difference(ret, lo, hi) if (not ok and ret is not None and not isinstance(ret, e1.Ptr)) else None
            if not ok and wit is None and ret is not None:
                # the closed form is not a re-assembly of slices and no probe separates it from x: undecided, not a verdict
                run.defer_broken("L8 %s on [%d, %d]: closed form %s is neither the identity by slices nor refuted by a probe" % (name, lo, hi, e1.show(ret)[:160])); continue
            run.check(ok, "L8-decode-of-encode-is-identity", {"pair": what, "x_in": [lo, hi]},
                      Finding("L8-round-trip-differs", name, what, "class[%d,%d]" % (lo, hi),
                              "%s: for x in [%d, %d] decoding what was encoded gives %s, which is not x (e.g. x = %s gives %s)" % (
                                  what, lo, hi, e1.show(ret)[:200] if ret is not None else "nothing", wit, e1.ev(ret, wit) if wit is not None else "?"), loc="witness/roundtrip.c"))
    return n


def run(tier):
    run = Run(PROP, tier, level="other", technique="class-table extraction by interval-partitioned symbolic constant propagation (E1); compile-fail witnesses; access-shape rule on LLVM IR")
    per = {}
    for cfg in configs_for(tier):
        mod = lib_module(cfg)
        ntab = analyse(mod, run, cfg)
        nal = alignment(mod, run)
        nrt = roundtrip(run, cfg)
        per[cfg] = {"class_tables_extracted": ntab, "multi_byte_accesses_through_byte_pointers": nal, "round_trip_classes": nrt}
        if not getattr(run, "c01_not_injective", None): run.floor("class tables (%s)" % cfg, ntab, 80)
        if not getattr(run, "deferred", None) and not run.findings: run.floor("round-trip classes (%s)" % cfg, nrt, 110)
    nw = sign_helpers(run)
    run.coverage.update({"configurations": per, "sign_helper_witnesses": nw,
                         "fixed_width_domain": "tagged widths 1-3 only accept values of exactly that class (the format subtracts the class base); widths 4-9 accept every x < 256^(w-1); external width w accepts every x < 256^w",
                         "round_trip_pairs": ROUNDTRIPS,
                         "not_decided": "round trip of varintChainedGetVarint32, the reversed split forms, the fixed-width and signed forms (L8 covers the 14 pairs listed under round_trip_pairs for every input value)",
                         "where_this_stands": "see C04 evidence: E1 is abstract interpretation on a disjunctive interval domain, no solver, no concrete run"})
    return run.finish(
        "For each of the 9 scalar families the encoder, its length predictors (function and quick macro), its tag-byte length readers and "
        "its reversed / fixed-width / 32-bit forms are summarised as class tables over the whole value domain; the partitions must agree, "
        "lengths must lie in the documented range and the written offsets must be exactly [0, len). The sign helpers' relocation constant "
        "must compile without shift-count overflow; no multi-byte typed access may go through a byte pointer parameter. L8: for each "
        "encoder/decoder pair the composition decode(encode(x)) written in witness/roundtrip.c is summarised by E1 as a closed form per class; "
        "a bit-slice evaluation (every bit of x, or of x - bias, back in its place; constants cancel) shows the form is x on the whole class.")
