"""C10 - dimension headers round-trip and matrix cells are independent (W + E2 + structural rules).  DESIGN 4/C10.
 D1 (W)  for all 144 (rows width 0-8, cols width 1-8, sparse) pairs: ROW_COUNT/COL_COUNT/IS_SPARSE invert PAIR, BYTE_LENGTH = x+y,
         every named enumerator equals its PAIR(...)                       [720 static assertions]
 D2      varintDimensionPairEncode writes the row count at [0,x) and the column count at [x,x+y) with the widths it returns
 D3      getEntryByteOffset == x+y + (row*cols+col)*w on every path (the row==0 shortcut is the same polynomial); every typed cell
         accessor touches the matrix only at that offset with the cell's width
 D4 (E2) bit cells: Set makes bit k of the addressed byte equal to the argument (so false clears), Toggle flips it and returns the old
         bit, Get returns it; no other bit and no other byte changes; k and the byte come from the same quotient/remainder
Not decided: Pack/Unpack nibble packing (loop on a symbolic value), float/half conversion values."""
import os, re
from ..report import Run, Finding, rel
from ..common import lib_module, configs_for, need_fn, with_helpers_inlined
from ..build import AnalysisBroken, compile_only, VERIF
from ..core import World
from ..bounds import Bounds
from ..lin import Lin
from .. import e2
from ..e2 import E2, BV, Unsupported

PROP = "C10"
CELL = {"varintDimensionPairEntrySetUnsigned": "w", "varintDimensionPairEntryGetUnsigned": "r", "varintDimensionPairEntrySetFloat": "w", "varintDimensionPairEntryGetFloat": "r",
        "varintDimensionPairEntrySetDouble": "w", "varintDimensionPairEntryGetDouble": "r"}


def loc(i): return "%s:%s" % (rel(i.d.get("file", i.fn.file)), i.d.get("line", "?"))


def d1(run):
    src = os.path.join(VERIF, "witness", "consts_c10.c")
    n = open(src).read().count("\nEQ(")
    if n < 700: raise AnalysisBroken("consts_c10.c has only %d assertions" % n)
    rc, err = compile_only(src, ["-ferror-limit=0", "-Wno-everything"])
    fails = [l for l in err.splitlines() if "error:" in l]
    other = [l for l in fails if "static" not in l]
    if other: raise AnalysisBroken("consts_c10.c does not compile: %s" % other[0])
    bym = {}
    for l in fails:
        m = re.search(r'"([^"]+)"', l)
        msg = m.group(1) if m else l
        mac = re.match(r"(VARINT_DIMENSION_PAIR_[A-Z_]+?)\(", msg)
        bym.setdefault(mac.group(1) if mac else "enumerator", []).append(msg)
    for mac, msgs in sorted(bym.items()):
        run.fail(Finding("D1-header-macro-not-inverse", "src/varintDimension.h", mac, "macro", "%d of the 144 width pairs fail, e.g. %s" % (len(msgs), msgs[0]), loc="src/varintDimension.h", quant=str(len(msgs))))
    for _ in range(n - len(fails)): run.ok("D1-pair-macros-invert")
    return n


def d2(mod, run, w):
    fn = need_fn(mod, "varintDimensionPairEncode"); fi = w.fi(fn).prepare()
    allputs = [i for i in fn.calls() if i.get("callee") == "varintExternalPutFixedWidth"]
    if not 2 <= len(allputs) <= 4: raise AnalysisBroken("varintDimensionPairEncode: expected 2 fixed-width puts (one per count), found %d" % len(allputs))
    if fn.loops(): raise AnalysisBroken("varintDimensionPairEncode: unexpected loop")
    # every way through the function: the counts are written back to back from dst; a count may only be left out where its width is 0
    paths = []
    def walk(b, puts, zeros, depth=0):
        if depth > 40 or len(paths) > 64: raise AnalysisBroken("varintDimensionPairEncode: too many paths")
        puts = puts + [i for i in b.insts if i.op == "call" and i.get("callee") == "varintExternalPutFixedWidth"]
        t = b.term
        if t.op == "ret": paths.append((puts, zeros)); return
        if t.op == "br" and len(t.ops) == 3 and t.ops[0]["k"] == "inst":
            ci = fn.imap[t.ops[0]["v"]]
            z = None
            if ci.op == "icmp" and ci["pred"] in ("eq", "ne") and ci.ops[1]["k"] == "int" and int(ci.ops[1]["v"]) == 0: z = (fi.lin(ci.ops[0]), ci["pred"])
            for sx, taken in ((fn.bmap[t.ops[2]["v"]], True), (fn.bmap[t.ops[1]["v"]], False)):
                zs = zeros
                if z is not None and ((z[1] == "eq") == taken): zs = zeros + [z[0]]
                walk(sx, puts, zs, depth + 1)
            return
        for sx in b.succs: walk(sx, puts, zeros, depth + 1)
    walk(fn.entry, [], [])
    if not paths: raise AnalysisBroken("varintDimensionPairEncode: no path to a return")
    for puts, zeros in paths:
        desc = []; ok = 1 <= len(puts) <= 2; end = Lin()
        for n, pt in enumerate(puts):
            r, o = fi.ptr(pt.ops[0]); wd = fi.lin(pt.ops[2])
            desc.append("dst+%r width %r" % (o, wd))
            # starts where the previous count ended; an offset that is a width known to be 0 on this path is that same place
            at_end = r == ("arg", 0) and (o == end or any((o - end) == zl for zl in zeros))
            ok = ok and at_end
            end = end + wd
        if len(puts) == 1: ok = ok and bool(zeros)          # a count is left out only under a test that its width is 0
        run.check(ok, "D2-header-fields-adjacent", {"writes": desc, "widths_known_zero_on_path": [repr(z) for z in zeros]},
                  Finding("D2-header-layout", fn.name, "header", "offsets", "on a path through varintDimensionPairEncode the counts are written at %s: the column count must start exactly where the row count ends (and a count may be skipped only where its width is 0)" % (
                      ", ".join(desc) or "nowhere"), loc=loc(puts[-1]) if puts else "%s:%s" % (rel(fn.file), fn.line)))
    puts = allputs
    w1 = fi.lin(puts[0].ops[2]); w2 = fi.lin(puts[-1].ops[2])
    # the widths are those encoded in the returned dimension
    rets = fn.rets()
    rv = fi.lin(rets[0].ops[0]) if rets and rets[0].ops else None
    def derived_from_ret(l):
        # width = f(dimension) where dimension is the returned value: look for the returned SSA value in the def chain
        seen = set(); st = [a for a in l.atoms()]
        rk = set(rv.atoms()) if rv is not None else set()
        while st:
            a = st.pop()
            if a in rk: return True
            if a in seen: continue
            seen.add(a)
            ii = None
            if isinstance(a, tuple) and a[0] == "v" and a[1] == "inst": ii = fn.imap.get(a[2])
            elif isinstance(a, tuple) and a[0] in ("i", "and", "trunc"): ii = fn.imap.get(a[1])
            if ii is None: continue
            for o in ii.ops:
                if o["k"] in ("inst", "arg"): st += list(fi.lin(o).atoms())
        return False
    run.check(rv is not None and all(derived_from_ret(fi.lin(pt.ops[2])) for pt in puts), "D2-widths-from-returned-dimension", {"returned": repr(rv)},
              Finding("D2-widths-not-from-dimension", fn.name, "header", "widths", "the widths used to write the header are not computed from the dimension value that is returned", loc=loc(puts[0])))


def d3(mod, run, w, cfg=None):
    # (a) the offset polynomial, by E2 over all paths
    fn = need_fn(mod, "getEntryByteOffset")
    eng = E2(mod, sym_args={1: "row", 2: "col", 3: "w", 4: "dim"}); eng.pure = {n for n, s in w.pts.summ.items() if not s.mod}
    try: paths = eng.run("getEntryByteOffset")
    except Unsupported as e:
        # header widths handed around in a small struct returned by value: read the function with its file-local helpers inlined
        m2, _f2 = with_helpers_inlined(mod, fn, cfg) if cfg else (None, None)
        if m2 is None: raise AnalysisBroken("E2: getEntryByteOffset unsupported: %s" % e)
        from ..core import World as _W
        w2 = _W(m2)
        eng = E2(m2, sym_args={1: "row", 2: "col", 3: "w", 4: "dim"}); eng.pure = {n for n, s_ in w2.pts.summ.items() if not s_.mod}
        try: paths = eng.run("getEntryByteOffset")
        except Unsupported as e2_: raise AnalysisBroken("E2: getEntryByteOffset unsupported: %s" % e2_)
        run.observe("D3: getEntryByteOffset read with its file-local helpers inlined")
    n = 0
    for p in paths:
        n += 1
        ret = eng.apply(p.ret, p) if isinstance(p.ret, Lin) else None
        dim = eng.apply(Lin.atom("dim"), p)
        res = [c for c in p.cases if c[0] == "dim"]
        if not res or res[0][1] % 16: raise AnalysisBroken("getEntryByteOffset: dimension byte not partitioned modulo 16")
        r = res[0][2] % 16
        q = Lin(dim.c // 16, {a: c // 16 for a, c in dim.t.items()}) if all(c % 16 == 0 for c in dim.t.values()) else None
        if q is None: raise AnalysisBroken("getEntryByteOffset: cannot express dim >> 4")
        H = q + (((r >> 1) & 0x07) + 1)                       # rows width + cols width, with the 3-bit column field of the format
        row, col, ww = (eng.apply(Lin.atom(s), p) for s in ("row", "col", "w"))
        def mul(a, b):
            if a.is_const(): return b.scale(a.c)
            if b.is_const(): return a.scale(b.c)
            return Lin.atom(("mul",) + tuple(sorted((a.key(), b.key()), key=repr)))
        cols_atoms = [a for a in (ret.atoms() if ret is not None else []) if isinstance(a, tuple) and a and a[0] == "mul"]
        # expected: H + ((row*cols)+col)*w with cols = whatever the header read returned on this path
        ok = False; why = "returns %r" % (ret,)
        if ret is not None:
            if row.is_const() and row.c == 0:
                ok = (ret - H - mul(col, ww)).is_const() and (ret - H - mul(col, ww)).c == 0
            else:
                # find the cols symbol: the uninterpreted header read
                cand = set()
                def walk(k):
                    if isinstance(k, tuple):
                        for x in k:
                            if isinstance(x, tuple) and x and x[0] == "call": cand.add(x)
                            walk(x)
                walk(tuple(ret.atoms()))
                for cs in cand:
                    exp = H + mul(mul(row, Lin.atom(cs)) + col, ww)
                    d = ret - exp
                    if d.is_const() and d.c == 0: ok = True
        # the row / column counts are read where the header writer (D2) put them, with the widths of the dimension byte
        wc = ((r >> 1) & 0x07) + 1
        for (cname, cargs) in p.calls:
            if "External" not in cname: continue
            ptrk = [a for a in cargs if isinstance(a, tuple) and a and a[0] == "ptr"]
            wk = [a for a in cargs if not (isinstance(a, tuple) and a and a[0] == "ptr")]
            if not ptrk or not wk: continue
            at_rows = ptrk[0][2] == Lin().key() and wk[0] == q.key()
            at_cols = ptrk[0][2] == q.key() and wk[0] == Lin.const(wc).key()
            if not (at_rows or at_cols): ok = False; why = "reads a count from the header at the wrong offset or with the wrong width (%s)" % (cname,)
        hdr = sorted({(p.offs[kk[1]] - q).c + j for kk in p.reads if (p.offs[kk[1]] - q).is_const() and 0 <= (p.offs[kk[1]] - q).c < 8 for j in range(kk[2])})
        if hdr and hdr != list(range(wc)): ok = False; why = "reads header bytes rowsWidth+%s for the column count, expected rowsWidth+[0,%d)" % (hdr, wc)
        run.check(ok, "D3-cell-offset-polynomial", {"path": [c for c in p.cases if c[0] != "dim"][:3], "dim_low_nibble": r, "returns": repr(ret)},
                  Finding("D3-cell-offset-wrong", "getEntryByteOffset", "offset", "polynomial", "on the path %s: %s; the cell offset must be header + (row*cols+col)*width with the counts read from the header" % (p.cases, why), quant=str(r)))
    # (b) typed accessors touch the matrix only at that offset
    B = Bounds(w)
    for name, mode in CELL.items():
        f = need_fn(mod, name); fi = w.fi(f).prepare()
        calls = [i for i in f.calls() if i.get("callee") == "getEntryByteOffset"]
        if not calls:
            # the accessor delegates to a file-local copy helper: it must hand over its own matrix, row and column, and the helper is
            # checked in its place
            hs = [i for i in f.calls() if mod.fn(i.get("callee") or "") is not None and mod.fn(i["callee"]).internal and any(c2.get("callee") == "getEntryByteOffset" for c2 in mod.fn(i["callee"]).calls())]
            direct = [a for a in list(B.accesses(f, ("arg", 0), "w")) + list(B.accesses(f, ("arg", 0), "r")) if not (a[0].op == "call" and a[0] in hs)]
            mroot = 0
            if len(hs) == 1 and not direct:
                h = hs[0]
                def strip_(fx, o):
                    while o["k"] == "inst" and fx.imap[o["v"]].op in ("bitcast", "zext", "sext", "trunc"): o = fx.imap[o["v"]].ops[0]
                    return o
                # which helper parameters receive the accessor's matrix, row and column (in whatever order the helper declares them)
                pos = {}
                for k in range(h["nargs"]):
                    a = strip_(f, h.ops[k])
                    if a["k"] == "arg" and a["v"] in (0, 1, 2) and a["v"] not in pos: pos[a["v"]] = k
                hf = mod.fn(h["callee"]); hcalls = [i for i in hf.calls() if i.get("callee") == "getEntryByteOffset"]
                fwd = len(pos) == 3 and len(hcalls) == 1 and all(strip_(hf, hcalls[0].ops[j])["k"] == "arg" and strip_(hf, hcalls[0].ops[j])["v"] == pos[j] for j in range(3))
                run.check(fwd, "D3-accessor-forwards-cell", {"fn": name, "helper": h.get("callee")},
                          Finding("D3-accessor-offset", name, "cell", "call:%s" % h.get("callee"), "%s does not hand its own matrix, row and column to %s (or the helper does not pass them on to getEntryByteOffset)" % (name, h.get("callee")), loc=loc(h)))
                f = hf; fi = w.fi(f).prepare(); calls = hcalls; mroot = pos.get(0, 0)
        else: mroot = 0
        if len(calls) != 1: raise AnalysisBroken("%s: expected one getEntryByteOffset call" % name)
        offl = fi.lin({"k": "inst", "v": calls[0].id, "t": "i64"})
        accs = list(B.accesses(f, ("arg", mroot), "w")) + list(B.accesses(f, ("arg", mroot), "r"))
        accs = [a for a in accs if not (a[0].op == "call" and a[0].get("callee") == "getEntryByteOffset")]
        if not accs: raise AnalysisBroken("%s: no access to the matrix found" % name)
        for (i, kind, off, sz) in accs:
            szs = sz if isinstance(sz, list) else [sz]
            ok = (off - offl).is_const() and (off - offl).c == 0 and sz is not None
            run.check(ok, "D3-accessor-uses-cell-offset", {"fn": name, "access": kind, "offset": repr(off), "size": repr(szs[-1]) if sz is not None else "unbounded"},
                      Finding("D3-accessor-offset", name, "cell", kind, "%s at %s accesses the matrix at %r, not at the cell offset returned by getEntryByteOffset" % (kind, loc(i), off), loc=loc(i)))
    return n


def d4(mod, run, w, cfg=None):
    n = 0
    for name in ("varintDimensionPairEntrySetBit", "varintDimensionPairEntryGetBit", "varintDimensionPairEntryToggleBit"):
        need_fn(mod, name)
        isset = name.endswith("SetBit")
        def interp(mod_, w_):
            eng_ = E2(mod_, sym_args={1: "row", 2: "col", (4 if isset else 3): "dim"}, known_bits={3: 1} if isset else {})
            eng_.pure = {nn for nn, s in w_.pts.summ.items() if not s.mod}
            return eng_, eng_.run(name)
        try: eng, paths = interp(mod, w)
        except Unsupported as e:
            # e.g. a file-local helper that returns the byte offset and mask as a small struct: interpret the accessor with it inlined
            m2, _f2 = with_helpers_inlined(mod, mod.fn(name), cfg) if cfg else (None, None)
            if m2 is None: raise AnalysisBroken("E2: %s unsupported: %s" % (name, e))
            try: eng, paths = interp(m2, World(m2))
            except Unsupported as ex2: raise AnalysisBroken("E2: %s unsupported: %s (with helpers inlined: %s)" % (name, e, ex2))
        for p in paths:
            n += 1
            res8 = [c for c in p.cases if isinstance(c[1], int) and c[1] == 8]
            if not res8: raise AnalysisBroken("%s: bit index not partitioned modulo 8" % name)
            k = res8[-1][2]
            dim = eng.apply(Lin.atom("dim"), p)
            qrows = Lin(dim.c // 16, {a: c // 16 for a, c in dim.t.items()}) if all(c % 16 == 0 for c in dim.t.values()) else None
            def is_header(kk):
                # reads of the column count inside the header: offset = (rows width) + j, j < 8
                if qrows is None or kk in p.writes: return False
                d = p.offs[kk[1]] - qrows
                return d.is_const() and 0 <= d.c < 8
            keys = {kk for kk in (set(p.reads) | set(p.writes)) if not is_header(kk)}
            bad = None
            # D6: when the column count is read from the header it is read at offset (rows width) with the columns width
            resd = [c for c in p.cases if c[0] == "dim"]
            rr = resd[0][2] % 16 if resd else None
            if rr is not None and qrows is not None:
                wc = ((rr >> 1) & 0x07) + 1
                hdr = sorted({(p.offs[kk[1]] - qrows).c + j for kk in p.reads if is_header(kk) for j in range(kk[2])})
                if hdr and hdr != list(range(wc)): bad = "reads header bytes at offsets rowsWidth+%s to obtain the column count; the column count occupies rowsWidth+[0,%d)" % (hdr, wc)
                for (cname, cargs) in p.calls:
                    if "External" not in cname: continue
                    ptrk = [a for a in cargs if isinstance(a, tuple) and a and a[0] == "ptr"]
                    wk = [a for a in cargs if not (isinstance(a, tuple) and a and a[0] == "ptr")]
                    if ptrk and ptrk[0][2] != qrows.key(): bad = "reads the column count at a header offset other than the rows width"
                    if wk and wk[0] != Lin.const(wc).key(): bad = "reads the column count with a width other than the columns width encoded in the dimension (%d)" % wc
            if len(keys) != 1 or any(kk[2] != 1 for kk in keys): bad = "accesses %d cell locations (%s), expected exactly one byte" % (len(keys), sorted((repr(p.offs[kk[1]]), kk[2]) for kk in keys))
            else:
                key = next(iter(keys)); old = p.reads.get(key)
                if name.endswith("GetBit"):
                    if p.writes: bad = "GetBit writes memory"
                    elif not isinstance(p.ret, (BV,)) or old is None or p.ret.bits[0] != old.bits[k]: bad = "returns %r, expected bit %d of the byte" % (p.ret, k)
                else:
                    new = p.writes.get(key)
                    if old is None or new is None: bad = "byte is not read-modify-written"
                    else:
                        known = {c[1]: c[2] for c in p.cases if c[0] == "bit"}          # the path branched on the flag: its value is known here
                        for b in range(8):
                            exp = old.bits[b] if b != k else (known.get(("val", 0), ("val", 0)) if isset else e2.b_not(old.bits[k]))
                            if new.bits[b] != exp:
                                bad = "bit %d of the byte becomes %s, expected %s%s" % (b, e2.fmt_bit(new.bits[b]), e2.fmt_bit(exp), " (setting a bit to false cannot clear it)" if isset and b == k else ""); break
                        if bad is None and not isset:
                            rv = p.ret
                            if not isinstance(rv, BV) or rv.bits[0] != old.bits[k]: bad = "ToggleBit returns %r, expected the previous value of bit %d" % (rv, k)
            run.check(bad is None, "D4-bit-cell-exact", {"fn": name, "bit": k},
                      Finding("D4-bit-cell-wrong", name, "bit", "k%d" % k, "%s, bit index %d: %s" % (name, k, bad)))
    return n


def d7(run, cfg):
    """D7: varintDimensionPack / Unpack give back the coordinates (witness/roundtrip.c; closed forms by E1, identity by bit slices)"""
    from .. import e1
    from ..slices import is_identity, first_difference
    mod = lib_module(cfg, witness=("wrap", "roundtrip")); n = 0
    for name, what, want in (("rt_dimCol", "column of Pack(0, x)", "x"), ("rt_dimRow", "row of Pack(x, 0)", "x"), ("rt_dimColRowOfRow1", "row of Pack(1, x)", 1)):
        if mod.fn(name) is None: raise AnalysisBroken("round-trip witness %s not found" % name)
        try: cls = e1.table(mod, name, input_arg=0, dst_arg=-1)
        except e1.Unsupported as ex: raise AnalysisBroken("D7 %s: outside the supported term language: %s" % (name, ex))
        cur = 0
        for (lo, hi, ret, _s) in cls:
            if lo != cur: raise AnalysisBroken("D7 %s: classes do not tile the domain at %d" % (name, cur))
            cur = hi + 1
        if cur != (1 << 64): raise AnalysisBroken("D7 %s: classes end at %d" % (name, cur))
        for (lo, hi, ret, _s) in cls:
            n += 1
            if want == "x": ok = ret is not None and is_identity(ret, lo, hi); wit = None if ok else first_difference(ret, lo, hi)
            else:
                r2 = e1.norm(ret, lo, hi); ok = (e1.is_c(r2) and r2[1] == want) or (e1.lbound(ret, lo, hi) == want == e1.ubound(ret, lo, hi))
                wit = None if ok else next((x for x in (lo, hi, (lo + hi) // 2) if e1.ev(ret, x) != want), None)
            if not ok and wit is None: raise AnalysisBroken("D7 %s on [%d, %d]: closed form %s neither proved nor refuted" % (name, lo, hi, e1.show(ret)[:120]))
            run.check(ok, "D7-pack-unpack-gives-coordinates-back", {"what": what, "x_in": [lo, hi]},
                      Finding("D7-packed-coordinate-differs", "varintDimensionPack", what, "class[%d,%d]" % (lo, hi),
                              "%s for x in [%d, %d] comes back as %s (e.g. x = %s gives %s): the level chosen does not have room for the coordinate, its top bits spill into the other field" % (
                                  what, lo, hi, e1.show(ret)[:120], wit, e1.ev(ret, wit) if wit is not None else "?"), loc="src/varintDimension.c"))
    return n


def run(tier):
    run = Run(PROP, tier, level="other", technique="compile-time witnesses (static assertions over the header macros) + bit-layout abstract interpretation (E2) + structural offset rules on LLVM IR")
    n1 = d1(run)
    per = {}
    for cfg in configs_for(tier):
        mod = lib_module(cfg); w = World(mod)
        d2(mod, run, w)
        n3 = d3(mod, run, w, cfg); n4 = d4(mod, run, w, cfg); n7 = d7(run, cfg)
        per[cfg] = {"offset_paths": n3, "bit_cell_cases": n4, "pack_round_trip_classes": n7}
        run.floor("pack/unpack classes (%s)" % cfg, n7, 20)
        run.floor("getEntryByteOffset paths (%s)" % cfg, n3, 16)
        run.floor("bit-cell cases (%s)" % cfg, n4, 24)
    run.coverage.update({"static_assertions": n1, "configurations": per,
                         "not_decided": "varintDimensionPack/Unpack (loop over a symbolic coordinate); half-float conversion values; sparse flag semantics"})
    return run.finish(
        "D1: 720 static assertions over the repository's own header macros (a violating header does not compile). D2/D3: the header writer "
        "places the two counts adjacently with the widths it returns; the cell offset is the polynomial header+(row*cols+col)*w on every path "
        "and every typed accessor touches the matrix only there. D4: the three bit-cell accessors are interpreted with the bit index "
        "partitioned by residue modulo 8; the new byte must differ from the old one in exactly the addressed bit, with the specified value.")
