"""C11 - bitstream writes are exact and isolated (E2).  DESIGN 4/C11.
For each word type (VBITS = uint8_t .. uint64_t), each residue of the start bit modulo the word size and each width n <= word size:
 B1 Set: the n value bits land MSB-first at bit positions [start, start+n) of the stream; every other bit of the touched words keeps
         its old value; the second word is touched only when the value straddles
 B2 Get: returns exactly those bits
 B3 only words startBit/W and (when straddling) the next one are accessed
Precondition (an assert in the source): val < 2^n.  Sign helpers: the relocation constant 1ULL << (n-1) is representable for n in 1..64
(compile witness); restore-after-prepare is not decided (two's-complement negation is outside the bit-copy domain)."""
import os
from ..report import Run, Finding
from ..build import AnalysisBroken, build_module, compile_only, VERIF
from ..ir import Module
from ..lin import Lin
from .. import e2
from ..e2 import E2, BV, Unsupported

PROP = "C11"
WORDS = (8, 16, 32, 64)


def spec(W, r, n):
    """{(word j, bit pos): value bit index} MSB-first placement"""
    high = W - r; low = high - n; out = {}
    if low >= 0:
        for i in range(n): out[(0, low + i)] = i
    else:
        k = -low                      # bits that spill into the next word
        for i in range(high): out[(0, i)] = k + i
        for i in range(k): out[(1, W - k + i)] = i
    return out


def check_word(mod, run, W, widths, suffix=""):
    SB = W // 8; ncase = 0
    for op in ("set", "get"):
        fname = "wbs%d%s_%s" % (W, suffix, op)
        if mod.fn(fname) is None: raise AnalysisBroken("witness function %s missing" % fname)
        for n in widths:
            eng = E2(mod, const_args={2: n}, sym_args={1: "start"}, known_bits={3: n} if op == "set" else {})
            try: paths = eng.run(fname)
            except Unsupported as e: raise AnalysisBroken("E2: %s(n=%d) unsupported: %s" % (fname, n, e))
            for p in paths:
                ncase += 1
                res = [c for c in p.cases if c[0] == "start"]
                m, r = (res[0][1], res[0][2]) if res else (1, 0)
                if m != W and not (m == 1 and W == 1): raise AnalysisBroken("%s: start bit partitioned modulo %d, expected %d" % (fname, m, W))
                sp = spec(W, r, n); straddle = any(j == 1 for (j, _) in sp)
                st = eng.apply(Lin.atom("start"), p)
                idx0 = Lin(st.c // W, {a: c // W for a, c in st.t.items()})
                want = {0: idx0.scale(SB), 1: (idx0 + 1).scale(SB)}
                def word_of(key):
                    off = p.offs[key[1]]
                    for j, wl in want.items():
                        if (off - wl).is_const() and (off - wl).c == 0 and key[2] == SB: return j
                    return None
                bad = None
                for key in list(p.reads) + list(p.writes):
                    j = word_of(key)
                    if j is None: bad = "accesses a word other than startBit/%d or its successor (byte offset %r)" % (W, p.offs[key[1]]); break
                    if j == 1 and not straddle: bad = "touches the following word although the %d bits fit in the current one (start bit %d)" % (n, r); break
                olds = {word_of(k): v for k, v in p.reads.items()}
                if bad is None and op == "set":
                    wr = {word_of(k): v for k, v in p.writes.items()}
                    need = {0} | ({1} if straddle else set())
                    if set(wr) != need: bad = "writes words %s, expected %s" % (sorted(wr), sorted(need))
                    for j in sorted(wr):
                        if bad: break
                        old = olds.get(j)
                        if old is None: bad = "word %d written without being read first" % j; break
                        for pos in range(W):
                            got = wr[j].bits[pos]
                            if (j, pos) in sp:
                                if got != ("val", sp[(j, pos)]): bad = "bit %d of word %d receives %s, expected value bit %d" % (pos, j, e2.fmt_bit(got), sp[(j, pos)]); break
                            elif got != old.bits[pos]:
                                bad = "bit %d of word %d lies outside the written range but becomes %s instead of keeping %s" % (pos, j, e2.fmt_bit(got), e2.fmt_bit(old.bits[pos])); break
                if bad is None and op == "get":
                    ret = p.ret
                    if not isinstance(ret, BV): bad = "returns %r" % (ret,)
                    else:
                        inv = {vi: jp for jp, vi in sp.items()}
                        for i in range(ret.w):
                            exp = 0
                            if i in inv:
                                j, pos = inv[i]; exp = olds[j].bits[pos] if j in olds else None
                            if exp is None or ret.bits[i] != exp: bad = "result bit %d is %s, expected %s" % (i, e2.fmt_bit(ret.bits[i]), "a stream bit that was not read" if exp is None else e2.fmt_bit(exp)); break
                    if bad is None and p.writes: bad = "Get writes memory"
                rule = "B1-set-exact-and-isolated" if op == "set" else "B2-get-exact"
                run.check(bad is None, rule, {"word": W, "width": n, "start_bit_mod_word": r, "straddles": straddle},
                          Finding(rule.replace("exact", "wrong").replace("-and-isolated", "-or-leaks"), "varintBitstream%s" % op.capitalize(), "vbits=uint%d_t" % W, "width%d" % n,
                                  "varintBitstream%s with %d-bit words, %d-bit value at start bit %d (mod %d): %s" % (op.capitalize(), W, n, r, W, bad), quant="start%d" % r))
    return ncase


def run(tier):
    run = Run(PROP, tier, level="other", technique="bit-layout abstract interpretation partitioned by start-bit residue x width (E2) on LLVM IR of per-word-type instantiations")
    per = {}
    for W in WORDS:
        mod = Module(build_module("bitstream-%d" % W, [os.path.join(VERIF, "witness", "bitstream_%d.c" % W)], "ndebug"))
        widths = list(range(1, W + 1)) if tier == "thorough" or W <= 16 else sorted(set(list(range(1, 9)) + [12, 13, 16, 17, 24, 31, 32, 33, 48, 63, 64]) & set(range(1, W + 1)))
        n = check_word(mod, run, W, widths)
        per["uint%d_t" % W] = {"widths": len(widths), "cases": n}
        run.floor("cases for %d-bit words" % W, n, 100)
        if W < 64:
            # the same word type with a value type of the same (narrow) width: masks built from 64-bit constants must still be cut to size
            modn = Module(build_module("bitstream-%dn" % W, [os.path.join(VERIF, "witness", "bitstream_%dn.c" % W)], "ndebug"))
            wn = widths if W <= 16 else [w_ for w_ in widths if w_ in (1, 2, 7, 8, 13, 16, 24, 31, 32)]
            nn = check_word(modn, run, W, wn, suffix="n")
            per["uint%d_t/narrow-value" % W] = {"widths": len(wn), "cases": nn}
            run.floor("cases for %d-bit words, narrow value type" % W, nn, 30)
    # sign helper constant (compile witness)
    src = os.path.join(VERIF, "witness", "bitstream_sign.c")
    rc, err = compile_only(src, ["-Werror=shift-count-overflow", "-ferror-limit=0"])
    errs = [l for l in err.splitlines() if "error:" in l]
    if errs and not all("shift" in l for l in errs): raise AnalysisBroken("bitstream_sign.c does not compile: %s" % errs[0])
    run.check(not errs, "B4-sign-constant-representable", {"widths": "1..64"}, Finding("B4-sign-shift-overflows", "_varintBitstreamPrepareSigned", "sign", "shift", "sign relocation constant is not representable: %s" % (errs[0] if errs else "")))
    run.coverage.update({"word_types": per, "exhaustive": tier == "thorough",
                         "not_decided": "restore(prepare(v)) == v for the signed helpers (negation is arithmetic, not a bit placement); widths larger than the word size"})
    run.assumptions += ["val < 2^bitsPerValue (assert in the source)", "bitsPerValue <= bits per word, so a value overlaps at most two words"]
    return run.finish(
        "varintBitstreamSet/Get are interpreted abstractly for every word type with the start offset as an opaque symbol partitioned by its "
        "residue modulo the word size, for each width; the resulting word contents are compared bit by bit with the MSB-first placement: "
        "value bits exact, every other bit unchanged, second word touched only when straddling.")
