"""C04 - scalar wire formats are byte-exact, canonical and length-monotone (E1 + W).  DESIGN 4/C04.
 F1 class table of every encoder == independent format table (sa/spec_formats.py), compared on the common refinement of both
    partitions after canonicalisation; a structural difference is turned into a witness x by evaluating the two extracted terms
 F2 classes are contiguous, cover the domain, lengths never decrease with x; per-length maxima == header constants (compile-time
    witness) == README 'Storage Overview' numbers
 F3 never-shrink: the first second-type class of split-full / no-zero / 16 is no shorter than the longest first-type class
Not decided: Elias gamma/delta bit strings and the zig-zag map (bit-writer loops are outside E1's term language)."""
import os, re
from ..report import Run, Finding, rel
from ..common import lib_module, configs_for
from ..build import AnalysisBroken, compile_only, VERIF, REPO
from .. import formats as FM
from ..e1 import norm, show, ev, is_c

PROP = "C04"


def table_rows(cls):
    """extracted class table -> [(lo, hi, ret term, {offset: term})]"""
    return [(lo, hi, ret, st) for (lo, hi, ret, st) in cls]


def compare_tables(run, fam, what, cls, spec, rule="F1-bytes-match-format"):
    """compare an extracted encoder table with a spec table on the common refinement"""
    pts = [c[0] for c in cls] + [c[1] + 1 for c in cls] + [r[0] for r in spec] + [r[1] + 1 for r in spec]
    lo0 = max(cls[0][0], spec[0][0]); hi0 = min(cls[-1][1], spec[-1][1])
    if cls[0][0] != spec[0][0] or cls[-1][1] != spec[-1][1]:
        run.fail(Finding("F1-domain-differs", what, fam, "domain", "%s: encoder covers [%d, %d], the format table covers [%d, %d]" % (what, cls[0][0], cls[-1][1], spec[0][0], spec[-1][1])))
    n = 0
    for (a, b) in FM.refine(pts, lo0, hi0):
        c = next((x for x in cls if x[0] <= a and b <= x[1]), None); r = next((x for x in spec if x[0] <= a and b <= x[1]), None)
        if c is None or r is None:
            run.fail(Finding("F1-gap", what, fam, "partition", "%s: no class covers [%d, %d]" % (what, a, b))); continue
        n += 1
        clen = norm(c[2], a, b); slen = r[2]
        okl = is_c(clen) and clen[1] == slen
        offs_c = set(c[3]); offs_s = set(r[3])
        bad = None
        if not okl: bad = "length: encoder returns %s, format says %d" % (show(clen), slen)
        elif offs_c != offs_s: bad = "written offsets %s, format says %s" % (sorted(offs_c), sorted(offs_s))
        else:
            for o in sorted(offs_s):
                tc = norm(c[3][o], a, b); ts = norm(r[3][o], a, b)
                if tc == ts: continue
                # not identical after canonicalisation: evaluate the two closed forms to look for a witness
                wit = None
                for x in sorted({a, b, (a + b) // 2, min(b, a + 1), max(a, b - 1), min(b, a + 255), min(b, a + 256), min(b, a + 65536)}):
                    if ev(tc, x) != ev(ts, x): wit = x; break
                if wit is not None:
                    bad = "byte %d for x=%d: encoder writes %s = %d, format says %s = %d" % (o, wit, show(tc), ev(tc, wit), show(ts), ev(ts, wit)); break
                raise AnalysisBroken("%s: byte %d on [%d, %d]: terms %s and %s differ structurally but agree on all probes - inconclusive" % (what, o, a, b, show(tc), show(ts)))
        if bad:
            run.fail(Finding(rule.replace("match", "differ-from"), what, fam, "class[%d,%d]" % (r[0], r[1]), "%s on x in [%d, %d]: %s" % (what, a, b, bad)))
        else:
            run.ok(rule, {"encoder": what, "x_in": [a, b], "len": slen, "bytes": {str(o): show(norm(r[3][o], a, b)) for o in sorted(offs_s)}})
    return n


def readme_maxima():
    """{family row name: [1..4 byte maxima]} from README 'Storage Overview' (first table) and the level table"""
    p = os.path.join(REPO, "README.md")
    try: txt = open(p).read()
    except OSError: raise AnalysisBroken("README.md not found")
    if "## Storage Overview" not in txt: raise AnalysisBroken("README 'Storage Overview' section not found")
    sec = txt.split("## Storage Overview", 1)[1].split("\n## ", 1)[0]
    rows = []
    for line in sec.splitlines():
        cells = [c.strip() for c in line.strip().strip("|").split("|")]
        if len(cells) >= 6 and cells[0] and not set(cells[0]) <= set("-: ") and cells[0] != "varint":
            nums = []
            for c in cells[2:6]:
                c = c.replace(",", "")
                nums.append(int(c) if c.isdigit() else None)
            rows.append((cells[0], cells[1], nums))
    return rows


def analyse(mod, run, label, tier):
    ncls = 0; tables = {}
    for fam, d in FM.FAMILIES.items():
        cls = FM.extract(mod, d["enc"], "enc", in_lo=d.get("in_lo", 0))
        tables[fam] = cls
        spec = d["spec"]()
        ncls += compare_tables(run, fam, d["enc"], cls, spec)
        for (fn, order) in d.get("rev", []):
            rc = FM.extract(mod, fn, "enc", in_lo=d.get("in_lo", 0))
            sp = {"split": FM.SP.split, "splitFull": FM.SP.split_full, "splitFullNoZero": FM.SP.split_full_nozero}[fam](order)
            ncls += compare_tables(run, fam, fn, rc, sp)
        # ---- F2 ----
        lens = FM.ret_const(cls)
        if lens is None: raise AnalysisBroken("%s: a class has a non-constant length" % d["enc"])
        contiguous = all(lens[k][1] + 1 == lens[k + 1][0] for k in range(len(lens) - 1))
        dom = lens[0][0] == d.get("in_lo", 0) and lens[-1][1] == (1 << 64) - 1
        mono = all(lens[k][2] <= lens[k + 1][2] for k in range(len(lens) - 1))
        run.check(contiguous and dom, "F2-classes-partition-domain", {"family": fam, "classes": len(lens)},
                  Finding("F2-partition-broken", d["enc"], fam, "partition", "%s: classes do not partition the domain contiguously" % d["enc"]))
        k = next((k for k in range(len(lens) - 1) if lens[k][2] > lens[k + 1][2]), None)
        run.check(mono, "F2-length-monotone", {"family": fam, "lengths": [l[2] for l in FM.merge(lens)]},
                  Finding("F2-length-decreases", d["enc"], fam, "monotone", "%s: x=%d takes %d bytes but the larger x=%d takes %d" % (
                      (d["enc"], lens[k][1], lens[k][2], lens[k + 1][0], lens[k + 1][2]) if k is not None else (d["enc"], 0, 0, 0, 0))))
    # 32-bit entry point
    for nm, d in FM.ENC32.items():
        cls = FM.extract(mod, d["fn"], "enc", bits=d["bits"], in_hi=(1 << d["bits"]) - 1)
        ncls += compare_tables(run, nm, d["fn"], cls, d["spec"]())
    # ---- per-length maxima vs README ----
    maxima = {}
    for fam, cls in tables.items():
        m = {}
        for lo, hi, L in FM.merge(FM.ret_const(cls)): m[L] = hi
        maxima[fam] = m
    readme = readme_maxima()
    if len(readme) < 12: raise AnalysisBroken("README storage tables: only %d rows parsed" % len(readme))
    # first-type / second-type maxima for the two-level families
    def level_max(fam, second):
        cls = tables[fam]; out = {}
        tagoff = 0
        for lo, hi, ret, st in cls:
            L = norm(ret, lo, hi)[1]
            t0 = norm(st[0], lo, hi)
            is_second = is_c(t0)                  # second type: constant tag byte
            if fam == "split": is_second = is_c(t0) and t0[1] >= 0x80
            if is_second == second: out[L] = max(out.get(L, -1), hi)
        return out
    name_map = {"Tagged": "tagged", "Split": "split", "Split Full": "splitFull", "Split Full No Zero": "splitFullNoZero", "Split Full 16": "splitFull16", "Chained": "chained"}
    for (name, how, nums) in readme:
        fam = name_map.get(name)
        if fam is None:
            if name == "External" and how == "external metadata": fam = "external"
            else: continue
        if how in ("first", "second"): src = level_max(fam, how == "second")
        else: src = maxima[fam]
        for k, v in enumerate(nums):
            L = k + 1
            if v is None: continue
            got = src.get(L)
            run.check(got == v, "F2-readme-maxima", {"row": "%s/%s" % (name, how), "bytes": L, "max": v},
                      Finding("F2-readme-maximum-wrong", "README.md", "%s/%s" % (name, how), "%d-byte-max" % L,
                              "README 'Storage Overview' says the %d-byte maximum of %s (%s) is %s; the encoder's largest %d-byte value is %s" % (L, name, how, v, L, got),
                              loc="README.md", quant=str(v)))
    # ---- F3 never-shrink ----
    for fam in ("splitFull", "splitFullNoZero", "splitFull16"):
        cls = tables[fam]; first_max = 0; ok = True; wit = None
        for lo, hi, ret, st in cls:
            L = norm(ret, lo, hi)[1]; t0 = norm(st[0], lo, hi)
            if not is_c(t0): first_max = max(first_max, L)
            elif L < first_max: ok = False; wit = (lo, L)
        run.check(ok, "F3-never-shrink", {"family": fam, "longest_first_type": first_max},
                  Finding("F3-second-type-shorter", FM.FAMILIES[fam]["enc"], fam, "never-shrink", "%s: x=%s is encoded in %s bytes, fewer than the %d bytes of smaller first-type values" % (fam, wit and wit[0], wit and wit[1], first_max)))
    return ncls, tables, maxima


def witness_consts(run):
    """compile-time witness: header constants equal the documented maxima (a violating tree does not compile)"""
    src = os.path.join(VERIF, "witness", "consts_c04.c")
    rc, err = compile_only(src, ["-ferror-limit=0", "-Wno-everything"])
    fails = [l for l in err.splitlines() if "static_assert" in l or "static assertion" in l]
    n = open(src).read().count("\nEQ(")
    if n < 30: raise AnalysisBroken("consts_c04.c: only %d static assertions" % n)
    if rc != 0 and not fails: raise AnalysisBroken("consts_c04.c failed to compile:\n" + err[-1500:])
    seen = set()
    for l in fails:
        m = re.search(r'"([^"]+)"', l)
        nm = m.group(1) if m else l.strip()
        if nm in seen: continue
        seen.add(nm)
        run.fail(Finding("F2-header-constant-wrong", "src/*.h", nm.split(" ")[0], "constant", "compile-time witness fails: %s" % nm, loc="verif:witness/consts_c04.c"))
    for _ in range(n - len(seen)): run.ok("F2-header-constants")
    return n


def run(tier):
    run = Run(PROP, tier, level="other", technique="class-table extraction by interval-partitioned symbolic constant propagation (E1) compared with independent format tables; compile-time witnesses for constants")
    per = {}
    for cfg in configs_for(tier):
        mod = lib_module(cfg)
        ncls, tables, maxima = analyse(mod, run, cfg, tier)
        per[cfg] = {"classes_compared": ncls, "families": sorted(tables), "per_length_maxima": {f: {str(k): v for k, v in m.items()} for f, m in maxima.items()}}
        run.floor("class/refinement cells compared (%s)" % cfg, ncls, 150)
    nconst = witness_consts(run)
    run.coverage.update({"configurations": per, "static_assertions": nconst,
                         "not_decided": "Elias gamma/delta bit strings and the zig-zag map",
                         "where_this_stands": "E1 is abstract interpretation of unary integer functions over a disjunctive interval domain carrying canonical terms (value partitioning on the single input); no solver, no path formula, no concrete run of library code; the extracted closed forms are evaluated only to turn 'terms differ' into a witness"})
    run.assumptions += ["the format tables in sa/spec_formats.py transcribe the documented formats correctly (they are the oracle that is not the library)"]
    return run.finish(
        "Every scalar encoder (9 families, their reversed forms and the 32-bit entry point) is summarised as a class table x-interval -> "
        "(length, byte terms) and compared cell by cell with a format table written from the documentation; classes must partition the "
        "domain with non-decreasing length; per-length maxima must equal the header constants (static assertions) and the README tables; "
        "the never-shrink rule is checked on the table. Holds for all 2^64 values because each cell is a closed form on an interval.")
