"""C17 - stateless codecs are safe to call concurrently (E-PTS; proof).  DESIGN 4/C17.

Obligations over every function of the library units and every witness wrapper of the header families:
 (1) Mod(f) is a subset of {non-const pointer params (deep), own allocas, fresh heap}
 (2) the module has no mutable global
 (3) external callees are in the thread-safe whitelist; no inline asm; no indirect call except qsort's comparator
 (4) const-qualified pointer parameters are never written through, at any depth
"""
from ..report import Run, Finding, rel
from ..common import lib_module, configs_for, need_fn
from ..build import AnalysisBroken, build_module, VERIF
from ..ir import Module
from ..pts import World, STATEFUL, ALLOC_FAMILY, is_pure_external
import os

PROP = "C17"
ANCHORS = ["varintTaggedPut64", "varintTaggedGet", "varintExternalPut", "varintExternalGet", "varintChainedPutVarint",
           "varintChainedSimpleEncode64", "varintFOREncode", "varintFORDecode", "varintPFOREncode", "varintPFORDecode",
           "varintDeltaEncode", "varintDeltaDecode", "varintGroupEncode", "varintGroupDecode", "varintDictEncode",
           "varintDictDecode", "varintRLEEncode", "varintRLEDecode", "varintEliasGammaEncodeArray",
           "varintEliasDeltaDecodeArray", "varintBP128Encode32", "varintBP128Decode64", "varintFloatEncode",
           "varintFloatDecode", "varintAdaptiveEncode", "varintAdaptiveDecode", "varintBitmapAnd"]


def root_name(fn, r):
    if r[0] == "arg":
        nm = fn.argnames.get(r[1], "#%d" % r[1])
        return "param:%s%s" % (nm, "" if r[2] == 0 else ":deep")
    if r[0] == "global": return "global:%s" % r[1]
    return r[0]


def analyse(mod, run, label, world=None):
    """apply the four rules to one module; returns number of functions analysed"""
    w = world or World(mod)
    nfn = 0
    for g in mod.globals.values():
        run.check(g["constant"], "no-mutable-global", {"global": g["name"], "constant": g["constant"], "config": label},
                  Finding("no-mutable-global", "<module>", g["name"], "global",
                          "mutable global object '%s' (%s): shared state between concurrent calls" % (g["name"], g["t"])))
    for f in sorted(mod.defined(), key=lambda f: f.name):
        s = w.summ[f.name]; nfn += 1
        bad = []
        for r, wit in sorted(s.mod.items(), key=repr):
            if r[0] == "arg":
                p = f.params[r[1]]
                if p["pointee_const"]:
                    bad.append(Finding("const-param-written", f.name, root_name(f, r), "write",
                                       "writes through const-qualified parameter %s at %s" % (root_name(f, r), wit), loc=wit))
            elif r[0] == "global":
                bad.append(Finding("mod-outside-params", f.name, root_name(f, r), "write",
                                   "writes global '%s' at %s" % (r[1], wit), loc=wit))
            else:
                bad.append(Finding("mod-outside-params", f.name, "unknown", "write",
                                   "writes through a pointer of unknown provenance at %s" % wit, loc=wit))
        if bad:
            for b in bad: run.fail(b)
        else:
            run.ok("mod-within-params", {"fn": f.name, "mod": sorted(root_name(f, r) for r in s.mod), "config": label})
        # (3) direct externals of this function only (transitive ones are reported at their own function)
        for i in f.calls():
            c = i.get("callee")
            if c is None:
                what = "inline asm" if i.get("asm") else "indirect call"
                run.fail(Finding("callee-whitelist", f.name, what, "call", "%s at %s:%s" % (what, rel(i.d.get("file", f.file)), i.line),
                                 loc="%s:%s" % (rel(i.d.get("file", f.file)), i.line)))
                continue
            if c in mod.functions and not mod.functions[c].decl: continue
            if is_pure_external(c) or c in ALLOC_FAMILY or c.startswith(("llvm.memcpy", "llvm.memset", "llvm.memmove")):
                if c == "qsort":
                    cmpop = i.ops[3]
                    okc = cmpop["k"] == "func" and cmpop["v"] in w.summ and not w.summ[cmpop["v"]].mod
                    run.check(okc, "callee-whitelist", {"fn": f.name, "callee": "qsort", "comparator": cmpop.get("v")},
                              Finding("callee-whitelist", f.name, "qsort-comparator", "call",
                                      "qsort comparator is not a side-effect-free function constant", loc="%s:%s" % (rel(i.d.get("file", f.file)), i.line)))
                continue
            if c in STATEFUL:
                run.fail(Finding("callee-whitelist", f.name, c, "call", "calls %s, which has hidden or process-global state" % c,
                                 loc="%s:%s" % (rel(i.d.get("file", f.file)), i.line)))
            else:
                raise AnalysisBroken("external callee %s (called from %s) is not classified as thread-safe or stateful" % (c, f.name))
    return nfn, w


def controls(run):
    """positive controls: seeded violations that the rules must flag on every run"""
    src = os.path.join(VERIF, "controls", "pts_controls.c")
    m = Module(build_module("ctl-pts", [src], "ndebug"))
    probe = Run("C17-control", "quick")
    analyse(m, probe, "control")
    got = {(f.rule, f.function) for f in probe.findings}
    for rule, fn in [("no-mutable-global", "<module>"), ("mod-outside-params", "ctl_static_cache"),
                     ("const-param-written", "ctl_const_deep_write"), ("const-param-written", "ctl_iter_capture_write"),
                     ("callee-whitelist", "ctl_stateful_callee")]:
        run.control("%s/%s" % (rule, fn), (rule, fn) in got)
    clean = [f for f in probe.findings if f.function in ("ctl_clean_iter", "ctl_clean_scratch")]
    run.control("silent on clean controls", not clean)


def run(tier):
    run = Run(PROP, tier, level="proof", technique="interprocedural effects/points-to analysis (Mod sets) over LLVM IR of all library units")
    total = 0; per = {}
    for cfg in configs_for(tier):
        mod = lib_module(cfg)
        for a in ANCHORS: need_fn(mod, a)
        n, w = analyse(mod, run, cfg)
        per[cfg] = {"functions": n, "globals": len(mod.globals), "solver_rounds": w.rounds}
        total += n
        run.floor("functions analysed (%s)" % cfg, n, 200)
    controls(run)
    run.coverage.update({"units": "all src/*.c except *Test.c and varintCompare.c, plus /verif/witness/wrap.c macro wrappers",
                         "configurations": per, "functions_analysed": total})
    run.assumptions += ["distinct pointer parameters of one call do not overlap (API contract)",
                        "glibc malloc/calloc/realloc/free/qsort/memcpy/memmove/memset are thread-safe",
                        "big-endian host branches are dead on this target and not covered"]
    return run.finish(
        "Every function's may-write set is computed bottom-up over the call graph with a level-aware points-to analysis; "
        "a function that writes anything but its own non-const parameters, its frame or fresh heap, any mutable global, any "
        "stateful external callee, inline asm or indirect call is reported with the store site. Two calls with disjoint mutable "
        "arguments then write disjoint locations and read only their arguments and constants, so no schedule can race.")
