"""C18 - a failed allocation is reported, never a crash, leak or silent corruption (E-ALLOC).  DESIGN 4/C18."""
import os
from ..report import Run, Finding, rel
from ..common import lib_module, configs_for, need_fn
from ..build import AnalysisBroken, build_module, VERIF
from ..ir import Module
from ..core import World
from .. import alloc
from ..alloc import Engine, loc

PROP = "C18"


def always_returns(g, fv, eng):
    """every return of g hands back the constant fv (directly or through a merge of constants)"""
    rets = list(g.rets())
    if not rets: return False
    for r in rets:
        if not r.ops: return False
        vals = [r.ops[0]]
        if vals[0]["k"] == "inst" and g.imap[vals[0]["v"]].op == "phi": vals = [c["v"] for c in g.imap[vals[0]["v"]]["incoming"]]
        if not all(eng.is_const(x, fv) for x in vals): return False
    return True
# documented failure values that differ from the type default (0 / NULL / false)
FAIL_OVERRIDE = {"varintDictBuild": -1, "varintDictGetStats": -1}
# failure edges that continue with a *correct* result - each confirmed by reading (DESIGN App. C.1)
CONFIRMED_FALLBACKS = {
    # any scratch buffer of this function (today: the sampling buffer and the sort buffer), however it is allocated: the rule below checks
    # what matters, namely that the value returned on the failure edge is not `count`
    ("varintAdaptiveCountUnique", "*"): "scratch buffers: on failure the function returns count-1 ('not all unique'), which can never satisfy the selector's BITMAP guard uniqueCount == count (C06-A3); every other selectable codec is lossless whatever the estimate",
    ("varintBitmapAddRange", "*"): "single-run shortcut: on failure nothing has been modified and the function falls through to element-wise insertion, which yields the same set (checked: the failure edge reaches the varintBitmapAdd loop)",
    ("varintBitmapRemove", "bitmapToArray_#1"): "failed shrink BITMAP->ARRAY: the element has already been removed from the bitmap container, which stays valid; returning true is correct",
}
ANCHORS = ["varintDictCreate", "varintDictBuild", "varintDictDecode", "varintDictDecodeInto", "varintPFORComputeThreshold",
           "varintPFOREncode", "varintFloatEncode", "varintFloatDecode", "varintAdaptiveCountUnique", "varintAdaptiveEncodeWith",
           "varintAdaptiveDecode", "varintBitmapCreate", "varintBitmapClone", "varintBitmapAdd", "varintBitmapRemove",
           "varintBitmapAnd", "varintBitmapOr", "varintBitmapXor", "varintBitmapAndNot", "varintBitmapDecode", "varintBitmapAddRange"]


def failure_name(v):
    return {0: "0/NULL/false", -1: "-1"}.get(v, str(v))


def analyse(mod, run, label, fallbacks=CONFIRMED_FALLBACKS, overrides=FAIL_OVERRIDE):
    w = World(mod)
    eng = Engine(mod, w, w.pts); eng.fail_override = dict(overrides); eng.solve()
    nsites = 0; ndirect = 0
    for fn in sorted(mod.defined(), key=lambda f: f.name):
        fa = eng.fa[fn.name]
        fv = eng.failure_value(fn)
        r1_by_site = {}
        for rec in fa.r1: r1_by_site.setdefault(id(rec[0]), []).append(rec)
        r3_by_site = {}
        for rec in fa.r3: r3_by_site.setdefault(id(rec[0]), []).append(rec)
        for k, s in enumerate(fa.sites):
            nsites += 1
            if s.callee in alloc.PTR_ALLOC: ndirect += 1
            where = loc(s.inst)
            # ---- R2 ----
            ex = fa.failure_exits(k); fallback = False
            if fa.null_edges.get(k):
                def reports_failure(v):
                    if v is None: return False
                    if eng.is_const(v, fv): return True
                    if v["k"] == "inst" and fn.imap[v["v"]].op == "call":
                        # `return discardShell_(vb);` - a release helper every return of which is the failure value
                        g_ = mod.fn(fn.imap[v["v"]].get("callee") or "")
                        if g_ is not None and g_.blocks and always_returns(g_, fv, eng): return True
                    # `p = malloc(n); if (p) fill(p); return p;` - on the failure edge the returned pointer is the NULL result itself
                    vv = v
                    while vv["k"] == "inst" and fn.imap[vv["v"]].op == "bitcast": vv = fn.imap[vv["v"]].ops[0]
                    return (fa.is_alias(s, v) or fa.is_alias(s, vv)) and fv == 0 and fn.d["ret"].endswith("*")
                bad = [(t, v) for (t, v, p) in ex if not reports_failure(v)]
                key = (fn.name, s.name())
                if key not in fallbacks and (fn.name, "*") in fallbacks: key = (fn.name, "*")
                if bad and key in fallbacks:
                    run.ok("R2-failure-reported", {"fn": fn.name, "site": s.name(), "at": where, "confirmed_fallback": fallbacks[key]})
                    fallback = True
                    if fn.name == "varintBitmapAddRange":
                        # the shortcut's failure is only harmless because the element-wise path still runs
                        reach_add = False
                        for (sb_, _tb) in fa.null_edges.get(k, []):
                            for bid in fn.reachable(_tb) | {_tb}:
                                blk_ = fn.bmap[bid]
                                if any(c_.op == "call" and (c_.get("callee") == "varintBitmapAdd" or any(h_.op == "call" and h_.get("callee") == "varintBitmapAdd" for h_ in (mod.fn(c_.get("callee") or "").insts() if mod.fn(c_.get("callee") or "") is not None and mod.fn(c_.get("callee") or "").internal else []))) for c_ in blk_.insts): reach_add = True
                        run.check(reach_add, "R2-fallback-still-adds-the-range", {"fn": fn.name, "site": s.name()},
                                  Finding("R2-fallback-drops-the-range", fn.name, s.name(), "fallback", "when the single-run allocation fails varintBitmapAddRange no longer reaches the element-wise insertion: the range is silently not added", loc=where))
                    if fn.name == "varintAdaptiveCountUnique":
                        # the fallback is only correct as long as it cannot make the BITMAP guard `uniqueCount == count` true
                        cp = fn.param_index("count"); fi_ = w.fi(fn).prepare()
                        claims = [t for (t, v) in bad if v is not None and fi_.lin(v) == fi_.lin({"k": "arg", "v": cp, "t": "i64"})]
                        run.check(not claims, "R2-fallback-does-not-claim-uniqueness", {"fn": fn.name, "site": s.name()},
                                  Finding("R2-fallback-claims-all-unique", fn.name, s.name(), "fallback", "on allocation failure varintAdaptiveCountUnique returns `count` (all values unique): the selector then chooses the set-only BITMAP encoding for data that may contain duplicates", loc=where))
                elif bad:
                    fallback = True
                    t, v = bad[0]
                    what = ("function returns void: the failure cannot be reported" if fn.d["ret"] == "void" else
                            "on the allocation-failure edge the function reaches the return at %s with %s instead of its failure value %s" % (
                                loc(t), "a computed value" if v is None or v["k"] not in ("int", "null") else "constant %s" % v.get("sv", v.get("v")), failure_name(fv)))
                    later = [r for r in r1_by_site.get(id(s), []) if r[3]]
                    if later: what += "; the block is also dereferenced after the fallback (%s)" % ", ".join(sorted({loc(r[1]) for r in later}))
                    run.fail(Finding("R2-failure-not-reported", fn.name, s.name(), "fallback", "%s allocated at %s: %s" % (s.name(), where, what), loc=where,
                                     detail={"exits": [loc(t) for t, v in bad]}))
                else:
                    run.ok("R2-failure-reported", {"fn": fn.name, "site": s.name(), "at": where, "failure_value": failure_name(fv), "exits": sorted({loc(t) for t, _, _ in ex})})
                    # ---- R7: the failure is reported - then the long-lived object must not have been modified first ----
                    pu = alloc.partial_updates(eng, fn, fa, k)
                    run.check(not pu, "R7-object-untouched-when-failure-is-reported", {"fn": fn.name, "site": s.name()},
                              Finding("R7-object-half-updated-on-failure", fn.name, s.name(), "store", "%s: when %s (at %s) fails the function reports failure, but it has already written the long-lived object through parameter '%s' at %s: the object is left inconsistent (e.g. a capacity that no longer matches its allocation)" % (
                                  fn.name, s.name(), where, fn.argnames.get(pu[0][1], pu[0][1]) if pu else "", loc(pu[0][0]) if pu else ""), loc=loc(pu[0][0]) if pu else where))
            # ---- R1 ----
            if s.kind != "status":
                recs = r1_by_site.get(id(s), [])
                if fallback: recs = [r for r in recs if not r[3]]     # derefs after an explicit NULL fallback are folded into R2
                if recs:
                    seen = set()
                    for (_, i, why, _z) in recs:
                        role = ("call:%s" % i.get("callee")) if i.op == "call" else i.op
                        if (role, loc(i)) in seen: continue
                        seen.add((role, loc(i)))
                        run.fail(Finding("R1-null-deref", fn.name, s.name(), role, "%s (from %s) is %s at %s without a dominating NULL test" % (
                            s.name(), where, why, loc(i)), loc=loc(i)))
                else:
                    run.ok("R1-null-checked", {"fn": fn.name, "site": s.name(), "at": where, "null_test_edges": len(fa.null_edges.get(k, []))})
            # ---- R3 ----
            if s.kind == "ptr":
                recs = r3_by_site.get(id(s), [])
                if recs:
                    seen = set()
                    for (_, i, why) in recs:
                        if loc(i) in seen: continue
                        seen.add(loc(i))
                        run.fail(Finding("R3-leak", fn.name, s.name(), "exit", "%s allocated at %s: %s (at %s)" % (s.name(), where, why, loc(i)), loc=loc(i)))
                else:
                    run.ok("R3-released-on-all-exits", {"fn": fn.name, "site": s.name(), "at": where})
        for (s, i) in fa.double_free:
            run.fail(Finding("R3-double-free", fn.name, s.name(), "free", "%s is freed again at %s" % (s.name(), loc(i)), loc=loc(i)))
        # ---- R5 ----
        for (i, c, n, fate) in alloc.discarded_results(eng, fn):
            if fate == "consumed":
                run.ok("R5-status-consumed", {"fn": fn.name, "callee": c, "at": loc(i)})
            elif fate == "discarded":
                det = {}
                if fn.internal:
                    # the API functions through which this file-local helper is reached
                    seen_c = set(); work_c = [fn.name]; api = set()
                    while work_c:
                        nm = work_c.pop()
                        for g2 in mod.defined():
                            if g2.name in seen_c or not any(True for _ in g2.calls(nm)): continue
                            seen_c.add(g2.name)
                            if g2.internal: work_c.append(g2.name)
                            else: api.add(g2.name)
                    det = {"callers": sorted(api)}
                run.fail(Finding("R5-result-discarded", fn.name, c, "call", "result of fallible %s is discarded at %s: an allocation failure inside it is reported as success" % (c, loc(i)), loc=loc(i), detail=det))
            else:
                run.fail(Finding("R5-result-masked", fn.name, c, "call", "result of fallible %s (at %s) only flows into arithmetic and is never compared with its failure value: the failure is masked" % (c, loc(i)), loc=loc(i)))
        # ---- R8 ----
        for (c, st, guarded) in alloc.realloc_into_source(eng, fn):
            run.r8 = getattr(run, "r8", 0) + 1
            run.check(guarded, "R8-realloc-result-tested-before-it-replaces-the-old-pointer", {"fn": fn.name, "realloc": loc(c)},
                      Finding("R8-realloc-overwrites-its-source", fn.name, "realloc", "store",
                              "%s stores the result of realloc() into the location its argument came from before testing it: when realloc fails the old block is leaked and the object holds NULL" % fn.name, loc=loc(st) if st is not None else loc(c)))
        # ---- R6 ----
        for (st, L, ok) in alloc.owned_field_overwrites(eng, fn):
            run.check(ok, "R6-old-block-released", {"fn": fn.name, "field": "param%d+%d" % (L[0][1], L[1]), "at": loc(st)},
                      Finding("R6-owned-field-overwritten", fn.name, "param%d+%d" % (L[0][1], L[1]), "store",
                              "a fresh block is stored into an owning pointer field at %s but the previous block is not freed on every path (leak)" % loc(st), loc=loc(st)))
    return nsites, ndirect, eng


def controls(run):
    m = Module(build_module("ctl-alloc", [os.path.join(VERIF, "controls", "alloc_controls.c")], "ndebug"))
    probe = Run("C18-control", "quick")
    analyse(m, probe, "control", fallbacks={}, overrides={})
    got = {(f.rule, f.function) for f in probe.findings}
    for rule, fn in [("R1-null-deref", "ctl_unchecked"), ("R3-leak", "ctl_leak_on_error"), ("R2-failure-not-reported", "ctl_fallback"),
                     ("R5-result-discarded", "ctl_discard"), ("R5-result-masked", "ctl_masked"), ("R6-owned-field-overwritten", "ctl_overwrite"), ("R8-realloc-overwrites-its-source", "ctl_realloc_in_place"), ("R7-object-half-updated-on-failure", "ctl_half_update")]:
        run.control("%s/%s" % (rule, fn), (rule, fn) in got)
    clean = [(f.rule, f.function) for f in probe.findings if f.function.startswith("ctl_clean") or f.function in ("grow", "bag_free")]
    run.control("silent on clean controls %s" % clean, not clean)


def run(tier):
    run = Run(PROP, tier, level="other", technique="allocation typestate dataflow (null-state, ownership, failure-edge reachability) over LLVM IR")
    per = {}
    for cfg in configs_for(tier):
        mod = lib_module(cfg)
        for a in ANCHORS: need_fn(mod, a)
        nsites, ndirect, eng = analyse(mod, run, cfg)
        per[cfg] = {"sites": nsites, "direct_malloc_calloc_realloc": ndirect, "fresh_returning": sorted(eng.fresh_fns),
                    "fallible": sorted(eng.fallible), "purely_fallible": sorted(eng.pure_fallible)}
        run.floor("allocation sites (%s)" % cfg, nsites, 40)
        run.floor("direct malloc/calloc/realloc calls (%s)" % cfg, ndirect, 30)
        run.floor("realloc calls growing a block held in an object (%s)" % cfg, getattr(run, "r8", 0), 1); run.r8 = 0
    controls(run)
    run.coverage.update({"configurations": per, "confirmed_fallbacks": {"%s/%s" % k: v for k, v in CONFIRMED_FALLBACKS.items()},
                         "failure_value_overrides": FAIL_OVERRIDE,
                         "not_decided": "'subsequent usability' of long-lived objects beyond no-leak / no-dangling; correctness of the three confirmed fallbacks is by reading"})
    run.assumptions += ["malloc/calloc/realloc may fail at any call, independently", "free(NULL) is a no-op"]
    return run.finish(
        "For every allocation site (direct or through a fresh-returning wrapper) a joint typestate dataflow decides: R1 the result "
        "is NULL-tested before any dereference (including callees that dereference the parameter); R2 the failure edge reaches only "
        "returns of the function's failure value (or a hand-confirmed correct fallback); R3 every owned block is freed, returned or "
        "stored into caller-visible memory on every exit; R5 no caller discards the status of a fallible callee; R6 an owning field is "
        "not overwritten while its previous block is still live; R7 the long-lived object is not modified before a failure is reported; R8 the "
        "result of realloc replaces the pointer it grew only after it has been tested. This covers the k-th failure of every allocation for every k without "
        "making malloc fail.")
