"""C08 - bitmap behaves as a set (three structural clauses only).  DESIGN 4/C08.
 B1 operands of the set algebra / readers are deep-immutable (E-PTS)
 B2 every dispatch on the container type names every enumerator (E-TABLE)
 B3 no mutator frees the live container without reading it, unless the set is known to be empty (E-ALLOC R4)
Not decided: equality with a mathematical set under histories, truthful change reports, iterator order."""
import os
from ..report import Run, Finding, rel
from ..common import lib_module, configs_for, need_fn
from ..build import AnalysisBroken, build_module, VERIF
from ..ir import Module
from ..core import World
from .. import alloc
from ..alloc import Engine, loc

PROP = "C08"
BINARY = ["varintBitmapAnd", "varintBitmapOr", "varintBitmapXor", "varintBitmapAndNot"]
READERS = ["varintBitmapClone", "varintBitmapContains", "varintBitmapEncode", "varintBitmapToArray", "varintBitmapCardinality",
           "varintBitmapIsEmpty", "varintBitmapSizeBytes", "varintBitmapGetStats", "varintBitmapCreateIterator"]
ENUM = "varintBitmapContainerType"


def emptiness_guarded(fn, fa, free_inst, root):
    """the free is dominated by the true edge of `<integer field of the same object> == 0`"""
    fn.dom()
    for d in fn.dom_chain(free_inst.block.id)[1:]:
        blk = fn.bmap[d]; t = blk.term
        if t.op != "br" or len(t.ops) != 3: continue
        c = t.ops[0]
        if c["k"] != "inst": continue
        ci = fn.imap[c["v"]]
        if ci.op != "icmp" or ci["pred"] not in ("eq", "ne"): continue
        a, b = ci.ops
        if b["k"] != "int" or int(b["v"]) != 0 or a["k"] != "inst": continue
        ld = fn.imap[a["v"]]
        if ld.op != "load": continue
        r, off = fa.fi.ptr(ld.ops[0])
        if r != root: continue
        taken = t.ops[2]["v"] if ci["pred"] == "eq" else t.ops[1]["v"]      # successor on which field == 0
        other = t.ops[1]["v"] if ci["pred"] == "eq" else t.ops[2]["v"]
        if taken != other and fn.dominates(taken, free_inst.block.id) and len(fn.bmap[taken].preds) == 1:
            return True
    return False


def analyse(mod, run, label, names=None):
    w = World(mod)
    eng = Engine(mod, w, w.pts)
    summ = w.pts.summ
    nb1 = 0
    # ---- B1 ----
    for fn in sorted(mod.defined(), key=lambda f: f.name):
        for k, p in enumerate(fn.params):
            di = p.get("di", "")
            if not (p["pointee_const"] and di.replace("const ", "").strip() in ("varintBitmap *", "box *")): continue
            nb1 += 1
            bad = [(r, wit) for r, wit in summ[fn.name].mod.items() if r[0] == "arg" and r[1] == k]
            run.check(not bad, "B1-operand-immutable", {"fn": fn.name, "param": fn.argnames.get(k, k), "mod": sorted(map(str, summ[fn.name].mod))},
                      Finding("B1-operand-written", fn.name, "param:%s" % fn.argnames.get(k, k), "write",
                              "const bitmap operand is written (depth %s) at %s" % (bad[0][0][2] if bad else "", bad[0][1] if bad else ""), loc=bad[0][1] if bad else None))
        # iterators over a const bitmap: stepping may write the iterator only, never the bitmap it captured
        for k, p in enumerate(fn.params):
            if p.get("di", "").replace("const ", "").strip() in ("varintBitmapIterator *", "iter *") and not p["pointee_const"]:
                nb1 += 1
                bad = [(r, wit) for r, wit in summ[fn.name].mod.items() if r[0] == "arg" and r[1] == k and r[2] >= 1]
                run.check(not bad, "B1-operand-immutable", {"fn": fn.name, "iterator_param": fn.argnames.get(k, k)},
                          Finding("B1-operand-written", fn.name, "iterator:%s" % fn.argnames.get(k, k), "write",
                                  "the bitmap captured by the iterator is written at %s" % (bad[0][1] if bad else ""), loc=bad[0][1] if bad else None))
    def needs_no_array_arm(fn):
        """the function empties the set by storing the constant 0 into the cardinality: an ARRAY container then needs nothing else (its
        content is its first `cardinality` values), while RUNS and BITMAP keep private state (numRuns, the bit array) that must go too"""
        fi_ = w.fi(fn).prepare()
        for i in fn.insts():
            if i.op == "store" and i.ops[0]["k"] == "int" and int(i.ops[0]["v"]) == 0 and i["size"] == 4:
                root, off = fi_.ptr(i.ops[1])
                if root[0] == "arg" and off.is_const() and card_off is not None and off.c == card_off: return True
        return False
    card_off = None
    for sname, st in mod.structs.items():
        di = mod.ditypes.get(sname.split(".", 1)[1] if "." in sname else sname)
        if di and sname.endswith("varintBitmap") or (di and sname.endswith("ctlbm")):
            for m_ in di["members"]:
                if m_["name"] == "cardinality": card_off = m_["off"]
    # ---- B2 ----
    nsw = 0
    for fn in sorted(mod.defined(), key=lambda f: f.name):
        for b in fn.blocks:
            t = b.term
            if t.op != "switch": continue
            en = fn.enum_of_value(t.ops[0])
            if not en: continue
            if not any(n.startswith(("VARINT_BITMAP_", "CTL_")) for n in en): continue
            nsw += 1
            cases = {int(c["v"]) for c in t["cases"]}
            missing = sorted(n for n, v in en.items() if int(v) not in cases)
            if missing == ["VARINT_BITMAP_ARRAY"] and needs_no_array_arm(fn): missing = []
            run.check(not missing, "B2-dispatch-exhaustive", {"fn": fn.name, "at": loc(t), "cases": sorted(cases)},
                      Finding("B2-dispatch-not-exhaustive", fn.name, "switch", ",".join(missing),
                              "switch on the container type at %s has no case for %s" % (loc(t), ", ".join(missing)), loc=loc(t)))
    # ---- B2b: a function that modifies the bitmap and tests its container type with == / != must account for every enumerator ----
    en_all = None
    for nm, e in mod.enums.items():
        if any(k.startswith(("VARINT_BITMAP_", "CTL_")) for k in e): en_all = e if en_all is None or nm == ENUM else en_all
    for fn in sorted(mod.defined(), key=lambda f: f.name):
        wparams = {r[1] for r in summ[fn.name].mod if r[0] == "arg"}
        tested = {}; first = None
        for i in fn.insts():
            if i.op != "icmp" or i["pred"] not in ("eq", "ne") or i.ops[1]["k"] != "int": continue
            en = fn.enum_of_value(i.ops[0])
            if not en or not any(n.startswith(("VARINT_BITMAP_", "CTL_")) for n in en): continue
            o = i.ops[0]
            while o["k"] == "inst" and fn.imap[o["v"]].op in ("zext", "sext", "trunc"): o = fn.imap[o["v"]].ops[0]
            root = w.fi(fn).prepare().ptr(fn.imap[o["v"]].ops[0])[0]
            if root[0] != "arg" or root[1] not in wparams: continue      # only objects this function modifies
            # an assertion about the type (one side of the test only reports the failed assertion) is a precondition, not a dispatch
            is_assert = False
            for u in fn.insts():
                if u.op == "br" and len(u.ops) == 3 and u.ops[0]["k"] == "inst" and u.ops[0]["v"] == i.id:
                    for sx in (u.ops[1]["v"], u.ops[2]["v"]):
                        sb = fn.bmap[sx]
                        if any(c.get("callee") in ("__assert_fail", "abort", "__assert_rtn") for c in sb.insts if c.op == "call") or sb.term.op == "unreachable": is_assert = True
            if is_assert: continue
            tested.setdefault(root[1], set()).add(int(i.ops[1]["v"])); first = first or i
        for k, vals in tested.items():
            # a switch over the same object's type in this function covers the remaining enumerators
            sw_cases = set()
            for b in fn.blocks:
                t = b.term
                if t.op == "switch" and fn.enum_of_value(t.ops[0]): sw_cases |= {int(c["v"]) for c in t["cases"]}
            missing = sorted(n for n, v in en_all.items() if int(v) not in vals | sw_cases) if en_all else []
            if missing == ["VARINT_BITMAP_ARRAY"] and needs_no_array_arm(fn): missing = []
            nsw += 1
            run.check(not missing, "B2-dispatch-exhaustive", {"fn": fn.name, "if_chain_on_type": sorted(vals)},
                      Finding("B2-dispatch-not-exhaustive", fn.name, "if-chain", ",".join(missing),
                              "%s modifies the bitmap and tests its container type only against %s (at %s): %s is not handled, so the container and the bookkeeping (cardinality) can disagree for that type" % (
                                  fn.name, sorted(vals), loc(first), ", ".join(missing)), loc=loc(first)))
    # ---- B4: single-element mutators change the cardinality by one only on an edge that depends on a membership result for that element ----
    nb4 = 0
    for fname in ("varintBitmapAdd", "varintBitmapRemove"):
        fn = mod.fn(fname)
        if fn is None: continue                                    # the control module has no such function
        vk = fn.param_index("value"); fi4 = w.fi(fn).prepare(); fn.dom()
        if vk is None: raise AnalysisBroken("%s: parameter 'value' not found" % fname)
        def from_value(o, d=0):
            if o["k"] == "arg": return o["v"] == vk
            if o["k"] != "inst" or d > 6: return False
            x = fn.imap[o["v"]]
            return x.op in ("zext", "sext", "trunc", "add", "sub", "and", "lshr", "udiv", "urem", "shl") and any(from_value(y, d + 1) for y in x.ops)
        probes = {c.id for c in fn.calls() if not (c.get("callee") or "").startswith("llvm.") and any(from_value(c.ops[n]) for n in range(c["nargs"]))}
        # a search helper may hand its verdict back through an out-parameter (`idx = search(a, n, value, &found)`)
        probe_outs = set()
        for c in fn.calls():
            if c.id not in probes: continue
            for n in range(c["nargs"]):
                if c.ops[n]["t"].endswith("*"):
                    r0 = fi4.ptr(c.ops[n])[0]
                    if r0 and r0[0] not in ("arg", "global", "unknown"): probe_outs.add(r0)
        def from_probe(o, d=0):
            if o["k"] != "inst" or d > 6: return False
            if o["v"] in probes: return True
            x = fn.imap[o["v"]]
            if x.op == "load" and fi4.ptr(x.ops[0])[0] in probe_outs: return True
            return x.op in ("zext", "sext", "trunc", "icmp", "xor", "and", "or") and any(from_probe(y, d + 1) for y in x.ops)
        tests = [b for b in fn.blocks if b.term.op == "br" and len(b.term.ops) == 3 and from_probe(b.term.ops[0])]
        for st in fn.insts():
            if st.op != "store" or st["size"] != 4: continue
            root, off = fi4.ptr(st.ops[1])
            if root != ("arg", 0) or not off.is_const(): continue
            v = st.ops[0]
            x = fn.imap[v["v"]] if v["k"] == "inst" else None
            if x is None or x.op not in ("add", "sub") or x.ops[1]["k"] != "int" or abs(int(x.ops[1]["sv"])) != 1: continue
            ld = fn.imap[x.ops[0]["v"]] if x.ops[0]["k"] == "inst" else None
            if ld is None or ld.op != "load" or fi4.ptr(ld.ops[0]) != (root, off): continue
            nb4 += 1
            dominated = any(any(sx.id != st.block.id and fn.dominates(sx.id, st.block.id) and [p.id for p in sx.preds] == [tb.id] or (sx.id == st.block.id and [p.id for p in sx.preds] == [tb.id]) for sx in tb.succs) for tb in tests)
            run.check(dominated, "B4-count-changes-only-after-a-membership-result", {"fn": fname, "at": loc(st)},
                      Finding("B4-count-changed-without-membership-result", fname, "cardinality", "store",
                              "%s changes the cardinality by one at %s on a path that has not branched on a membership result for 'value' (search / test-and-set): adding a present element or removing an absent one is counted" % (fname, loc(st)), loc=loc(st)))
    # ---- B5: a set-algebra function that walks one operand and probes another one walks and probes two different operands, whatever
    # the outcome of the comparison that picks them (`smaller` / `other`): every choice is evaluated for the three possible orders ----
    nb5 = 0
    for fname in ("varintBitmapAnd", "varintBitmapAndNot", "varintBitmapXor", "varintBitmapOr"):
        fn = mod.fn(fname)
        if fn is None: continue
        fi5 = w.fi(fn).prepare(); fn.dom(); idom = fn.dom()
        def strip5(o):
            for _ in range(4):
                if o["k"] == "inst" and fn.imap[o["v"]].op in ("zext", "sext", "trunc", "bitcast"): o = fn.imap[o["v"]].ops[0]
            return o
        def key_of_load(o):
            """(operand index, byte offset) for a load of a field of one of the two operands"""
            o = strip5(o)
            if o["k"] != "inst" or fn.imap[o["v"]].op != "load": return None
            root, off = fi5.ptr(fn.imap[o["v"]].ops[0])
            if root[0] == "arg" and off.is_const(): return (root[1], off.c)
            return None
        def truth(cond, order, d=0):
            """value of an i1 under `operand 0's field <order> operand 1's field`, order in lt/eq/gt; None if it is not such a test"""
            cond = strip5(cond)
            if cond["k"] == "int": return bool(int(cond["v"]))
            if cond["k"] != "inst" or d > 6: return None
            x = fn.imap[cond["v"]]
            if x.op == "xor" and x.ops[1]["k"] == "int" and int(x.ops[1]["v"]) & 1:
                t = truth(x.ops[0], order, d + 1); return None if t is None else not t
            if x.op == "phi" and x["t"] == "i1":
                vals = {truth(c_["v"], order, d + 1) for c_ in x["incoming"]}
                return vals.pop() if len(vals) == 1 else None
            if x.op != "icmp": return None
            ka, kb = key_of_load(x.ops[0]), key_of_load(x.ops[1])
            if ka is None or kb is None or ka[1] != kb[1] or {ka[0], kb[0]} != {0, 1}: return None
            o2 = order if ka[0] == 0 else {"lt": "gt", "gt": "lt", "eq": "eq"}[order]
            p5 = x["pred"].lstrip("us") if x["pred"] not in ("eq", "ne") else x["pred"]
            return {"lt": o2 == "lt", "le": o2 in ("lt", "eq"), "gt": o2 == "gt", "ge": o2 in ("gt", "eq"), "eq": o2 == "eq", "ne": o2 != "eq"}[p5]
        def chosen(o, order, d=0):
            """index of the operand a pointer value denotes under that order, or None"""
            o = strip5(o)
            if o["k"] == "arg": return o["v"] if o["v"] in (0, 1) else None
            if o["k"] != "inst" or d > 6: return None
            x = fn.imap[o["v"]]
            if x.op == "select":
                t = truth(x.ops[0], order)
                return None if t is None else chosen(x.ops[1] if t else x.ops[2], order, d + 1)
            if x.op == "phi" and len(x["incoming"]) == 2:
                dblk = fn.bmap[idom[x.block.id]]; tt = dblk.term
                if tt.op != "br" or len(tt.ops) != 3: return None
                t = truth(tt.ops[0], order)
                if t is None: return None
                taken = tt.ops[2]["v"] if t else tt.ops[1]["v"]
                for c_ in x["incoming"]:
                    if c_["b"] == taken or fn.dominates(taken, c_["b"]): return chosen(c_["v"], order, d + 1)
            return None
        its = [c for c in fn.calls("varintBitmapCreateIterator")]
        for pr in fn.calls("varintBitmapContains"):
            cands = [c for c in its if (c.block.id == pr.block.id and c.idx < pr.idx) or (c.block.id != pr.block.id and fn.dominates(c.block.id, pr.block.id))]
            if not cands: continue
            it5 = max(cands, key=lambda c: (len(fn.dom_chain(c.block.id)), c.idx))          # the innermost / latest iterator that is live here
            nb5 += 1
            bad = None
            for order in ("lt", "eq", "gt"):
                a5, b5 = chosen(it5.ops[0], order), chosen(pr.ops[0], order)
                if a5 is None or b5 is None: bad = "undecided"; break
                if a5 == b5: bad = order; break
            if bad == "undecided": run.defer_broken("B5 %s: which operand is walked / probed at %s is not decided by a comparison of the two operands" % (fname, loc(pr))); continue
            run.check(bad is None, "B5-walked-and-probed-operands-differ", {"fn": fname, "probe": loc(pr)},
                      Finding("B5-operand-walked-and-probed-is-the-same", fname, "operands", "order-%s" % bad,
                              "%s: when the two operands' cardinalities compare '%s' the operand that is walked and the operand that is probed at %s are the same one: the result is that operand (or nothing), not the set operation" % (
                                  fname, {"lt": "first < second", "eq": "equal", "gt": "first > second"}.get(bad, bad), loc(pr)), loc=loc(pr)))
    # ---- B6: a loop that asks the bit array about every value asks about all 65536 of them ----
    # (bitmapSet_ can set any 16-bit value; a conversion that scans [0, K) with K < 65536, or with a 16-bit counter that can never
    #  reach its bound, silently drops the top members)
    nb6 = 0
    for fn in sorted(mod.defined(), key=lambda f: f.name):
        probes6 = [c for c in fn.calls("bitmapContains_")]
        if not probes6: continue
        loops6 = fn.loops()
        for pr6 in probes6:
            hs = [h for h, body in loops6.items() if pr6.block.id in body]
            if not hs: continue
            h6 = min(hs, key=lambda h: len(loops6[h])); body6 = loops6[h6]
            arg6 = pr6.ops[1]
            for _ in range(3):
                if arg6["k"] == "inst" and fn.imap[arg6["v"]].op in ("trunc", "zext"): arg6 = fn.imap[arg6["v"]].ops[0]
            if arg6["k"] != "inst" or fn.imap[arg6["v"]].op != "phi" or fn.imap[arg6["v"]].block.id != h6: continue     # not a counter of this loop (an iterator position, a caller's value)
            ph6 = fn.imap[arg6["v"]]
            ins6 = [c_ for c_ in ph6["incoming"] if c_["b"] not in body6]; back6 = [c_ for c_ in ph6["incoming"] if c_["b"] in body6]
            t6 = fn.bmap[h6].term
            if len(ins6) != 1 or len(back6) != 1 or t6.op != "br" or len(t6.ops) != 3 or t6.ops[0]["k"] != "inst": continue
            ci6 = fn.imap[t6.ops[0]["v"]]
            if ci6.op != "icmp" or ci6.ops[1]["k"] != "int": continue
            nb6 += 1
            K = int(ci6.ops[1]["v"]); bits6 = int(ph6["t"][1:]); bi6 = fn.imap[back6[0]["v"]["v"]] if back6[0]["v"]["k"] == "inst" else None
            # from 0, or from a position remembered elsewhere (an iterator resuming where it stopped); a constant start other than 0 skips values
            unit = bi6 is not None and bi6.op == "add" and bi6.ops[1]["k"] == "int" and int(bi6.ops[1]["v"]) == 1 and (ins6[0]["v"]["k"] != "int" or int(ins6[0]["v"]["v"]) == 0)
            last = K - 1 if ci6["pred"] in ("ult", "slt", "ne") else (K if ci6["pred"] in ("ule", "sle") else None)
            ok6 = unit and last == 65535 and (bits6 > 16 or ci6["pred"] in ("ule", "sle") and False)
            run.check(ok6, "B6-bit-array-scanned-in-full", {"fn": fn.name, "at": loc(ci6), "last_value_asked": last, "counter_bits": bits6},
                      Finding("B6-bit-array-scan-incomplete", fn.name, "bitmap-scan", "loop",
                              "%s asks the bit array about the values 0..%s with a %d-bit counter (at %s): members up to 65535 exist, the top ones are never seen and are dropped by this conversion" % (
                                  fn.name, last, bits6, loc(ci6)), loc=loc(ci6)))
    # ---- B7: removing a half-open range [min, max) of 16-bit bounds never empties the set wholesale ----
    # (max <= 65535, so the value 65535 is never inside the range: no test of min / max can justify dropping every member.  The rule
    #  looks for what "dropping every member" is in this code: a call that reaches varintBitmapClear, or a store of 0 to the cardinality.)
    rr = mod.fn("varintBitmapRemoveRange")
    if label != "control" and (rr is None or not rr.blocks): raise AnalysisBroken("anchor function vanished: varintBitmapRemoveRange")
    if rr is not None and rr.blocks:
        seen7 = {rr.name}; work7 = [rr]; wholesale = []
        while work7:
            g7 = work7.pop()
            if needs_no_array_arm(g7) and g7 is rr: wholesale.append((g7, None))
            for c7 in g7.calls():
                cal7 = c7.get("callee") or ""
                if cal7 == "varintBitmapClear": wholesale.append((g7, c7)); continue
                h7 = mod.fn(cal7)
                if h7 is not None and h7.internal and h7.blocks and h7.name not in seen7:
                    seen7.add(h7.name); work7.append(h7)
                    if needs_no_array_arm(h7): wholesale.append((g7, c7))
        run.check(not wholesale, "B7-remove-range-removes-only-the-range", {"fn": rr.name, "reached": sorted(seen7)},
                  Finding("B7-remove-range-empties-the-set", rr.name, "range", "call:%s" % ((wholesale[0][1].get("callee") if wholesale and wholesale[0][1] is not None else "cardinality=0")),
                          "varintBitmapRemoveRange can empty the whole set (%s): its range [min, max) has 16-bit bounds and never contains 65535, so whatever test of min and max guards this, a member outside the range is removed with it" % (
                              ("through %s at %s" % (wholesale[0][1].get("callee"), loc(wholesale[0][1]))) if wholesale and wholesale[0][1] is not None else "it stores 0 into the cardinality"),
                          loc=loc(wholesale[0][1]) if wholesale and wholesale[0][1] is not None else None))
    # ---- B8: the deserialiser accepts every array container the mutators can leave behind ----
    # (varintBitmapAdd converts an array to a bit array when `cardinality >= K` *before* inserting, so an array container holds up to K
    #  members; a cardinality test against a constant in the decoder's ARRAY case that refuses K - or any test ahead of the dispatch that
    #  refuses a cardinality up to 65536 - makes serialise/deserialise lose a set the library itself produced)
    addf = mod.fn("varintBitmapAdd"); decf = mod.fn("varintBitmapDecode")
    if label != "control":
        if addf is None or decf is None or not addf.blocks or not decf.blocks: raise AnalysisBroken("anchor function vanished: varintBitmapAdd / varintBitmapDecode")
        def card_cmp(fn, fi_, ci):
            """(pred, K) for icmp(load of the cardinality field, constant)"""
            if ci.op != "icmp" or ci.ops[1]["k"] != "int" or ci.ops[0]["k"] != "inst": return None
            ld = fn.imap[ci.ops[0]["v"]]
            if ld.op != "load" or ld["size"] != 4: return None
            root, off = fi_.ptr(ld.ops[0])
            if not off.is_const() or off.c != card_off: return None
            return ci["pred"], int(ci.ops[1]["v"])
        fia = w.fi(addf).prepare(); addf.dom(); max_array = None
        for c8 in addf.calls():
            if "tobitmap" not in (c8.get("callee") or "").lower(): continue
            for b8 in addf.blocks:
                t8 = b8.term
                if t8.op != "br" or len(t8.ops) != 3 or t8.ops[0]["k"] != "inst": continue
                pk = card_cmp(addf, fia, addf.imap[t8.ops[0]["v"]])
                if pk is None or not addf.dominates(t8.ops[2]["v"], c8.block.id) or t8.ops[2]["v"] == t8.ops[1]["v"]: continue
                m8 = {"uge": pk[1], "ugt": pk[1] + 1, "eq": pk[1], "sge": pk[1], "sgt": pk[1] + 1}.get(pk[0])
                if m8 is not None: max_array = m8 if max_array is None else max(max_array, m8)
        if max_array is None: raise AnalysisBroken("B8: the array-to-bitmap conversion threshold of varintBitmapAdd was not found")
        fid = w.fi(decf).prepare(); decf.dom()
        sw8 = [b.term for b in decf.blocks if b.term.op == "switch"]
        arr_blocks = set()
        en8 = mod.enums.get("varintBitmapContainerType") or {}
        for t8 in sw8:
            for c_ in t8["cases"]:
                if en8 and int(c_["v"]) == int(en8.get("VARINT_BITMAP_ARRAY", -1)): arr_blocks.add(c_["b"])
        def only_null_returns(bid):
            rets = [decf.bmap[x].term for x in (decf.reachable(bid) | {bid}) if decf.bmap[x].term.op == "ret"]
            def nulls(r, via):
                v = r.ops[0]
                if v["k"] == "null": return True
                if v["k"] == "inst" and decf.imap[v["v"]].op == "phi" and decf.imap[v["v"]].block is r.block:
                    return all(c_["v"]["k"] == "null" for c_ in decf.imap[v["v"]]["incoming"] if c_["b"] in via)
                return False
            via = decf.reachable(bid) | {bid}
            return bool(rets) and all(nulls(r, via) for r in rets)
        for b8 in decf.blocks:
            t8 = b8.term
            if t8.op != "br" or len(t8.ops) != 3 or t8.ops[0]["k"] != "inst": continue
            conds8 = [decf.imap[t8.ops[0]["v"]]]
            for ci8 in conds8:
                pk = card_cmp(decf, fid, ci8)
                if pk is None or pk[0] not in ("uge", "ugt", "sge", "sgt"): continue
                if not only_null_returns(t8.ops[2]["v"]): continue
                first_refused = pk[1] if pk[0] in ("uge", "sge") else pk[1] + 1
                in_array = any(decf.dominates(a_, b8.id) for a_ in arr_blocks)
                limit = max_array if in_array else (65536 if not sw8 or all(decf.dominates(b8.id, t_.block.id) for t_ in sw8) else None)
                if limit is None: continue
                run.check(first_refused > limit, "B8-deserialiser-accepts-what-the-mutators-produce", {"at": loc(ci8), "first_refused": first_refused, "largest_produced": limit},
                          Finding("B8-deserialiser-refuses-a-producible-set", decf.name, "cardinality", "compare",
                                  "varintBitmapDecode refuses %s cardinality >= %d at %s, but %s: serialising such a set and reading it back fails" % (
                                      "an array container of" if in_array else "a", first_refused, loc(ci8),
                                      "varintBitmapAdd only converts an array once it already holds %d members, so an array of %d is a legal state" % (max_array, max_array) if in_array else "a set can hold 65536 members"), loc=loc(ci8)))
    # ---- B3 ----
    nfree = 0
    for fn in sorted(mod.defined(), key=lambda f: f.name):
        fa = eng.fa.get(fn.name)
        for (fr, L, has) in alloc.unread_frees(eng, fn):
            nfree += 1
            ok = has or emptiness_guarded(fn, fa, fr, L[0])
            if not ok and fn.internal and L[0][0] == "arg":
                # a file-local helper that releases the container of the object it is given: the obligation moves to its call sites
                # (the destructor may drop the contents; any other caller must have read them or be behind an emptiness test)
                dt = alloc.destructors(eng); sites = []
                for g in mod.defined():
                    for c in g.calls(fn.name):
                        sites.append((g, c))
                def site_ok(g, c, k_, d=0):
                    ga = eng.fa.get(g.name) or alloc.FnAlloc(g, eng)
                    r, off = ga.fi.ptr(c.ops[k_])
                    if r[0] == "arg" and r[1] in dt.get(g.name, set()): return True
                    if emptiness_guarded(g, ga, c, r): return True
                    # the caller is itself a file-local helper that was handed the object: the question moves on to its callers
                    if g.internal and r[0] == "arg" and d < 3:
                        up = [(g2, c2) for g2 in mod.defined() for c2 in g2.calls(g.name)]
                        return bool(up) and all(site_ok(g2, c2, r[1], d + 1) for g2, c2 in up)
                    return False
                ok = bool(sites) and all(site_ok(g, c, L[0][1]) for g, c in sites)
            run.check(ok, "B3-container-read-before-free", {"fn": fn.name, "at": loc(fr), "read_before": has},
                      Finding("B3-live-container-discarded", fn.name, "param%d+%d" % (L[0][1], L[1]), "free",
                              "the live container is freed at %s without its contents having been read and without a dominating emptiness test: existing elements are discarded" % loc(fr), loc=loc(fr)))
    return nb1, nsw, nfree, nb4


def controls(run):
    srcs = [os.path.join(VERIF, "controls", "pts_controls.c"), os.path.join(VERIF, "controls", "alloc_controls.c"), os.path.join(VERIF, "controls", "table_controls.c")]
    m = Module(build_module("ctl-c08", srcs, "ndebug"))
    probe = Run("C08-control", "quick")
    analyse(m, probe, "control")
    got = {(f.rule, f.function) for f in probe.findings}
    for rule, fn in [("B1-operand-written", "ctl_const_deep_write"), ("B1-operand-written", "bump"), ("B2-dispatch-not-exhaustive", "ctl_missing_case"),
                     ("B3-live-container-discarded", "ctl_drop_unread")]:
        run.control("%s/%s" % (rule, fn), (rule, fn) in got)
    clean = [(f.rule, f.function) for f in probe.findings if "clean" in f.function or f.function in ("step", "mk")]
    run.control("silent on clean controls %s" % clean, not clean)


def run(tier):
    run = Run(PROP, tier, level="other", technique="points-to Mod sets (operand immutability), switch-table exhaustiveness, free-without-read dataflow on LLVM IR")
    per = {}
    for cfg in configs_for(tier):
        mod = lib_module(cfg)
        for a in BINARY + READERS + ["varintBitmapIteratorNext", "varintBitmapAdd", "varintBitmapRemove", "varintBitmapAddRange"]: need_fn(mod, a)
        if ENUM not in mod.enums: raise AnalysisBroken("enum %s not found in debug info" % ENUM)
        nb1, nsw, nfree, nb4 = analyse(mod, run, cfg)
        per[cfg] = {"const_bitmap_params": nb1, "type_switches": nsw, "container_frees_in_mutators": nfree, "single_element_count_updates": nb4}
        run.floor("cardinality +-1 updates in Add / Remove (%s)" % cfg, nb4, 3)
        run.floor("const bitmap parameters + iterators (%s)" % cfg, nb1, 12)
        run.floor("switches on the container type (%s)" % cfg, nsw, 6)
        run.floor("container frees outside the destructor (%s)" % cfg, nfree, 5)
    controls(run)
    run.coverage.update({"configurations": per,
                         "not_decided": "equality with a mathematical set under operation histories, truthful change reports, iterator order, cardinality bookkeeping"})
    return run.finish(
        "Four necessary structural conditions of the set behaviour: (B1) no store reaches memory rooted at a const bitmap operand, at any "
        "depth, including through the local iterator that captures it; (B2) every switch on the container type has a case for each of the "
        "three enumerators; (B3) a mutator that frees the current container has read its contents (a conversion) or is dominated by a test "
        "that the set is empty; (B4) varintBitmapAdd / Remove change the cardinality by one only on an edge controlled by a membership result for the "
        "element (search, test-and-set, test-and-clear). They do not decide the set semantics itself.")
