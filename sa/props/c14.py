"""C14 - length-taking decoders stay inside their declared input (E-BOUNDS + taint).  DESIGN 4/C14.
 L1 the declared length is consulted: it has a use that reaches a branch
 L2 every read through the input pointer (loads, memcpy sources, callee reads) lies below the declared length
 L3 a size computed from input bytes is overflow-checked / bounded before it is used as an allocation size
Not decided: termination."""
import os
from ..report import Run, Finding, rel
from ..common import lib_module, configs_for, need_fn, with_helpers_inlined, local_helpers_of
from ..build import AnalysisBroken, build_module, VERIF
from ..ir import Module
from ..core import World
from ..lin import Lin
from ..bounds import Bounds

PROP = "C14"
# function: (input pointer parameter, length parameter, unit: bytes per length unit as a fraction num/den)
TABLE = {
    "varintTaggedGet": ("z", "n", (1, 1)),
    "varintDictDecode": ("buffer", "bufferLen", (1, 1)),
    "varintDictDecodeInto": ("buffer", "bufferLen", (1, 1)),
    "varintEliasGammaDecodeArray": ("src", "srcBits", (1, 8)),
    "varintEliasDeltaDecodeArray": ("src", "srcBits", (1, 8)),
    "varintBitmapDecode": ("buffer", "len", (1, 1)),
    "varintRLEGetRunCount": ("src", "encodedSize", (1, 1)),
    "varintBP128GetCount": ("src", "srcBytes", (1, 1)),
}


def loc(i): return "%s:%s" % (rel(i.d.get("file", i.fn.file)), i.d.get("line", "?"))


def length_reaches_branch(fn, lenp, world=None):
    """L1: some value computed from the length parameter feeds a conditional branch / select / switch, directly, through a
    field of a local reader object, or inside a callee that receives the value or the object"""
    return _consults(fn, {lenp}, set(), world, 0)[0]


def _consults(fn, targs, tfields, world, depth):
    """targs: tainted integer parameter indices; tfields: tainted (pointer param index, byte offset) locations.
    Returns (reaches a branch, {(param index, offset)} locations of pointer params that receive a tainted value)"""
    fi = world.fi(fn).prepare()
    tainted = set(); slots = set(); outf = set(); rett = [False]
    def is_t(o):
        if o["k"] == "arg": return o["v"] in targs
        if o["k"] == "inst": return o["v"] in tainted
        return False
    def slot_of(addr):
        root, off = fi.ptr(addr)
        return (root, off.c) if off.is_const() else None
    for k, off in tfields: slots.add((("arg", k), off))
    changed = True; hit = False
    while changed and not hit:
        changed = False
        for i in fn.insts():
            ops = list(i.ops) + ([inc["v"] for inc in i["incoming"]] if i.op == "phi" else [])
            if i.op == "load":
                sl = slot_of(i.ops[0])
                if sl in slots and i.id not in tainted: tainted.add(i.id); changed = True
                continue
            if not any(is_t(o) for o in ops):
                if i.op == "call" and depth < 3:
                    # a callee that receives a pointer to an object with a tainted field
                    g = fn.mod.fn(i.get("callee") or "")
                    if g is not None:
                        tf = set()
                        for n in range(i["nargs"]):
                            if not i.ops[n]["t"].endswith("*"): continue
                            root, off = fi.ptr(i.ops[n])
                            if not off.is_const(): continue
                            for (r2, o2) in slots:
                                if r2 == root: tf.add((n, o2 - off.c))
                        if tf:
                            h, wf, rt = _consults(g, set(), tf, world, depth + 1)
                            if h: hit = True; break
                            if rt and i.id >= 0 and i.id not in tainted: tainted.add(i.id); changed = True
                continue
            if i.op in ("br", "switch"): hit = True; break
            if i.op == "ret": rett[0] = True; continue
            if i.op == "select" and is_t(i.ops[0]): hit = True; break
            if i.op == "store":
                if is_t(i.ops[0]):
                    sl = slot_of(i.ops[1])
                    if sl is not None and sl not in slots:
                        slots.add(sl); changed = True
                        if sl[0][0] == "arg": outf.add((sl[0][1], sl[1]))
                continue
            if i.op == "call":
                g = fn.mod.fn(i.get("callee") or "")
                if g is not None and depth < 3:
                    ta = {n for n in range(i["nargs"]) if is_t(i.ops[n])}
                    h, wf, rt = _consults(g, ta, set(), world, depth + 1)
                    if h: hit = True; break
                    for (k2, o2) in wf:
                        root, off = fi.ptr(i.ops[k2])
                        if off.is_const() and (root, off.c + o2) not in slots:
                            slots.add((root, off.c + o2)); changed = True
                            if root[0] == "arg": outf.add((root[1], off.c + o2))
                    if i.id >= 0 and ta and i.id not in tainted: tainted.add(i.id); changed = True
                continue
            if i.id >= 0 and i.id not in tainted: tainted.add(i.id); changed = True
    return hit, outf, rett[0]


def analyse(mod, run, label, table=TABLE):
    w = World(mod); B = Bounds(w); n_inst = 0; summ = {}
    for name, (inn, lenn, (num, den)) in table.items():           # callers are judged against the callee's contract
        g = mod.fn(name)
        if g is not None and den == 1 and g.param_index(inn) is not None and g.param_index(lenn) is not None:
            B.rcontracts[(name, g.param_index(inn))] = ("arg", g.param_index(lenn), 1)
    for name, (inn, lenn, (num, den)) in sorted(table.items()):
        fn = mod.fn(name)
        if fn is None: raise AnalysisBroken("anchor function vanished: %s" % name)
        inp = fn.param_index(inn); lenp = fn.param_index(lenn)
        if inp is None or lenp is None: raise AnalysisBroken("%s: parameters %s/%s not found (have %s)" % (name, inn, lenn, fn.argnames))
        n_inst += 1
        # L1
        used = length_reaches_branch(fn, lenp, w)
        run.check(used, "L1-length-consulted", {"fn": name, "length_param": lenn},
                  Finding("L1-length-unused", name, lenn, "param", "the declared input length '%s' never influences a branch: the decoder cannot stop at the end of its input" % lenn,
                          loc="%s:%s" % (rel(fn.file), fn.line)))
        # L2, first silently: when something is not proved and the function keeps its cursor in file-local helpers (a reader passed by
        # reference), the same obligations are tried on the function with those helpers inlined.  That second reading is only ever used to
        # discharge - what gets reported is always the plain reading.
        probe = Run("C14-probe", "quick")
        l2(mod, w, B, probe, name, fn, inp, lenp, inn, lenn, num, den)
        if probe.findings and label in ("ndebug", "asserts", "native"):
            m2, f2 = with_helpers_inlined(mod, fn, label)
            if m2 is not None:
                w2 = World(m2); B2 = Bounds(w2); B2.rcontracts = dict(B.rcontracts)
                p2 = Run("C14-probe", "quick")
                try: n2 = l2(m2, w2, B2, p2, name, f2, inp, lenp, inn, lenn, num, den)
                except AnalysisBroken: n2 = 0
                if n2 and not p2.findings:
                    for _ in range(n2): run.ok("L2-read-within-length", {"fn": name, "via": "proved with the file-local helpers %s inlined" % ", ".join(local_helpers_of(mod, fn))})
                    summ[name] = n2
                    continue
        summ[name] = l2(mod, w, B, run, name, fn, inp, lenp, inn, lenn, num, den)
        # ---- L3: no allocation whose size is dictated by the input alone ----
        # every malloc / calloc / realloc in a length-taking decoder asks for at most 16 bytes per declared input byte plus a constant
        # (2^32): a count read from the stream must have been compared with what is left of the input (or with a constant cap) first
        fi3, F3, P3 = B.fp(fn)
        Llen = Lin.atom(("arg", lenp))
        for c in fn.calls():
            cal = c.get("callee")
            if cal not in ("malloc", "calloc", "realloc"): continue
            if cal == "malloc": sz = fi3.lin(c.ops[0])
            elif cal == "realloc": sz = fi3.lin(c.ops[1])
            else:
                a, b_ = fi3.lin(c.ops[0]), fi3.lin(c.ops[1])
                sz = b_.scale(a.c) if a.is_const() else (a.scale(b_.c) if b_.is_const() else None)
            n3 = getattr(run, "_l3", 0) + 1; run._l3 = n3
            if sz is None: ok3 = False
            elif sz.is_const(): ok3 = sz.c <= (1 << 32)
            else: ok3 = P3.prove_at(sz - Llen.scale(16 * den // max(num, 1) if den else 16) - (1 << 32), c.block)
            run.check(ok3, "L3-allocation-bounded-by-input-size", {"fn": name, "at": loc(c), "size": repr(sz)},
                      Finding("L3-allocation-sized-by-unchecked-input", name, "%s@%s" % (cal, c.d.get("line", "?")), "size",
                              "%s at %s asks for %r bytes; this is not provably bounded by the declared input size '%s' (16 bytes per input byte + 2^32): a count taken from a hostile stream decides how much memory is requested" % (cal, loc(c), sz, lenn), loc=loc(c)))
    return n_inst, summ


def l2(mod, w, B, run, name, fn, inp, lenp, inn, lenn, num, den):
    if True:
        # L2: extent in bytes = len * num / den ; scale the obligation by den
        ext = Lin.atom(("arg", lenp))
        fi, F, P = B.fp(fn)
        n = 0
        B.rcontracts.pop((name, inp), None)
        for i, kind, off, sz in list(B.accesses(fn, ("arg", inp), "r")):
            n += 1
            if sz is None:
                why = B.prove_in_callee(fn, i, ("arg", inp), off.scale(den), ext.scale(num), "r", []) if (den == 1 and "(via " not in kind) else "the callee reads through a pointer kept in a local reader object; no bound in terms of '%s' is derivable" % lenn
                if why is None: run.ok("L2-read-within-length", {"fn": name, "at": loc(i), "access": kind, "via": "context proof"})
                else: run.fail(Finding("L2-read-beyond-length", name, inn, kind, "%s at %s through '%s': read extent is not bounded by '%s' (%s)" % (kind, loc(i), inn, lenn, why), loc=loc(i)))
                continue
            le, ne = F.at_block(i.block)
            from ..bounds import trim
            szs = sz if isinstance(sz, list) else [sz]
            goal = (off + szs[-1]).scale(den) - ext.scale(num)
            if any(P.prove_at((off + z).scale(den) - ext.scale(num), i.block, trim=trim) for z in szs):
                run.ok("L2-read-within-length", {"fn": name, "at": loc(i), "access": kind, "offset": repr(off), "size": repr(szs[0]), "bound": "%s*%d/%d" % (lenn, num, den)})
            else:
                # the callee's closed-form extent (e.g. "at most 9 bytes") is too coarse when the callee clamps to the remaining input
                # itself: prove its own reads under the facts of this call site
                g = mod.functions.get(i.get("callee") or "") if i.op == "call" else None
                if g is not None and not g.decl and den == 1 and "(via " not in kind:
                    try: why = B.prove_in_callee(fn, i, ("arg", inp), off, ext.scale(num), "r", [])
                    except RecursionError: why = "recursion"
                    if why is None:
                        run.ok("L2-read-within-length", {"fn": name, "at": loc(i), "access": kind, "via": "context proof"}); continue
                run.fail(Finding("L2-read-beyond-length", name, inn, kind, "%s at %s through '%s': cannot prove %r <= 0, i.e. that the read ends at or before '%s'" % (kind, loc(i), inn, goal, lenn), loc=loc(i)))
        if n == 0: raise AnalysisBroken("%s: no read through the input parameter found" % name)
        return n


def controls(run):
    m = Module(build_module("ctl-bounds", [os.path.join(VERIF, "controls", "bounds_controls.c")], "ndebug"))
    probe = Run("C14-control", "quick")
    tab = {"ctl_rd_unused_len": ("src", "len", (1, 1)), "ctl_rd_check_after": ("src", "len", (1, 1)), "ctl_rd_clean": ("src", "len", (1, 1)),
           "ctl_rd_clean_end": ("src", "len", (1, 1))}
    analyse(m, probe, "control", tab)
    got = {(f.rule, f.function) for f in probe.findings}
    for rule, fn in [("L1-length-unused", "ctl_rd_unused_len"), ("L2-read-beyond-length", "ctl_rd_unused_len"), ("L2-read-beyond-length", "ctl_rd_check_after")]:
        run.control("%s/%s" % (rule, fn), (rule, fn) in got)
    clean = [(f.rule, f.function) for f in probe.findings if "clean" in f.function]
    run.control("silent on clean controls %s" % clean, not clean)


def run(tier):
    run = Run(PROP, tier, level="other", technique="symbolic region-bounds analysis of reads against the declared length + use-def reachability of the length parameter on LLVM IR")
    per = {}
    for cfg in configs_for(tier):
        mod = lib_module(cfg)
        n, summ = analyse(mod, run, cfg)
        per[cfg] = {"decoders": n, "read_obligations": summ}
        run.floor("length-taking decoders (%s)" % cfg, n, 8)
    controls(run)
    run.coverage.update({"configurations": per, "instance_table": {k: [v[0], v[1], "%d/%d bytes per unit" % v[2]] for k, v in TABLE.items()},
                         "not_decided": "termination on hostile input; allocation-size overflow beyond what C18/C13 cover"})
    run.assumptions += ["values decoded from input bytes are unconstrained; only comparisons that dominate a read bound it"]
    return run.finish(
        "For each entry point that is told its input size: (L1) the length parameter must flow into a branch; (L2) every load, memcpy source and "
        "callee read through the input pointer is collected with a symbolic offset and proved to end at or before the declared length from the "
        "conditions that dominate it (end-pointer tests, n-versus-first-byte tests, switch case constants), interprocedurally. Unproven = reported.")
