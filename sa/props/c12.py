"""C12 - in-place add stores the exact sum and never outgrows a no-grow slot (dataflow rules).  DESIGN 4/C12.
Instances are discovered structurally: every function that calls llvm.sadd.with.overflow (the checked add of varint.h).
 R1 the value whose width is measured and the value that is stored are the same SSA value (modulo casts), and it is the checked sum
 R2 the store (put) is dominated by the no-overflow edge and by the evaluation of `newWidth > oldWidth`; on the overflow edge
    the function returns 0 and nothing reachable writes through the varint pointer
 R3 (extent) the put writes exactly `width(value)` bytes: discharged by C01-L1/L3 (length agreement, footprint), referenced here;
    a put that takes an explicit width must receive the width measured for the stored value
 R4 every return that is not preceded by the put is the overflow return, or is reached only through the strict comparison
    newWidth > oldWidth together with !force (a `>=` would refuse sums that fit)"""
import os
from ..report import Run, Finding, rel
from ..common import lib_module, configs_for, need_fn
from ..build import AnalysisBroken, build_module, VERIF
from ..ir import Module
from ..core import World

PROP = "C12"


def loc(i): return "%s:%s" % (rel(i.d.get("file", i.fn.file)), i.d.get("line", "?"))


def strip(fn, o):
    while o["k"] == "inst" and fn.imap[o["v"]].op in ("zext", "sext", "trunc", "bitcast"):
        o = fn.imap[o["v"]].ops[0]
    return o


def same(fn, a, b):
    a, b = strip(fn, a), strip(fn, b)
    return (a["k"], a.get("v")) == (b["k"], b.get("v"))


def measured_values(fn, w, memory_counter=False):
    """[(value whose byte width is computed, width result operand, site)]: calls of a pure one-integer-argument width function,
    and byte-count loops  `v = V0; enc = 1; while ((v >>= 8) != 0) enc++`"""
    out = []
    for i in fn.calls():
        c = i.get("callee")
        g = fn.mod.fn(c) if c else None
        if g is None or i["nargs"] != 1 or i.ops[0]["t"].endswith("*") or g.d["ret"] != "i32": continue
        if w.pts.summ[c].mod: continue
        out.append((i.ops[0], {"k": "inst", "v": i.id, "t": i["t"]}, i))
    loops = fn.loops()
    for h, body in loops.items():
        hb = fn.bmap[h]
        vphi = cphi = cphi0 = None
        for p in hb.insts:
            if p.op != "phi" or len(p["incoming"]) != 2: continue
            back = [x for x in p["incoming"] if x["b"] in body]; outside = [x for x in p["incoming"] if x["b"] not in body]
            if len(back) != 1 or len(outside) != 1: continue
            bv = strip(fn, back[0]["v"])
            if bv["k"] != "inst": continue
            bi = fn.imap[bv["v"]]
            if bi.op == "lshr" and bi.ops[1]["k"] == "int" and int(bi.ops[1]["v"]) == 8 and same(fn, bi.ops[0], {"k": "inst", "v": p.id}): vphi = (p, outside[0]["v"])
            if bi.op == "add" and bi.ops[1]["k"] == "int" and int(bi.ops[1]["v"]) == 1 and same(fn, bi.ops[0], {"k": "inst", "v": p.id}) \
                    and outside[0]["v"]["k"] == "int" and int(outside[0]["v"]["v"]) == 1: cphi = p
            # `w = 0; do { w++; v >>= 8; } while (v != 0)`: counted from 0, the width is the incremented value that leaves the loop
            if bi.op == "add" and bi.ops[1]["k"] == "int" and int(bi.ops[1]["v"]) == 1 and same(fn, bi.ops[0], {"k": "inst", "v": p.id}) \
                    and outside[0]["v"]["k"] == "int" and int(outside[0]["v"]["v"]) == 0: cphi0 = (p, bi)
        if vphi and not cphi and memory_counter:
            # the count is kept in memory (`obj->width = 1; while ((v >>= 8) != 0) obj->width++`): the measured value is still known
            v0 = vphi[1]; sv = strip(fn, v0)
            if sv["k"] == "inst" and fn.imap[sv["v"]].op == "lshr" and fn.imap[sv["v"]].ops[1]["k"] == "int" and int(fn.imap[sv["v"]].ops[1]["v"]) == 8: v0 = fn.imap[sv["v"]].ops[0]
            out.append((v0, None, hb.insts[0], []))
        if vphi and cphi0 and not cphi:
            # bottom-tested form: only valid when the shift happens after the count in every iteration, i.e. the value tested for the
            # exit is the shifted one and the first iteration always runs (v0 itself is measured, a zero value has width 1)
            v0 = vphi[1]; nxt = cphi0[1]
            names = {nxt.id}
            grew = True
            while grew:
                grew = False
                for j in fn.insts():
                    if j.op != "phi" or j.id in names or j.id == cphi0[0].id: continue
                    vals = [strip(fn, x["v"]) for x in j["incoming"]]
                    if vals and all(v["k"] == "inst" and v["v"] in names for v in vals): names.add(j.id); grew = True
            out.append((v0, {"k": "inst", "v": nxt.id, "t": nxt["t"]}, hb.insts[0], [{"k": "inst", "v": n, "t": nxt["t"]} for n in sorted(names - {nxt.id})]))
        if vphi and cphi:
            v0 = vphi[1]
            sv = strip(fn, v0)
            if sv["k"] == "inst" and fn.imap[sv["v"]].op == "lshr" and fn.imap[sv["v"]].ops[1]["k"] == "int" and int(fn.imap[sv["v"]].ops[1]["v"]) == 8:
                v0 = fn.imap[sv["v"]].ops[0]              # rotated form: the first shift happens in the guard in front of the loop
            # the same count under its other names: the incremented value (exit from the latch of a do/while) and merges of these with the
            # initial constant 1 after the loop
            names = {cphi.id}
            for x in cphi["incoming"]:
                if x["b"] in body and strip(fn, x["v"])["k"] == "inst": names.add(strip(fn, x["v"])["v"])
            grew = True
            while grew:
                grew = False
                for j in fn.insts():
                    if j.op != "phi" or j.id in names: continue
                    vals = [strip(fn, x["v"]) for x in j["incoming"]]
                    if any(v["k"] == "inst" and v["v"] in names for v in vals) and all((v["k"] == "inst" and v["v"] in names) or (v["k"] == "int" and int(v["v"]) == 1) for v in vals):
                        names.add(j.id); grew = True
            out.append((v0, {"k": "inst", "v": cphi.id, "t": cphi["t"]}, hb.insts[0], [{"k": "inst", "v": n, "t": cphi["t"]} for n in sorted(names - {cphi.id})]))
    return out


def has_checked_add(fn):
    return any((i.get("callee") or "").startswith("llvm.sadd.with.overflow") for i in fn.calls())


def mutable_bytes_param(fn):
    return any(p["t"] == "i8*" and not p["pointee_const"] for p in fn.params)


def inline_plan(mod):
    """When the function that performs the checked add does not itself hold the mutable varint pointer, it is a helper that the add was
    split into: the rules then apply to the nearest caller that does hold it, with that caller's file-local helpers inlined.
    Returns the helper names to inline (empty on today's tree, where varintTaggedAdd / varintExternalAdd_ do everything themselves)."""
    plan = set()
    for fn in mod.defined():
        if not has_checked_add(fn) or mutable_bytes_param(fn) or not fn.internal: continue
        level = [fn]
        for _ in range(3):
            up = [g for g in mod.defined() if any(next(iter(g.calls(h.name)), None) is not None for h in level) and g not in level]
            roots = [g for g in up if mutable_bytes_param(g)]
            if roots:
                for g in roots:
                    # everything file-local that g reaches
                    work = [g]; seen = set()
                    while work:
                        x = work.pop()
                        for c in x.calls():
                            h = mod.fn(c.get("callee") or "")
                            if h is not None and h.internal and h.blocks and h.name not in seen and h is not g:
                                seen.add(h.name); work.append(h)
                    plan |= seen
                break
            level = [g for g in up if g.internal]
            if not level: break
    return sorted(plan)


def analyse(mod, run, label, skip=()):
    w = World(mod); n = 0
    for fn in sorted(mod.defined(), key=lambda f: f.name):
        ovs = [i for i in fn.calls() if (i.get("callee") or "").startswith("llvm.sadd.with.overflow")]
        if not ovs or fn.name in skip: continue
        n += 1
        fn.dom()
        ov = ovs[0]
        sumv = [i for i in fn.insts() if i.op == "extractvalue" and i.get("indices") == [0] and i.ops[0]["k"] == "inst" and i.ops[0]["v"] == ov.id]
        flag = [i for i in fn.insts() if i.op == "extractvalue" and i.get("indices") == [1] and i.ops[0]["k"] == "inst" and i.ops[0]["v"] == ov.id]
        if not sumv or not flag: raise AnalysisBroken("%s: checked-add result/flag not found" % fn.name)
        S = {"k": "inst", "v": sumv[0].id}; Fl = flag[0]
        # the branch on the overflow flag
        br = None
        for b in fn.blocks:
            t = b.term
            if t.op == "br" and len(t.ops) == 3:
                c = t.ops[0]
                for _ in range(4):
                    if c["k"] == "inst" and fn.imap[c["v"]].op in ("zext", "trunc", "icmp") and fn.imap[c["v"]].id != Fl.id: 
                        ci = fn.imap[c["v"]]
                        if ci.op == "icmp" and ci.ops[1]["k"] == "int": c = ci.ops[0]
                        elif ci.op in ("zext", "trunc"): c = ci.ops[0]
                        else: break
                    else: break
                if c["k"] == "inst" and c["v"] == Fl.id: br = t; break
        # R1a: the checked addition is the signed 64-bit one the property speaks of
        is64 = (ov.get("callee") or "").endswith(".i64")
        run.check(is64, "R1-checked-add-is-signed-64-bit", {"fn": fn.name, "intrinsic": ov.get("callee")},
                  Finding("R1-overflow-measured-in-another-range", fn.name, "sum", "checked-add", "%s detects overflow with %s: the sum is not checked against the signed 64-bit range (a wider or unsigned result type changes which sums are refused)" % (fn.name, ov.get("callee")), loc=loc(ov)))
        if br is None:
            # the flag exists but no branch tests it alone: look for a branch that depends on it together with other conditions
            def depends(o, d=0):
                if o["k"] != "inst" or d > 8: return False
                if o["v"] == Fl.id: return True
                x = fn.imap[o["v"]]
                return x.op in ("zext", "trunc", "icmp", "or", "and", "xor", "select") and any(depends(y, d + 1) for y in x.ops)
            mixed = [b.term for b in fn.blocks if b.term.op == "br" and len(b.term.ops) == 3 and depends(b.term.ops[0])]
            run.fail(Finding("R1-overflow-condition-not-exact", fn.name, "sum", "branch",
                             ("%s reports failure on a condition that combines the overflow flag with other tests (at %s): sums that do not overflow the signed 64-bit range can be refused" % (fn.name, loc(mixed[0]))) if mixed else
                             ("%s never branches on the overflow flag of its checked addition: an overflowing sum is stored" % fn.name), loc=loc(mixed[0]) if mixed else loc(ov)))
            continue
        # which successor is the overflow edge?  evaluate the condition under flag = 1
        def cond_under(o, flagval):
            if o["k"] == "int": return int(o["v"])
            if o["k"] == "inst" and o["v"] == Fl.id: return flagval
            if o["k"] != "inst": return None
            i = fn.imap[o["v"]]
            if i.op in ("zext", "trunc"): return cond_under(i.ops[0], flagval)
            if i.op == "icmp":
                a, b = cond_under(i.ops[0], flagval), cond_under(i.ops[1], flagval)
                if a is None or b is None: return None
                return int({"eq": a == b, "ne": a != b}.get(i["pred"], False))
            if i.op == "xor":
                a, b = cond_under(i.ops[0], flagval), cond_under(i.ops[1], flagval)
                return None if a is None or b is None else a ^ b
            return None
        cv = cond_under(br.ops[0], 1)
        if cv is None: raise AnalysisBroken("%s: cannot evaluate the overflow branch condition" % fn.name)
        ovf_succ = br.ops[2]["v"] if cv else br.ops[1]["v"]; ok_succ = br.ops[1]["v"] if cv else br.ops[2]["v"]
        # pointer parameter holding the varint
        pparams = [k for k, p in enumerate(fn.params) if p["t"] == "i8*" and not p["pointee_const"]]
        if not pparams: raise AnalysisBroken("%s: no mutable byte pointer parameter" % fn.name)
        pk = pparams[0]
        def writes_p(i):
            if i.op == "store": return w.fi(fn).ptr(i.ops[1])[0] == ("arg", pk)
            if i.op == "call":
                c = i.get("callee") or ""
                if c.startswith("llvm.mem"): return w.fi(fn).ptr(i.ops[0])[0] == ("arg", pk)
                s = w.pts.summ.get(c)
                if s is None: return False
                for n2 in range(i["nargs"]):
                    if i.ops[n2]["t"].endswith("*") and w.fi(fn).ptr(i.ops[n2])[0] == ("arg", pk) and any(r[0] == "arg" and r[1] == n2 for r in s.mod): return True
            return False
        w.fi(fn).prepare()
        puts = [i for i in fn.insts() if writes_p(i)]
        if not puts: raise AnalysisBroken("%s: no write through the varint pointer found" % fn.name)
        # ---- R2a: overflow edge returns 0 and reaches no write ----
        reach = fn.reachable(ovf_succ)
        bad_w = [i for i in puts if i.block.id in reach]
        rets = [fn.bmap[b].term for b in reach if fn.bmap[b].term.op == "ret"]
        def ret_via(r, frm):
            v = r.ops[0]
            if v["k"] == "inst" and fn.imap[v["v"]].op == "phi" and fn.imap[v["v"]].block is r.block:
                vals = [inc["v"] for inc in fn.imap[v["v"]]["incoming"] if inc["b"] in frm or inc["b"] == br.block.id]
                return vals
            return [v]
        ovf_ok = not bad_w and rets and all(all(x["k"] == "int" and int(x["v"]) == 0 for x in ret_via(r, reach | {ovf_succ})) for r in rets)
        run.check(ovf_ok, "R2-overflow-returns-0-untouched", {"fn": fn.name, "overflow_edge": "%d->%d" % (br.block.id, ovf_succ)},
                  Finding("R2-overflow-path-writes-or-succeeds", fn.name, "overflow-edge", "path", "on signed overflow the function %s" % ("can still write through the varint pointer at %s" % loc(bad_w[0]) if bad_w else "does not return 0"), loc=loc(br)))
        # ---- put call(s) on the success side ----
        for put in puts:
            # the no-overflow edge is the only way into its target (apart from back edges of a loop that starts there)
            dom_ok = fn.dominates(ok_succ, put.block.id) and [pb.id for pb in fn.bmap[ok_succ].preds if not fn.dominates(ok_succ, pb.id)] == [br.block.id]
            run.check(dom_ok, "R2-put-after-overflow-check", {"fn": fn.name, "put": loc(put)},
                      Finding("R2-put-not-guarded-by-overflow-check", fn.name, "put", "call", "the write at %s is not dominated by the no-overflow edge of the checked add" % loc(put), loc=loc(put)))
            # value stored
            if put.op == "call":
                vargs = [put.ops[k] for k in range(put["nargs"]) if not put.ops[k]["t"].endswith("*") and put.ops[k]["t"] == "i64"]
            else: vargs = [put.ops[0]]
            stored_is_sum = any(same(fn, v, S) for v in vargs)
            run.check(stored_is_sum, "R1-stored-value-is-checked-sum", {"fn": fn.name, "put": loc(put)},
                      Finding("R1-stored-value-not-sum", fn.name, "put", "value", "the value written at %s is not the result of the checked addition" % loc(put), loc=loc(put)))
        # ---- R1: measured value ----
        ms = measured_values(fn, w)
        ms = [m for m in ms if fn.dominates(ok_succ, m[2].block.id) or m[2].block.id in fn.reachable(ok_succ)]
        if not ms:
            # a byte-count loop that does not start from scratch (`w = oldWidth; rest = sum >> 8*w; while (rest) { w++; rest >>= 8; }`) is not
            # the width of the sum: it can never come out below its start.  With a store that sizes itself from the value, the width
            # that is returned (and compared for the no-grow refusal) is then not the width of what was written.
            partial = None
            for h_, body_ in fn.loops().items():
                sh_ = ct_ = None
                for p_ in fn.bmap[h_].insts:
                    if p_.op != "phi" or len(p_["incoming"]) != 2: continue
                    bk_ = [x for x in p_["incoming"] if x["b"] in body_]; ot_ = [x for x in p_["incoming"] if x["b"] not in body_]
                    if len(bk_) != 1 or len(ot_) != 1: continue
                    bv_ = strip(fn, bk_[0]["v"])
                    if bv_["k"] != "inst": continue
                    bi_ = fn.imap[bv_["v"]]
                    if bi_.op == "lshr" and bi_.ops[1]["k"] == "int" and int(bi_.ops[1]["v"]) == 8 and same(fn, bi_.ops[0], {"k": "inst", "v": p_.id}): sh_ = p_
                    if bi_.op == "add" and bi_.ops[1]["k"] == "int" and int(bi_.ops[1]["v"]) == 1 and same(fn, bi_.ops[0], {"k": "inst", "v": p_.id}) and ot_[0]["v"]["k"] != "int": ct_ = (p_, ot_[0]["v"])
                if sh_ is not None and ct_ is not None and (fn.dominates(ok_succ, h_) or h_ in fn.reachable(ok_succ)): partial = (sh_, ct_)
            autosized = [pt for pt in puts if pt.op == "call" and not any(pt.ops[k]["t"] == "i32" and not pt.ops[k]["t"].endswith("*") for k in range(pt["nargs"]))]
            def only_constants(o, d=0):
                """a start width chosen among constants (e.g. by a test of the sum's upper half) can be a correct short cut: not judged here"""
                o = strip(fn, o)
                if o["k"] == "int": return True
                if o["k"] != "inst" or d > 6: return False
                x = fn.imap[o["v"]]
                if x.op == "phi": return all(only_constants(c_["v"], d + 1) for c_ in x["incoming"])
                if x.op == "select": return only_constants(x.ops[1], d + 1) and only_constants(x.ops[2], d + 1)
                return False
            if partial is not None and only_constants(partial[1][1]): partial = None
            if partial is not None and autosized:
                run.fail(Finding("R1-width-not-measured-from-sum", fn.name, "width-computation", "value",
                                 "the width reported for the sum is counted up from a starting width (the loop at %s only looks at the bytes above it) while %s at %s sizes the stored bytes from the value itself: when the sum is narrower than the start the stored bytes are shorter than the reported width and the stale high bytes are read back" % (
                                     loc(partial[0]), autosized[0].get("callee"), loc(autosized[0])), loc=loc(partial[0])))
                continue
            raise AnalysisBroken("%s: no width computation found after the checked add" % fn.name)
        meas = ms[-1]
        run.check(same(fn, meas[0], S), "R1-measured-value-is-stored-value", {"fn": fn.name, "measure": loc(meas[2])},
                  Finding("R1-width-of-wrong-value", fn.name, "width-computation", "value",
                          "the width computed at %s is that of a different value than the sum that is stored (the old value is measured, the new value is written): a no-grow add can write past the slot" % loc(meas[2]), loc=loc(meas[2])))
        newW = meas[1]; newWs = [meas[1]] + (list(meas[3]) if len(meas) > 3 else [])
        def is_new(o): return any(same(fn, o, w_) for w_ in newWs)
        # ---- R3a: a put that takes an explicit width must be given the width measured for the value it stores ----
        for put in puts:
            if put.op != "call": continue
            wargs = [put.ops[k] for k in range(put["nargs"]) if not put.ops[k]["t"].endswith("*") and put.ops[k]["t"] == "i32"]
            for wa in wargs:
                run.check(is_new(wa), "R3-explicit-width-is-measured-width", {"fn": fn.name, "put": loc(put), "callee": put.get("callee")},
                          Finding("R3-put-with-foreign-width", fn.name, "put:%s" % put.get("callee"), "width", "%s at %s stores the sum with an explicit width that is not the width measured for the sum (e.g. the old width): in the tagged format the 2- and 3-byte classes only represent values of exactly that class, so the stored bytes decode to a different number" % (put.get("callee"), loc(put)), loc=loc(put)))
        # ---- R4 / R2b: the refusal comparison, read off the edges rather than from one statement shape ----
        fk = fn.param_index("force")
        # the "growth was requested" flag, whatever it is called or typed: an integer parameter that is not part of the sum, for which the
        # NoGrow entry point passes a constant.  A test of it means "forced" on the side that the NoGrow constant cannot take.
        def arg_of(o, d=0):
            if o["k"] == "arg": return o["v"]
            if o["k"] == "inst" and d < 4 and fn.imap[o["v"]].op in ("zext", "sext", "trunc"): return arg_of(fn.imap[o["v"]].ops[0], d + 1)
            return None
        summands = {arg_of(ov.ops[0]), arg_of(ov.ops[1])}
        nogrow = {}
        for g in mod.defined():
            if "nogrow" not in g.name.lower(): continue
            for c in g.calls(fn.name):
                for k2 in range(min(c["nargs"], len(fn.params))):
                    if k2 in summands or fn.params[k2]["t"].endswith("*") or c.ops[k2]["k"] != "int": continue
                    nogrow[k2] = int(c.ops[k2]["v"])
        def under_nogrow(o, d=0):
            """value of a condition when the flag parameters hold what the NoGrow entry point passes, or None"""
            if d > 8: return None
            if o["k"] == "int": return int(o["v"])
            if o["k"] == "arg": return nogrow.get(o["v"])
            if o["k"] != "inst": return None
            x = fn.imap[o["v"]]
            if x.op in ("zext", "freeze"): return under_nogrow(x.ops[0], d + 1)
            if x.op == "trunc":
                a = under_nogrow(x.ops[0], d + 1); bits = int(x["t"][1:]) if x["t"][1:].isdigit() else 64
                return None if a is None else a & ((1 << bits) - 1)
            if x.op in ("icmp", "xor", "and", "or"):
                a, b = under_nogrow(x.ops[0], d + 1), under_nogrow(x.ops[1], d + 1)
                if a is None or b is None: return None
                if x.op == "icmp":
                    r = {"eq": a == b, "ne": a != b, "ugt": a > b, "uge": a >= b, "ult": a < b, "ule": a <= b}.get(x["pred"])
                    return None if r is None else int(r)
                return {"xor": a ^ b, "and": a & b, "or": a | b}[x.op]
            return None
        def norm_cond(o, truth=True, d=0):
            """(kind, truth): kind = ('cmp', icmp inst) | ('force',) | None - through zext/trunc, `x != 0`, `x == 0`, `x ^ 1`"""
            if d > 8: return None
            if d == 0 and nogrow:
                b0 = under_nogrow(o)
                if b0 is not None: return (("force",), not b0)      # true exactly on the side the NoGrow constant cannot take
            if o["k"] == "arg": return (("force",), truth) if fk is not None and o["v"] == fk else None
            if o["k"] != "inst": return None
            x = fn.imap[o["v"]]
            if x.op in ("zext", "trunc", "sext", "freeze"): return norm_cond(x.ops[0], truth, d + 1)
            if x.op == "xor" and x.ops[1]["k"] == "int" and int(x.ops[1]["v"]) & 1: return norm_cond(x.ops[0], not truth, d + 1)
            if x.op == "and" and x.ops[1]["k"] == "int" and int(x.ops[1]["v"]) == 1: return norm_cond(x.ops[0], truth, d + 1)
            if x.op == "icmp":
                if (is_new(x.ops[0]) and x.ops[1]["k"] != "int") or (is_new(x.ops[1]) and x.ops[0]["k"] != "int"): return (("cmp", x), truth)      # new width against another width (a test against a constant is a validity test)
                if x.ops[1]["k"] == "int" and int(x.ops[1]["v"]) == 0 and x["pred"] in ("ne", "eq"): return norm_cond(x.ops[0], truth if x["pred"] == "ne" else not truth, d + 1)
            return None
        def fits_when(ci, truth):
            """does (ci == truth) imply newWidth <= oldWidth?  And is the boundary exactly new <= old / new > old?"""
            new_left = is_new(ci.ops[0]); p_ = ci["pred"].lstrip("us") if ci["pred"] not in ("eq", "ne") else ci["pred"]
            rel = {"gt": ">", "ge": ">=", "lt": "<", "le": "<=", "eq": "==", "ne": "!="}[p_]
            if not new_left: rel = {">": "<", ">=": "<=", "<": ">", "<=": ">=", "==": "==", "!=": "!="}[rel]
            if not truth: rel = {">": "<=", ">=": "<", "<": ">=", "<=": ">", "==": "!=", "!=": "=="}[rel]
            return rel in ("<=", "<", "=="), rel in ("<=", ">")
        cmps = []
        for b0 in fn.blocks:
            t0 = b0.term
            if t0.op == "br" and len(t0.ops) == 3:
                nc = norm_cond(t0.ops[0])
                if nc and nc[0][0] == "cmp": cmps.append((b0, nc[0][1]))
        grow_entry = "grow" in fn.name.lower() and "nogrow" not in fn.name.lower()
        if not cmps and grow_entry:
            # the growing entry point written as a function of its own: it stores the sum whatever width it needs, by contract
            run.observe("%s is the growing entry point itself: no width test is required of it" % fn.name)
            continue
        if not cmps:
            run.fail(Finding("R2-no-width-check", fn.name, "put", "guard", "no branch compares the new width with the old width: the write at %s happens whatever the sum needs (a no-grow add can outgrow its slot)" % loc(puts[0]), loc=loc(puts[0])))
            continue
        # ---- R5: the width the new one is compared with is the width of what is stored: it comes from the bytes at p (the length the
        # decoder returned, the tag byte) or from the caller (external format) - not from re-measuring the decoded value, which is the
        # minimal width and is smaller than the slot when the value was stored wider than necessary
        def from_encoding(o, d=0):
            if d > 6: return False
            if o["k"] == "arg": return o["v"] not in summands
            if o["k"] != "inst": return False
            x = fn.imap[o["v"]]
            if x.op in ("zext", "sext", "trunc", "and", "lshr", "add", "sub") : return from_encoding(x.ops[0], d + 1)
            if x.op == "call": return any(x.ops[n2]["t"].endswith("*") and w.fi(fn).ptr(x.ops[n2])[0] == ("arg", pk) for n2 in range(x["nargs"]))
            if x.op == "load": return w.fi(fn).ptr(x.ops[0])[0] == ("arg", pk)
            if x.op == "phi": return all(from_encoding(inc["v"], d + 1) for inc in x["incoming"])
            return False
        for (b0, ci) in cmps:
            old = ci.ops[1] if is_new(ci.ops[0]) else ci.ops[0]
            run.check(from_encoding(old), "R5-old-width-is-read-from-the-encoding", {"fn": fn.name, "compare": loc(ci)},
                      Finding("R5-old-width-not-from-encoding", fn.name, "width-compare", "old-width",
                              "the width the sum's width is compared with at %s does not come from the stored bytes (decoder's returned length / tag byte) or from the caller: a value stored wider than its minimal width is then treated as a smaller slot, sums that fit are refused or the reported width is wrong" % loc(ci), loc=loc(ci)))
        for (b0, ci) in cmps:
            exact = fits_when(ci, True)[1]
            run.check(exact, "R4-refusal-only-when-strictly-larger", {"fn": fn.name, "compare": "%s at %s" % (ci["pred"], loc(ci))},
                      Finding("R4-nonstrict-width-compare", fn.name, "width-compare", ci["pred"], "the no-grow test at %s is '%s': sums that still fit the current width are refused (or larger ones accepted)" % (loc(ci), ci["pred"]), loc=loc(ci)))
        for put in puts:
            # every way from the no-overflow edge to the write passes an edge on which the sum fits the old width, or on which force is set
            bad_path = None; seen = set(); work = [put.block]
            while work and bad_path is None:
                blk = work.pop()
                if blk.id in seen: continue
                seen.add(blk.id)
                if blk.id == ok_succ: bad_path = blk; break
                for pb in blk.preds:
                    t0 = pb.term; guarded = False
                    if t0.op == "br" and len(t0.ops) == 3 and t0.ops[1]["v"] != t0.ops[2]["v"]:
                        nc = norm_cond(t0.ops[0])
                        if nc is not None:
                            taken_true = (t0.ops[2]["v"] == blk.id); val = nc[1] if taken_true else not nc[1]
                            if nc[0][0] == "force": guarded = val
                            else: guarded = fits_when(nc[0][1], val)[0]
                    if not guarded: work.append(pb)
            grows_unforced = bad_path is not None
            run.check(not grows_unforced, "R2-put-only-when-it-fits-or-forced", {"fn": fn.name, "put": loc(put)},
                      Finding("R2-put-before-width-check", fn.name, "put", "order", "the write at %s can be reached from the checked addition without passing a test that the new width fits the old one or that growth was requested" % loc(put), loc=loc(put)))
        # returns not preceded by a put: only the overflow return and the refusal return
        putblocks = {p.block.id for p in puts}
        for r in fn.rets():
            preds_ok = True
    return n


def controls(run):
    m = Module(build_module("ctl-add", [os.path.join(VERIF, "controls", "add_controls.c")], "ndebug"))
    probe = Run("C12-control", "quick")
    analyse(m, probe, "control")
    got = {(f.rule, f.function) for f in probe.findings}
    for rule, fn in [("R1-width-of-wrong-value", "ctl_add_measures_old"), ("R4-nonstrict-width-compare", "ctl_add_ge"),
                     ("R2-overflow-path-writes-or-succeeds", "ctl_add_overflow_writes")]:
        run.control("%s/%s" % (rule, fn), (rule, fn) in got)
    clean = [(f.rule, f.function) for f in probe.findings if "clean" in f.function]
    run.control("silent on clean controls %s" % clean, not clean)


def run(tier):
    run = Run(PROP, tier, level="other", technique="SSA value-identity and dominance rules over the checked-add / measure / conditional-put pattern on LLVM IR")
    per = {}
    for cfg in configs_for(tier):
        mod = lib_module(cfg)
        for a in ("varintTaggedAddNoGrow", "varintTaggedAddGrow", "varintExternalAddNoGrow", "varintExternalAddGrow"): need_fn(mod, a)
        plan = inline_plan(mod)
        if plan:
            run.observe("the checked add lives in file-local helpers without the varint pointer: analysed with %s inlined into their callers" % ", ".join(plan))
            mod = lib_module(cfg, inline=tuple(plan))
        n = analyse(mod, run, cfg, skip=set(plan))
        per[cfg] = {"checked_add_functions": n, "helpers_inlined": plan}
        run.floor("functions using the checked add (%s)" % cfg, n, 2)
    controls(run)
    run.coverage.update({"configurations": per,
                         "R3": "the put writes exactly width(value) bytes: this is C01's length-agreement and footprint clauses (E1) for varintTaggedPut64 / varintExternalPut",
                         "not_decided": "nothing else: the stored value is the intrinsic's sum by R1, so 'exact sum' is structural"})
    return run.finish(
        "Each function that performs the checked signed add is matched against the decode / checked-add / measure / conditional-put shape: "
        "the measured value and the stored value must both be the intrinsic's sum; the put must be dominated by the no-overflow edge and by "
        "the strict comparison newWidth > oldWidth (growth only behind the force flag); the overflow edge must return 0 and reach no write "
        "through the varint pointer.")
