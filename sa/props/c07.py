"""C07 - float codec (three range/table clauses only).  DESIGN 4/C07.
 T1 (E-TABLE) the decision table of varintFloatEncodeAuto is consistent with the published error bounds: for every interval of the
    requested max_relative_error that maps to a lossy precision P, 2^-mantissaBits(P) <= the interval's infimum
 T2 (E-RANGE) truncateMantissa(m, 53, b) for m in [2^52, 2^53) and b in {23, 10, 4}: the rounded result fits the b-bit field that
    packBits keeps (a rounding carry out of the field decodes as a different number)
 T3 (E-RANGE) the common-exponent delta (exponent - min_exp), with exponents of normal doubles in [-1022, 1023], fits the byte it
    is stored in, or is guarded by a range test
 T5 (E-DOM)   the base exponent subtracted in that delta is only ever taken from elements that pass the same flag-array test that
    guards the delta store (scan set = stored set); other shapes of the scan (select form, helper) are not judged
Not decided: bit-exactness of FULL mode, the special-value escape, the error bound itself."""
import os
from ..report import Run, Finding, rel
from ..common import lib_module, configs_for, need_fn
from ..build import AnalysisBroken
from ..ival import Intervals
from ..ir import type_bits

PROP = "C07"
EXP_RANGE = (-1022, 1023)       # unbiased exponent of a normal IEEE-754 double


def loc(i): return "%s:%s" % (rel(i.d.get("file", i.fn.file)), i.d.get("line", "?"))


def decision_table(fn, argk):
    """walk the fcmp chain on parameter argk: [(lo, hi, precision constant)] with hi exclusive"""
    out = []
    def value_at(b, via):
        # the precision selected when control reaches the call/store: follow phis backwards from the end
        return None
    # symbolic walk: state = (block, lo, hi)
    call = [i for i in fn.calls() if i.get("callee") == "varintFloatEncode"]
    if len(call) != 1: raise AnalysisBroken("varintFloatEncodeAuto: call to varintFloatEncode not found")
    pv = call[0].ops[3]
    def resolve(o, trail):
        """value of operand o given the block trail (list of block ids walked)"""
        if o["k"] == "int": return int(o["v"])
        if o["k"] != "inst": return None
        i = fn.imap[o["v"]]
        if i.op != "phi": return None
        for inc in i["incoming"]:
            # the incoming edge taken is the last occurrence of (pred -> phi block) in the trail
            for k in range(len(trail) - 1, 0, -1):
                if trail[k] == i.block.id and trail[k - 1] == inc["b"]: return resolve(inc["v"], trail[:k])
        return None
    def walk(b, lo, hi, trail):
        if trail.count(b.id) >= 2: raise AnalysisBroken("varintFloatEncodeAuto: the precision is chosen in a loop (e.g. a scan over a threshold table), not by a chain of comparisons this rule can read")
        trail = trail + [b.id]
        if call[0].block is b:
            out.append((lo, hi, resolve(pv, trail))); return
        t = b.term
        if t.op == "br" and len(t.ops) == 3 and t.ops[0]["k"] == "inst":
            c = fn.imap[t.ops[0]["v"]]
            if c.op == "fcmp" and c.ops[0]["k"] == "arg" and c.ops[0]["v"] == argk and c.ops[1]["k"] == "fp" and c["pred"] in ("olt", "ult", "ole", "ule"):
                k = float(c.ops[1]["v"])
                walk(fn.bmap[t.ops[2]["v"]], lo, min(hi, k), trail)       # true: err < k
                walk(fn.bmap[t.ops[1]["v"]], max(lo, k), hi, trail)
                return
            # a branch that does not concern the error (e.g. selected_precision != NULL): both ways, same interval
            for s in b.succs: walk(s, lo, hi, trail)
            return
        for s in b.succs: walk(s, lo, hi, trail)
    walk(fn.entry, 0.0, float("inf"), [])
    seen = set(); res = []
    for r in out:
        if r[0] < r[1] and r not in seen: seen.add(r); res.append(r)
    return sorted(res)


def mantissa_bits(mod):
    fn = need_fn(mod, "varintFloatPrecisionMantissaBits")
    tab = {}
    for b in fn.blocks:
        t = b.term
        if t.op == "switch":
            for c in t["cases"]:
                # the case block returns a constant (directly or through the return phi)
                blk = fn.bmap[c["b"]]
                v = None
                for r in fn.rets():
                    rv = r.ops[0]
                    if rv["k"] == "inst" and fn.imap[rv["v"]].op == "phi":
                        for inc in fn.imap[rv["v"]]["incoming"]:
                            if inc["b"] == blk.id and inc["v"]["k"] == "int": v = int(inc["v"]["v"])
                    elif rv["k"] == "int" and r.block is blk: v = int(rv["v"])
                if v is not None: tab[int(c["v"])] = v
    if len(tab) < 4:
        # not a switch (a lookup table, an if-chain): the class table of the function, whatever its form (E1)
        from .. import e1
        try:
            cls = e1.table(mod, fn.name, input_arg=0, dst_arg=-1, input_bits=32)
            tab = {}
            for (lo, hi, ret, _st) in cls:
                r = e1.norm(ret, lo, hi) if ret is not None else None
                if r is None or not e1.is_c(r): continue
                if hi - lo < 64:
                    for x in range(lo, hi + 1): tab[x] = r[1]
        except (e1.Unsupported, RecursionError) as ex:
            raise AnalysisBroken("varintFloatPrecisionMantissaBits: table not extracted (%s)" % ex)
    if len(tab) < 4: raise AnalysisBroken("varintFloatPrecisionMantissaBits: table not extracted (%s)" % tab)
    return tab


def analyse(mod, run, label):
    enum = mod.enums.get("varintFloatPrecision") or {}
    names = {int(v): k for k, v in enum.items()}
    full = [v for v, k in names.items() if k.endswith("_FULL")]
    mb = mantissa_bits(mod)
    auto = need_fn(mod, "varintFloatEncodeAuto")
    ek = auto.param_index("max_relative_error")
    if ek is None: raise AnalysisBroken("varintFloatEncodeAuto: parameter max_relative_error not found")
    tab = decision_table(auto, ek)
    if len(tab) < 3: raise AnalysisBroken("varintFloatEncodeAuto: decision table has %d rows" % len(tab))
    for lo, hi, p in tab:
        if p is None: raise AnalysisBroken("varintFloatEncodeAuto: precision for [%g, %g) not resolved" % (lo, hi))
        if p in full or mb.get(p) == 52:
            run.ok("T1-threshold-consistent", {"requested_error_in": [lo, hi], "precision": names.get(p, p), "bound": 0.0}); continue
        bound = 2.0 ** (-mb[p])
        run.check(bound <= lo, "T1-threshold-consistent", {"requested_error_in": [lo, hi], "precision": names.get(p, p), "mantissa_bits": mb[p], "published_bound": bound},
                  Finding("T1-auto-precision-too-coarse", "varintFloatEncodeAuto", names.get(p, str(p)), "interval", "a requested relative error in [%g, %g) selects %s, whose published bound 2^-%d = %.3g is larger than requests at the low end of that interval (e.g. %g): the reconstruction error can exceed what the caller asked for" % (
                      lo, hi, names.get(p, p), mb[p], bound, lo if lo > 0 else hi / 2), loc="src/varintFloat.c", quant="%g" % lo))
    # ---- T2 ----
    tm = need_fn(mod, "truncateMantissa")
    for p, bits in sorted(mb.items()):
        if bits >= 52: continue
        iv = Intervals(tm, {1: 53, 2: bits})
        iv.arg_ranges = {0: (1 << 52, (1 << 53) - 1)}
        r = None
        dead = iv.dead_edges(); live = set(); st = [tm.entry.id]
        while st:
            x = st.pop()
            if x in live: continue
            live.add(x)
            for s2 in tm.bmap[x].succs:
                if (x, s2.id) not in dead: st.append(s2.id)
        for rr in tm.rets():
            if rr.block.id not in live: continue
            v = rr.ops[0]
            cands = [(v, rr.block.id)]
            if v["k"] == "inst" and tm.imap[v["v"]].op == "phi" and tm.imap[v["v"]].block is rr.block:
                cands = [(inc["v"], inc["b"]) for inc in tm.imap[v["v"]]["incoming"] if inc["b"] in live and (inc["b"], rr.block.id) not in dead]
            for c, at in cands:
                # the value as refined by the branches that dominate the block it leaves from (the clamp may be an if/return)
                a = iv.ival_at(c, tm.bmap[at])[0]
                if at != rr.block.id: a = iv.ival_on_edge(c, tm.bmap[at], rr.block)      # ... and by the branch that sends it to the return block
                r = a if r is None else (min(r[0], a[0]), max(r[1], a[1]))
        run.check(r is not None and r[1] <= (1 << bits) - 1, "T2-rounded-mantissa-fits-field", {"to_bits": bits, "result_range": [r[0], r[1]] if r else None},
                  Finding("T2-rounding-carry-lost", "truncateMantissa", "%d-bit" % bits, "range", "truncateMantissa(m, 53, %d) ranges over [%s, %s] for a normal mantissa; the field keeps %d bits (max %d): a mantissa that rounds up to 2^%d is stored as 0 and decodes as a different number" % (
                      bits, r and r[0], r and r[1], bits, (1 << bits) - 1, bits), loc="src/varintFloat.c", quant=str(bits)))
    # ---- T3 ----
    enc = need_fn(mod, "varintFloatEncode"); enc.dom()
    n3 = 0
    for i in enc.insts():
        if i.op != "trunc" or i["t"] != "i8" or i.ops[0]["k"] != "inst": continue
        s = enc.imap[i.ops[0]["v"]]
        if s.op != "sub": continue
        def from_i16(o, depth=0):
            if o["k"] != "inst" or depth > 4: return False
            j = enc.imap[o["v"]]
            if j.op in ("sext", "zext"): return from_i16(j.ops[0], depth + 1)
            return j["t"] == "i16" and j.op in ("load", "phi", "select")
        if not (from_i16(s.ops[0]) and from_i16(s.ops[1])): continue
        n3 += 1
        rng = (EXP_RANGE[0] - EXP_RANGE[1], EXP_RANGE[1] - EXP_RANGE[0])
        # a dominating guard that bounds an exponent difference by <= 255
        guarded = False
        for d in enc.dom_chain(i.block.id):
            blk = enc.bmap[d]
            if len(blk.preds) != 1: continue
            t = blk.preds[0].term
            if t.op == "br" and len(t.ops) == 3 and t.ops[0]["k"] == "inst":
                c = enc.imap[t.ops[0]["v"]]
                if c.op == "icmp" and c.ops[1]["k"] == "int" and int(c.ops[1]["sv"]) <= 255 and c.ops[0]["k"] == "inst" and enc.imap[c.ops[0]["v"]].op == "sub": guarded = True
        run.check(guarded, "T3-exponent-delta-fits-byte", {"at": loc(i)},
                  Finding("T3-exponent-delta-truncated", "varintFloatEncode", "exp-delta", "trunc", "the exponent delta at %s ranges over [0, %d] for normal doubles but is stored in one byte without a range test: arrays mixing magnitudes more than 2^255 apart decode to different values" % (loc(i), rng[1]), loc=loc(i)))
        # ---- T5: the base exponent is scanned over the same elements whose deltas are stored ----
        def root_of(o, depth=0):
            while o["k"] == "inst" and depth < 8:
                j = enc.imap[o["v"]]
                if j.op in ("getelementptr", "bitcast"): o = j.ops[0]; depth += 1
                else: break
            return o.get("v") if o["k"] == "inst" else None
        def flag_root(o, depth=0):          # the array a branch condition tests one element of against zero, or None
            if o["k"] != "inst" or depth > 6: return None
            j = enc.imap[o["v"]]
            if j.op == "icmp" and j.ops[1]["k"] == "int" and int(j.ops[1]["sv"]) == 0: return flag_root(j.ops[0], depth + 1)
            if j.op in ("trunc", "zext", "sext") or (j.op == "and" and j.ops[1]["k"] == "int"): return flag_root(j.ops[0], depth + 1)
            if j.op == "load" and j.ops[0]["k"] == "inst" and enc.imap[j.ops[0]["v"]].op == "getelementptr": return root_of(j.ops[0])
            return None
        def flag_tests_above(bid):
            out = set()
            for d in enc.dom_chain(bid):
                blk = enc.bmap[d]
                if len(blk.preds) != 1: continue
                t = blk.preds[0].term
                if t.op == "br" and len(t.ops) == 3:
                    r = flag_root(t.ops[0])
                    if r is not None: out.add(r)
            return out
        store_flags = flag_tests_above(i.block.id)
        leaves = []; opaque = False; seen = set(); work = [s.ops[1]]
        while work:
            o = work.pop()
            if o["k"] == "int": continue
            if o["k"] != "inst": opaque = True; continue
            if o["v"] in seen: continue
            seen.add(o["v"]); j = enc.imap[o["v"]]
            if j.op in ("sext", "zext"): work.append(j.ops[0])
            elif j.op == "phi": work.extend(x["v"] for x in j["incoming"])
            elif j.op == "load" and j["t"] == "i16" and j.ops[0]["k"] == "inst" and enc.imap[j.ops[0]["v"]].op == "getelementptr": leaves.append(j)
            else: opaque = True
        if store_flags and leaves and not opaque:
            bad = [l for l in leaves if not (flag_tests_above(l.block.id) & store_flags)]
            run.check(not bad, "T5-base-scanned-over-stored-elements", {"delta_store": loc(i), "base_candidates": [loc(l) for l in leaves], "flag_array_tests": len(store_flags)},
                      Finding("T5-base-exponent-scan-set-differs", "varintFloatEncode", "exp-base", "scan", "the delta store at %s is only reached for elements whose flag byte tests zero, but the base exponent it subtracts is also taken from an element at %s without that test: a flagged element's placeholder exponent becomes the base and the one-byte deltas of the stored elements no longer describe their exponents" % (loc(i), loc(bad[0]) if bad else "?"), loc=loc(bad[0]) if bad else loc(i)))
    if n3 < 1: raise AnalysisBroken("varintFloatEncode: common-exponent delta store not found")
    # ---- T4: varintFloatCompose assembles a value for every exponent of a normal double ----
    comp = need_fn(mod, "varintFloatCompose")
    ek = comp.param_index("exponent"); mk = comp.param_index("mantissa")
    if ek is None or mk is None: raise AnalysisBroken("varintFloatCompose: parameters exponent / mantissa not found")
    ebits = type_bits(comp.params[ek]["t"]) or 16
    asm = [b for b in comp.blocks if any(i.op == "shl" and i.ops[1]["k"] == "int" and int(i.ops[1]["v"]) == 52 and i.ops[0]["k"] == "inst" for i in b.insts)]
    if len(asm) != 1: raise AnalysisBroken("varintFloatCompose: the block that shifts the biased exponent into place was not found")
    A = asm[0]
    comp.dom()
    def other_returns(lo, hi):
        """can a return be reached without passing the assembling block, for exponents in [lo, hi] (signed) and a non-zero mantissa?"""
        iv = Intervals(comp, {mk: 1}, None)
        iv.arg_ranges = {ek: (lo, hi) if lo >= 0 else (lo + (1 << ebits), hi + (1 << ebits))}
        dead = iv.dead_edges(); seen = set(); work = [comp.entry]; hit = False
        while work:
            b = work.pop()
            if b.id in seen or b.id == A.id: continue
            seen.add(b.id)
            if b.term.op == "ret": hit = True; break
            for sx in b.succs:
                if (b.id, sx.id) not in dead: work.append(sx)
        return [1] if hit else []
    def lost(lo, hi, depth=0):
        o = other_returns(lo, hi)
        if not o: return []
        if lo == hi: return [lo]
        mid = (lo + hi) // 2
        return lost(lo, mid, depth + 1) + lost(mid + 1, hi, depth + 1)
    flushed = lost(-1022, -1) + lost(0, 1023)
    run.check(not flushed, "T4-every-normal-exponent-is-assembled", {"exponents": "[-1022, 1023]", "assembling_block": A.id},
              Finding("T4-normal-exponent-flushed", comp.name, "exponent", "clamp",
                      "varintFloatCompose does not assemble a value for the normal exponent(s) %s (non-zero mantissa): such doubles decode as zero or infinity" % (
                          ", ".join(map(str, flushed[:6])) + (" ..." if len(flushed) > 6 else "")), loc="%s:%s" % (rel(comp.file), comp.line)))
    return len(tab), mb


def run(tier):
    run = Run(PROP, tier, level="other", technique="decision-table extraction (fcmp chain, switch) and interval evaluation of loop-free helpers on LLVM IR")
    per = {}
    for cfg in configs_for(tier):
        n, mb = analyse(lib_module(cfg), run, cfg)
        per[cfg] = {"auto_table_rows": n, "mantissa_bits": {str(k): v for k, v in mb.items()}}
    run.coverage.update({"configurations": per, "not_decided": "FULL-mode bit exactness, special-value escape, the relative error bound of the lossy modes for every double (value-level)"})
    return run.finish(
        "T1: the fcmp decision chain of varintFloatEncodeAuto is read as a table error-interval -> precision and compared with 2^-mantissaBits "
        "from the header's switch. T2: truncateMantissa is evaluated over the interval of normal 53-bit mantissas for each lossy width; the "
        "result must fit the field. T3: the common-exponent delta must be range-guarded before it is truncated to a byte. T4: interval evaluation of "
        "varintFloatCompose's clamps over the exponents of normal doubles (bisected down to single exponents where a compare is undecided) shows "
        "that only the assembling path returns.")
