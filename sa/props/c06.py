"""C06 - adaptive encoding is lossless whatever it selects (structural clauses only).  DESIGN 4/C06.
 A1 the header byte, the reported encoding type and the dispatched type are one SSA value; varintAdaptiveEncode dispatches on the
    selector's return value
 A2 the encode and decode dispatch tables have the same cases, each case calls the encoder / decoder of the same codec family, and
    every constant the selector can return is an explicit case of both
 A3 every path of the selector to `return VARINT_ADAPTIVE_BITMAP` implies the bitmap codec's lossless domain:
    fitsInBitmapRange and isSorted and uniqueCount == count   (a bitmap is an ascending duplicate-free set of values < 65536)
 A4 a length-taking sub-decoder is not handed a literal length
Not decided: that each sub-codec round-trips (C02's reason)."""
import os
from ..report import Run, Finding, rel
from ..common import lib_module, configs_for, need_fn, with_helpers_inlined
from ..build import AnalysisBroken
from ..core import World
from ..lin import Lin

PROP = "C06"
ENUM = "varintAdaptiveEncodingType"
# codec family of an encoding type, by the callee that must appear in its case (confirmed by reading src/varintAdaptive.c)
FAMILY = {"VARINT_ADAPTIVE_DELTA": ("varintDeltaEncodeUnsigned", "varintDeltaDecodeUnsigned"), "VARINT_ADAPTIVE_FOR": ("varintFOREncode", "varintFORDecode"),
          "VARINT_ADAPTIVE_PFOR": ("varintPFOREncode", "varintPFORDecode"), "VARINT_ADAPTIVE_DICT": ("varintDictEncode", "varintDictDecodeInto"),
          "VARINT_ADAPTIVE_BITMAP": ("varintBitmapEncode", "varintBitmapDecode"), "VARINT_ADAPTIVE_TAGGED": ("varintTaggedPut64", "varintTaggedGet64")}
BITMAP_DOMAIN = [("field", "fitsInBitmapRange", True), ("field", "isSorted", True), ("eq", "count", "uniqueCount")]
LENGTH_TAKING = {"varintDictDecodeInto": 1, "varintDictDecode": 1, "varintBitmapDecode": 1, "varintTaggedGet": 1, "varintEliasGammaDecodeArray": 1, "varintEliasDeltaDecodeArray": 1}


def loc(i): return "%s:%s" % (rel(i.d.get("file", i.fn.file)), i.d.get("line", "?"))


def strip(fn, o):
    while o["k"] == "inst" and fn.imap[o["v"]].op in ("zext", "sext", "trunc", "bitcast"):
        o = fn.imap[o["v"]].ops[0]
    return o


def same(fn, a, b):
    a, b = strip(fn, a), strip(fn, b)
    return (a["k"], a.get("v")) == (b["k"], b.get("v"))


def dispatch_switch(fn, enum):
    for b in fn.blocks:
        t = b.term
        if t.op == "switch" and len(t["cases"]) >= 4: return t
    raise AnalysisBroken("%s: dispatch switch not found" % fn.name)


def case_callees(fn, sw, mod):
    """case value -> set of callees reachable from that case's block before the blocks merge (approximated by the blocks dominated by
    the case target)"""
    fn.dom(); out = {}
    targets = {}
    for c in sw["cases"]: targets.setdefault(c["b"], []).append(int(c["v"]))
    targets.setdefault(sw["default"], []).append("default")
    for tb0, vals in targets.items():
        cs = set(); tb = tb0
        for _ in range(4):                       # `case X: default:` - an empty case block that just falls through
            blk = fn.bmap[tb]
            if len(blk.insts) == 1 and blk.term.op == "br" and len(blk.term.ops) == 1: tb = blk.term.ops[0]["v"]
            else: break
        for b in fn.blocks:
            if fn.dominates(tb, b.id):
                for i in b.insts:
                    if i.op == "call" and i.get("callee") and not i["callee"].startswith("llvm."): cs.add(i["callee"])
        # an arm that has become a file-local helper: what the helper calls is what the arm calls
        work = [c for c in cs if mod.fn(c) is not None and mod.fn(c).internal and mod.fn(c).blocks]; seen = set()
        while work:
            h = work.pop()
            if h in seen: continue
            seen.add(h)
            for i in mod.fn(h).calls():
                c2 = i.get("callee")
                if not c2 or c2.startswith("llvm."): continue
                cs.add(c2)
                if mod.fn(c2) is not None and mod.fn(c2).internal and mod.fn(c2).blocks: work.append(c2)
        for v in vals: out[v] = cs
    return out


def field_of(fn, mod, addr):
    """name of the varintAdaptiveDataStats member addressed by a GEP"""
    if addr["k"] != "inst": return None
    g = fn.imap[addr["v"]]
    if g.op == "bitcast": return field_of(fn, mod, g.ops[0])
    if g.op != "getelementptr" or "field" not in g.d: return None
    sname = g["field"]["struct"]; di = mod.ditypes.get(sname.split(".", 1)[1] if "." in sname else sname); st = mod.structs.get(sname)
    if di is None or st is None: return None
    off = st["fields"][g["field"]["field"]]["off"]
    for m in di["members"]:
        if m["off"] == off: return m["name"]
    return None


def cond_atom(fn, mod, o, truth):
    """branch condition -> atom ('field', name, bool) | ('eq', f1, f2) | ('cmp', text) | None"""
    o = strip(fn, o)
    if o["k"] != "inst": return None
    i = fn.imap[o["v"]]
    if i.op == "xor" and i.ops[1]["k"] == "int": return cond_atom(fn, mod, i.ops[0], not truth)
    def low_bit(x):
        # `flag & 1` of a bool field is the flag
        x = strip(fn, x)
        while x["k"] == "inst" and fn.imap[x["v"]].op == "and" and fn.imap[x["v"]].ops[1]["k"] == "int" and int(fn.imap[x["v"]].ops[1]["v"]) == 1:
            x = strip(fn, fn.imap[x["v"]].ops[0])
        return x
    if i.op == "and" and i.ops[1]["k"] == "int" and int(i.ops[1]["v"]) == 1: return cond_atom(fn, mod, i.ops[0], truth)
    if i.op == "load":
        f = field_of(fn, mod, i.ops[0])
        return ("field", f, truth) if f else ("unknown", i.id)
    if i.op == "icmp":
        a, b = strip(fn, i.ops[0]), strip(fn, i.ops[1])
        if b["k"] == "int" and int(b["v"]) == 0: a = low_bit(a)
        fa = field_of(fn, mod, fn.imap[a["v"]].ops[0]) if a["k"] == "inst" and fn.imap[a["v"]].op == "load" else None
        fb = field_of(fn, mod, fn.imap[b["v"]].ops[0]) if b["k"] == "inst" and fn.imap[b["v"]].op == "load" else None
        p = i["pred"]
        if fa and b["k"] == "int" and int(b["v"]) == 0 and p in ("ne", "eq"): return ("field", fa, (p == "ne") == truth)
        if fa and fb and p in ("eq", "ne"):
            if (p == "eq") == truth: return ("eq",) + tuple(sorted((fa, fb)))
            return ("ne",) + tuple(sorted((fa, fb)))
        return ("cmp", "%s %s %s" % (fa or a.get("v"), p if truth else "!" + p, fb or b.get("v")))
    if i.op == "fcmp":
        a = strip(fn, i.ops[0])
        fa = field_of(fn, mod, fn.imap[a["v"]].ops[0]) if a["k"] == "inst" and fn.imap[a["v"]].op == "load" else None
        return ("cmp", "%s f%s %s" % (fa, i["pred"] if truth else "!" + i["pred"], i.ops[1].get("v")))
    return ("unknown", i.id)                     # a test this reader does not understand: the path may establish more than its atoms say


def paths_to_ret(fn, mod, value):
    """all acyclic paths from the entry to a `ret <value>`: list of atom lists"""
    out = []
    def ret_matches(b, via):
        t = b.term
        if t.op != "ret" or not t.ops: return False
        v = t.ops[0]
        if v["k"] == "inst" and fn.imap[v["v"]].op == "phi" and fn.imap[v["v"]].block is b:
            for inc in fn.imap[v["v"]]["incoming"]:
                if inc["b"] == via: v = inc["v"]
        return v["k"] == "int" and int(v["v"]) == value
    def resolve(o, env, truth=True, d=0):
        """a branch condition that is (a cast / != 0 test / negation of) a boolean phi whose value on this path is known: returns
        ('const', bool) | ('cond', operand, truth) | None"""
        if o["k"] == "int": return ("const", bool(int(o["v"])) == truth)
        if o["k"] != "inst" or d > 8: return None
        x = fn.imap[o["v"]]
        if x.id in env:
            v = env[x.id]
            return resolve(v, env, truth, d + 1) or ("cond", v, truth)
        if x.op in ("zext", "trunc", "sext", "freeze"): return resolve(x.ops[0], env, truth, d + 1)
        if x.op == "xor" and x.ops[1]["k"] == "int" and int(x.ops[1]["v"]) & 1: return resolve(x.ops[0], env, not truth, d + 1)
        if x.op == "icmp" and x.ops[1]["k"] == "int" and int(x.ops[1]["v"]) == 0 and x["pred"] in ("ne", "eq") and x.ops[0]["k"] == "inst":
            inner = fn.imap[x.ops[0]["v"]]
            if inner.op in ("zext", "phi", "trunc", "xor") or inner.id in env: return resolve(x.ops[0], env, truth if x["pred"] == "ne" else not truth, d + 1)
        return None
    def dfs(b, via, atoms, seen, env):
        if b.id in seen or len(out) > 500: return
        if via is not None:
            # values of this block's phis on the edge we came in by (a bool built with && / || is such a phi)
            env = dict(env)
            for i in b.insts:
                if i.op != "phi": break
                for inc in i["incoming"]:
                    if inc["b"] == via: env[i.id] = inc["v"]
        if b.term.op == "ret":
            if ret_matches(b, via): out.append(list(atoms))
            return
        t = b.term
        if t.op == "br" and len(t.ops) == 3:
            for truth, tgt in ((True, t.ops[2]["v"]), (False, t.ops[1]["v"])):
                r = resolve(t.ops[0], env, truth)
                if r is not None and r[0] == "const":
                    if not r[1]: continue                          # this edge cannot be taken on this path
                    dfs(fn.bmap[tgt], b.id, atoms, seen | {b.id}, env); continue
                a = cond_atom(fn, mod, r[1], r[2]) if r is not None else cond_atom(fn, mod, t.ops[0], truth)
                dfs(fn.bmap[tgt], b.id, atoms + ([a] if a else []), seen | {b.id}, env)
        else:
            for sx in b.succs: dfs(sx, b.id, atoms, seen | {b.id}, env)
    dfs(fn.entry, None, [], set(), {})
    return out


def analyse(mod, run, label):
    enum = mod.enums.get(ENUM)
    if not enum: raise AnalysisBroken("enum %s not in debug info" % ENUM)
    ev = {n: int(v) for n, v in enum.items()}
    enc = need_fn(mod, "varintAdaptiveEncodeWith"); dec = need_fn(mod, "varintAdaptiveDecode"); sel = need_fn(mod, "varintAdaptiveSelectEncoding"); top = need_fn(mod, "varintAdaptiveEncode")
    w = World(mod); fi = w.fi(enc).prepare()
    # ---- A1 ----
    sw = dispatch_switch(enc, enum)
    tparam = enc.param_index("encodingType")
    if tparam is None: raise AnalysisBroken("varintAdaptiveEncodeWith: parameter encodingType not found")
    T = {"k": "arg", "v": tparam}
    hdr = [i for i in enc.insts() if i.op == "store" and fi.ptr(i.ops[1]) == (("arg", 0), fi.lin({"k": "int", "v": "0", "sv": "0", "bits": 64, "t": "i64"}))]
    run.check(bool(hdr) and all(same(enc, i.ops[0], T) for i in hdr), "A1-header-byte-is-type", {"stores_to_dst0": len(hdr)},
              Finding("A1-header-byte-differs", enc.name, "dst[0]", "store", "the byte stored at dst[0] is not the encodingType value that is dispatched on", loc=loc(hdr[0]) if hdr else None))
    run.check(same(enc, sw.ops[0], T), "A1-dispatch-on-type", None, Finding("A1-dispatch-differs", enc.name, "switch", "operand", "the encoder dispatches on a value other than encodingType", loc=loc(sw)))
    mparam = enc.param_index("meta")
    mst = [i for i in enc.insts() if i.op == "store" and mparam is not None and fi.ptr(i.ops[1])[0] == ("arg", mparam) and i["size"] == 4 and same(enc, i.ops[0], T)]
    if not mst and mparam is not None:
        # the metadata may be filled by a file-local helper that is handed the type: the helper must store that argument into encodingType
        for c in enc.calls():
            h = mod.fn(c.get("callee") or "")
            if h is None or not h.internal or not h.blocks: continue
            if not any(c.ops[k]["t"].endswith("*") and fi.ptr(c.ops[k])[0] == ("arg", mparam) for k in range(c["nargs"])): continue
            for j in range(c["nargs"]):
                if c.ops[j]["t"].endswith("*") or not same(enc, c.ops[j], T): continue
                for st in h.insts():
                    if st.op == "store" and field_of(h, mod, st.ops[1]) == "encodingType" and same(h, st.ops[0], {"k": "arg", "v": j}): mst.append(st)
    run.check(bool(mst), "A1-reported-type-is-type", None, Finding("A1-reported-type-differs", enc.name, "meta->encodingType", "store", "meta->encodingType is not stored the dispatched encodingType"))
    calls = [i for i in top.calls() if i.get("callee") == "varintAdaptiveEncodeWith"]; sels = [i for i in top.calls() if i.get("callee") == "varintAdaptiveSelectEncoding"]
    okt = len(calls) == 1 and len(sels) == 1 and same(top, calls[0].ops[3], {"k": "inst", "v": sels[0].id})
    run.check(okt, "A1-auto-dispatch-on-selection", None, Finding("A1-auto-dispatch-differs", top.name, "encodingType", "argument", "varintAdaptiveEncode does not pass the selector's result to varintAdaptiveEncodeWith"))
    # ---- A2 ----
    dsw = dispatch_switch(dec, enum)
    ecases = {int(c["v"]) for c in sw["cases"]}; dcases = {int(c["v"]) for c in dsw["cases"]}
    ec = case_callees(enc, sw, mod); dc = case_callees(dec, dsw, mod)
    selret = set()
    for r in sel.rets():
        v = r.ops[0]
        vals = [inc["v"] for inc in sel.imap[v["v"]]["incoming"]] if v["k"] == "inst" and sel.imap[v["v"]].op == "phi" else [v]
        for x in vals:
            if x["k"] != "int": raise AnalysisBroken("selector returns a non-constant")
            selret.add(int(x["v"]))
    for name, val in sorted(ev.items(), key=lambda kv: kv[1]):
        if val not in selret and val not in ecases and val not in dcases: continue
        fam = FAMILY.get(name)
        e_calls = ec.get(val, ec.get("default", set())); d_calls = dc.get(val, dc.get("default", set()))
        explicit = (val in ecases or name == "VARINT_ADAPTIVE_TAGGED" and True) and (val in dcases or name == "VARINT_ADAPTIVE_TAGGED")
        if val in selret:
            # explicit on both sides, or handled by a default arm that calls this type's own codec (`case X: default:` and plain `default:`
            # are the same program)
            by_default = bool(fam) and (val in ecases or fam[0] in ec.get("default", set())) and (val in dcases or fam[1] in dc.get("default", set()))
            run.check((val in ecases and val in dcases) or by_default, "A2-selectable-type-has-explicit-cases", {"type": name, "value": val},
                      Finding("A2-selectable-type-without-case", "varintAdaptiveEncodeWith/Decode", name, "case", "%s can be selected but is not an explicit case of %s" % (name, "the encoder" if val not in ecases else "the decoder")))
        if fam:
            run.check(fam[0] in e_calls and fam[1] in d_calls, "A2-same-codec-both-ways", {"type": name, "encoder_calls": sorted(e_calls)[:6], "decoder_calls": sorted(d_calls)[:6]},
                      Finding("A2-codec-mismatch", "varintAdaptiveEncodeWith/Decode", name, "family", "%s: encoder case calls %s, decoder case calls %s; expected %s / %s" % (name, sorted(e_calls), sorted(d_calls), fam[0], fam[1])))
    run.check(ecases == dcases, "A2-case-sets-equal", {"encode": sorted(ecases), "decode": sorted(dcases)},
              Finding("A2-case-sets-differ", "varintAdaptiveEncodeWith/Decode", "switch", "cases", "encoder cases %s, decoder cases %s" % (sorted(ecases), sorted(dcases))))
    # ---- A3 ----
    paths = paths_to_ret(sel, mod, ev["VARINT_ADAPTIVE_BITMAP"])
    if not paths: run.observe("selector never returns BITMAP")
    # uniqueCount is exact only below the sampling threshold of varintAdaptiveCountUnique: the path must also bound count by it
    cu = need_fn(mod, "varintAdaptiveCountUnique"); thr = None
    for i in cu.insts():
        if i.op == "icmp" and i.ops[0]["k"] == "arg" and i.ops[1]["k"] == "int" and int(i.ops[1]["v"]) > 1 and i["pred"] in ("ugt", "ule", "uge", "ult"):
            thr = int(i.ops[1]["v"]) + (1 if i["pred"] in ("ugt", "ule") else 0); break
    if thr is None: raise AnalysisBroken("varintAdaptiveCountUnique: sampling threshold not found")
    import re as _re
    def judged(paths_):
        out_ = []
        for atoms in paths_:
            missing = [a for a in BITMAP_DOMAIN if a not in atoms]
            bounded = False
            for a in atoms:
                if a[0] == "cmp":
                    m = _re.match(r"count (ult|ule|!uge|!ugt) (\d+)$", a[1])
                    if m and int(m.group(2)) + (1 if m.group(1) in ("ule", "!ugt") else 0) <= thr: bounded = True
            if not bounded: missing.append(("field", "count < %d (exact unique count)" % thr, True))
            out_.append((atoms, missing))
        return out_
    def undecided(atoms, missing): return bool(missing) and any(a[0] == "unknown" for a in atoms)
    verdicts = judged(paths)
    if any(m for _, m in verdicts) and label in ("ndebug", "asserts", "native"):
        # the predicates may have been given names (static helpers taking the statistics): read the decision tree with those inlined;
        # that reading is used only if it establishes the domain on every path
        m2, sel2 = with_helpers_inlined(mod, sel, label)
        if m2 is not None:
            v2 = judged(paths_to_ret(sel2, m2, ev["VARINT_ADAPTIVE_BITMAP"]))
            if v2 and not any(m for _, m in v2):
                verdicts = v2; run.observe("A3: selector read with its file-local predicate helpers inlined")
    for k, (atoms, missing) in enumerate(verdicts):
        if undecided(atoms, missing):
            # the path tests something this reader does not understand; it may establish more than its atoms say
            run.defer_broken("A3: a path of %s to BITMAP tests something this reader does not understand (instruction %s); what it establishes is undecided" % (sel.name, next(a[1] for a in atoms if a[0] == "unknown")))
            continue
        def fmt(a): return "%s is %s" % (a[1], a[2]) if a[0] == "field" else ("(test %%%s)" % a[1] if a[0] == "unknown" else "%s == %s" % (a[1], a[2]))
        run.check(not missing, "A3-bitmap-selection-within-domain", {"path": [fmt(a) if a[0] != "cmp" else a[1] for a in atoms]},
                  Finding("A3-bitmap-selected-outside-domain", sel.name, "BITMAP", "path-" + "+".join(sorted(fmt(a) for a in atoms if a[0] == "field" and a[2])),
                          "a path to `return VARINT_ADAPTIVE_BITMAP` does not establish %s: the bitmap codec stores an ascending duplicate-free set, so such input is decoded reordered or deduplicated" % ", ".join(fmt(a) for a in missing)))
    # ---- A5: what the statistics call "fits in bitmap range" is inside what the encoder's BITMAP arm actually stores ----
    ana = need_fn(mod, "varintAdaptiveAnalyze")
    def excl_bound(fn, ci, truth=True):
        """icmp (x ult/ule C) -> exclusive upper bound on x when it holds"""
        if ci.op != "icmp" or ci.ops[1]["k"] != "int": return None
        c = int(ci.ops[1]["v"]); p = ci["pred"]
        if not truth: return None
        return {"ult": c, "ule": c + 1, "slt": c, "sle": c + 1}.get(p)
    fits = []
    for i in ana.insts():
        if i.op == "store" and field_of(ana, mod, i.ops[1]) == "fitsInBitmapRange":
            v = strip(ana, i.ops[0])
            if v["k"] == "int":
                if int(v["v"]) != 0: fits.append((i, None))
                continue
            ci = ana.imap[v["v"]] if v["k"] == "inst" else None
            x = strip(ana, ci.ops[0]) if ci is not None and ci.op == "icmp" else None
            isMax = x is not None and x["k"] == "inst" and ana.imap[x["v"]].op == "load" and field_of(ana, mod, ana.imap[x["v"]].ops[0]) == "maxValue"
            if not isMax and x is not None and x["k"] == "inst":
                # the maximum kept in a local and stored to stats->maxValue as well: the value compared is the value reported
                isMax = any(j.op == "store" and field_of(ana, mod, j.ops[1]) == "maxValue" and strip(ana, j.ops[0]).get("v") == x["v"] and strip(ana, j.ops[0])["k"] == "inst" for j in ana.insts())
                if not isMax and ana.imap[x["v"]].op == "phi":
                    # the running maximum as a merge: every value it merges is one that is stored to stats->maxValue at that point
                    stored5 = {strip(ana, j.ops[0])["v"] for j in ana.insts() if j.op == "store" and field_of(ana, mod, j.ops[1]) == "maxValue" and strip(ana, j.ops[0])["k"] == "inst"}
                    leaves5 = set(); seen5 = set(); st5 = [x]
                    while st5:
                        o5 = strip(ana, st5.pop())
                        if o5["k"] != "inst": leaves5.add(None); continue
                        if o5["v"] in seen5: continue
                        seen5.add(o5["v"])
                        if o5["v"] in stored5: leaves5.add(o5["v"]); continue
                        y5 = ana.imap[o5["v"]]
                        if y5.op == "phi": st5 += [c_["v"] for c_ in y5["incoming"]]
                        else: leaves5.add(None)
                    isMax = bool(leaves5) and None not in leaves5
            fits.append((i, excl_bound(ana, ci) if isMax else None))
    if not fits: raise AnalysisBroken("A5: no store to fitsInBitmapRange in varintAdaptiveAnalyze")
    # the BITMAP arm: every varintBitmapAdd is guarded by value < K2, and its argument is that value truncated to 16 bits
    adds = [i for i in enc.calls() if i.get("callee") == "varintBitmapAdd"]
    if not adds and label in ("ndebug", "asserts", "native"):
        # the arm may have become a file-local helper: look at the encoder with its helpers inlined
        m5, enc5 = with_helpers_inlined(mod, enc, label)
        if m5 is not None and any(i.get("callee") == "varintBitmapAdd" for i in enc5.calls()):
            enc = enc5; fi = World(m5).fi(enc).prepare(); adds = [i for i in enc.calls() if i.get("callee") == "varintBitmapAdd"]
    if not adds: raise AnalysisBroken("A5: the encoder's BITMAP arm does not call varintBitmapAdd")
    enc.dom(); kept = []
    def canon(o):
        o = strip(enc, o)
        if o["k"] == "inst" and enc.imap[o["v"]].op == "load":
            r = fi.same_value(enc.imap[o["v"]])
            return ("ld", r if r is not None else o["v"])
        return (o["k"], o.get("v"))
    def akey(o, d=0):
        if o["k"] != "inst" or d > 6: return (o["k"], o.get("v"))
        x = enc.imap[o["v"]]
        if x.op in ("getelementptr", "bitcast", "zext", "sext"): return (x.op, x.d.get("coff")) + tuple(akey(y, d + 1) for y in x.ops)
        return ("v", x.id)
    def same_val(a, b):
        """same SSA value, or two loads of the same address with nothing that writes memory between them (guard block -> its sole successor)"""
        if canon(a) == canon(b): return True
        a, b = strip(enc, a), strip(enc, b)
        if not (a["k"] == b["k"] == "inst"): return False
        la, lb = enc.imap[a["v"]], enc.imap[b["v"]]
        if la.op != "load" or lb.op != "load" or akey(la.ops[0]) != akey(lb.ops[0]): return False
        if [pb.id for pb in lb.block.preds] != [la.block.id]: return False
        between = la.block.insts[la.block.insts.index(la) + 1:] + lb.block.insts[:lb.block.insts.index(lb)]
        return not any(x.op in ("store", "call") for x in between)
    for a in adds:
        arg = a.ops[1]; src = strip(enc, arg)            # value before truncation
        k2 = None
        for b in enc.blocks:
            t = b.term
            if t.op == "br" and len(t.ops) == 3 and t.ops[0]["k"] == "inst":
                ci = enc.imap[t.ops[0]["v"]]
                if ci.op == "icmp" and same_val(ci.ops[0], src) and enc.dominates(t.ops[2]["v"], a.block.id) and [pb.id for pb in enc.bmap[t.ops[2]["v"]].preds] == [b.id]:
                    e = excl_bound(enc, ci)
                    if e is not None: k2 = e if k2 is None else min(k2, e)
        kept.append(min(k2, 1 << 16) if k2 is not None else None)
    for st, k1 in fits:
        okk = k1 is not None and all(k is not None and k1 <= k for k in kept)
        run.check(okk, "A5-bitmap-range-flag-within-what-is-stored", {"flag_means_max_below": k1, "encoder_keeps_below": kept},
                  Finding("A5-bitmap-range-flag-too-wide", ana.name, "fitsInBitmapRange", "store",
                          "fitsInBitmapRange is set for maxValue < %s but the encoder's BITMAP arm only stores values below %s: a selected array can contain a value the bitmap silently drops" % (k1, kept), loc=loc(st)))
    # ---- A6: in the patched frame-of-reference codec (selectable by the analysis) the exception marker is not a storable offset ----
    # marker(w) is the all-ones pattern of the width; normal values have offsets 0 .. thresholdValue - min.  The width must therefore be
    # measured for a value strictly greater than that largest offset (or the encoder must divert offset == marker to the exceptions).
    from .c12 import measured_values
    pf = need_fn(mod, "varintPFORComputeThreshold"); pfi = w.fi(pf).prepare()
    mv = measured_values(pf, w)
    if not mv:
        # the public function may only allocate the scratch copy and leave the computation to a file-local core helper
        cores6 = [h_ for h_ in {mod.fn(c_.get("callee") or "") for c_ in pf.calls()} if h_ is not None and h_.internal and h_.blocks and measured_values(h_, w)]
        if len(cores6) == 1: pf = cores6[0]; pfi = w.fi(pf).prepare(); mv = measured_values(pf, w)
    if not mv: raise AnalysisBroken("A6: no width computation in varintPFORComputeThreshold")
    stores = {}
    for i in pf.insts():
        if i.op == "store":
            fl = field_of(pf, mod, i.ops[1])
            if fl in ("thresholdValue", "min") and i.ops[0]["k"] != "int": stores[fl] = i.ops[0]
        elif i.op == "call":
            # a file-local "fill the metadata record" helper stores its arguments
            h6 = mod.fn(i.get("callee") or "")
            if h6 is None or not h6.internal or not h6.blocks or h6 is pf: continue
            for j in h6.insts():
                if j.op != "store": continue
                fl = field_of(h6, mod, j.ops[1])
                hv = strip(h6, j.ops[0])
                if fl in ("thresholdValue", "min") and hv["k"] == "arg" and hv["v"] < i["nargs"] and i.ops[hv["v"]]["k"] != "int": stores[fl] = i.ops[hv["v"]]
    if set(stores) != {"thresholdValue", "min"}: raise AnalysisBroken("A6: stores of thresholdValue / min not found in varintPFORComputeThreshold")
    largest = pfi.lin(stores["thresholdValue"]) - pfi.lin(stores["min"])
    pe = need_fn(mod, "varintPFOREncode")
    diverts = any(i.op == "icmp" and i["pred"] in ("eq", "ne") and any(o["k"] == "inst" and pe.imap[o["v"]].op == "load" and field_of(pe, mod, pe.imap[o["v"]].ops[0]) == "exceptionMarker" for o in i.ops) for i in pe.insts())
    for (val, wres, site) in [m_[:3] for m_ in mv]:
        d = pfi.lin(val) - largest
        if not d.is_const():
            # `range` and `thresholdValue` adjusted together in one branch: two merges at the same join - compare them edge by edge
            phis6 = [pf.imap[a_[1]] for a_ in d.atoms() if isinstance(a_, tuple) and a_[0] == "i" and pf.imap.get(a_[1]) is not None and pf.imap[a_[1]].op == "phi"]
            if phis6 and len({p_.block.id for p_ in phis6}) == 1 and phis6[0].block.id not in pf.loops():
                ds = []
                for pb in phis6[0].block.preds:
                    d2 = d
                    for p_ in phis6:
                        inc = next((c_ for c_ in p_["incoming"] if c_["b"] == pb.id), None)
                        if inc is not None: d2 = d2.subst(("i", p_.id), pfi.lin(inc["v"]))
                    ds.append(d2)
                if ds and all(x.is_const() for x in ds): d = Lin.const(min(x.c for x in ds))
        okm = (d.is_const() and d.c >= 1) or diverts
        run.check(okm, "A6-pfor-marker-not-a-storable-offset", {"measured": repr(pfi.lin(val)), "largest_offset": repr(largest)},
                  Finding("A6-pfor-marker-collides-with-an-offset", pf.name, "exceptionMarker", "width",
                          "the offset width is measured for %r while normal values have offsets up to %r: when that offset is 2^(8*width)-1 it equals the exception marker and the value is decoded as an exception slot (lossy whenever PFOR is selected)" % (pfi.lin(val), largest), loc=loc(site)))
    # ---- A8: isSorted is the verdict of a scan over every adjacent pair ----
    # (A3 sends only sorted arrays to the set-only BITMAP codec; that is worth what the sortedness scan is worth: a loop that compares
    #  values[i + a] with values[i + a + 1] must start at pair (0, 1) and end at pair (count - 2, count - 1))
    cs8 = need_fn(mod, "varintAdaptiveCheckSorted"); fi8 = w.fi(cs8).prepare(); n8 = 0
    vk8 = cs8.param_index("values"); ck8 = cs8.param_index("count")
    if vk8 is None or ck8 is None: raise AnalysisBroken("A8: parameters of varintAdaptiveCheckSorted not found")
    for h8, body8 in cs8.loops().items():
        # the loop's continuation test: `i < N` in the header, or `i + 1 < N` in the latch of a do/while (the body has run for i already)
        found8 = None
        for tb in [cs8.bmap[h8]] + [cs8.bmap[x] for x in sorted(body8) if x != h8 and h8 in [s_.id for s_ in cs8.bmap[x].succs]]:
            t8 = tb.term
            if t8.op != "br" or len(t8.ops) != 3 or t8.ops[0]["k"] != "inst": continue
            ci8 = cs8.imap[t8.ops[0]["v"]]
            if ci8.op != "icmp" or ci8["pred"] not in ("ult", "slt", "ne") or t8.ops[2]["v"] not in body8 or t8.ops[1]["v"] in body8: continue
            for ph in cs8.bmap[h8].insts:
                if ph.op != "phi" or ph["t"].endswith("*"): continue
                ins8 = [c_ for c_ in ph["incoming"] if c_["b"] not in body8]; back8 = [c_ for c_ in ph["incoming"] if c_["b"] in body8]
                if len(ins8) != 1 or len(back8) != 1: continue
                phL = fi8.lin({"k": "inst", "v": ph.id, "t": ph["t"]})
                if fi8.lin(back8[0]["v"]) - phL != Lin.const(1): continue
                tested = fi8.lin(ci8.ops[0]) - phL
                if (tb.id == h8 and tested == Lin()) or (tb.id != h8 and tested == Lin.const(1)): found8 = (ci8, ph, ins8, back8)
            if found8: break
        if not found8: continue
        ci8, phi8, ins8, back8 = found8
        ph8 = {"k": "inst", "v": phi8.id, "t": phi8["t"]}
        I8 = fi8.lin(ins8[0]["v"]); N8 = fi8.lin(ci8.ops[1]); iL = fi8.lin(ph8)
        offs8 = set()
        def off8(ld):
            root, off = fi8.ptr(ld.ops[0])
            return off if root == ("arg", vk8) else None
        for ld in cs8.insts():
            if ld.op != "load" or ld.block.id not in body8: continue
            off = off8(ld)
            if off is None: continue
            d8 = off - iL.scale(8)
            if d8.is_const() and d8.c % 8 == 0: offs8.add(d8.c // 8)
        # a running `prev` (loaded once before the loop, then the element just read): the element one before the one read in the body
        for pp in cs8.bmap[h8].insts:
            if pp.op != "phi" or pp is phi8 or pp["t"] != "i64": continue
            pin = [c_ for c_ in pp["incoming"] if c_["b"] not in body8]; pbk = [c_ for c_ in pp["incoming"] if c_["b"] in body8]
            if len(pin) != 1 or len(pbk) != 1: continue
            a0, a1 = strip(cs8, pin[0]["v"]), strip(cs8, pbk[0]["v"])
            if a0["k"] != "inst" or a1["k"] != "inst": continue
            l0, l1 = cs8.imap[a0["v"]], cs8.imap[a1["v"]]
            if l0.op != "load" or l1.op != "load" or l1.block.id not in body8 or l0.block.id in body8: continue
            o0, o1 = off8(l0), off8(l1)
            if o0 is None or o1 is None: continue
            d1 = o1 - iL.scale(8)
            if d1.is_const() and d1.c % 8 == 0 and o0 == (I8.scale(8) + (d1.c - 8)): offs8.add(d1.c // 8 - 1)
        if len(offs8) < 2: continue
        n8 += 1
        cmin, cmax = min(offs8), max(offs8)
        cnt = fi8.lin({"k": "arg", "v": ck8, "t": "i64"})
        first_ok = I8.is_const() and I8.c + cmin == 0
        last_ok = (N8 + cmax - cnt) == Lin()
        run.check(cmax - cmin == 1 and first_ok and last_ok, "A8-sortedness-scan-covers-every-pair", {"first_index": repr(I8), "bound": repr(N8), "element_offsets": sorted(offs8)},
                  Finding("A8-sortedness-scan-incomplete", cs8.name, "isSorted", "loop",
                          "the loop at %s compares values[i%+d] with values[i%+d] for i from %r while i < %r: it does not cover every adjacent pair of the %r values (first pair 0/1, last pair count-2/count-1), so an array with a descent in an uncovered pair is reported sorted and can be sent to the set-only BITMAP codec" % (
                              loc(ci8), cmin, cmax, I8, N8, cnt), loc=loc(ci8)))
    if n8 < 1: raise AnalysisBroken("A8: no adjacent-pair scan found in varintAdaptiveCheckSorted")
    # ---- A7: the dictionary codec's index width is measured for the same quantity on the writing and on both reading sides ----
    # (width of size - 1 everywhere today; a reader that measures size itself disagrees exactly when size is 256 or 65536 ...)
    offs = {}
    for fname in ("varintDictBuild", "varintDictDecode", "varintDictDecodeInto"):
        f7 = need_fn(mod, fname); fi7 = w.fi(f7).prepare()
        mv7 = measured_values(f7, w, memory_counter=True)
        if not mv7:
            # the header (and with it the index width) is parsed by a file-local helper shared by the readers
            seen7 = set(); work7 = [f7]; found7 = []
            while work7:
                g7 = work7.pop()
                for c7_ in g7.calls():
                    h7 = mod.fn(c7_.get("callee") or "")
                    if h7 is None or not h7.internal or not h7.blocks or h7.name in seen7: continue
                    seen7.add(h7.name); work7.append(h7)
                    found7 += [(h7, m_) for m_ in measured_values(h7, w, memory_counter=True)]
            if len(found7) == 1:
                f7 = found7[0][0]; fi7 = w.fi(f7).prepare(); mv7 = [found7[0][1]]
        if len(mv7) != 1: raise AnalysisBroken("A7: %s: expected one index-width computation, found %d" % (fname, len(mv7)))
        l7 = fi7.lin(mv7[0][0])
        # a file-local "width for this dictionary size" helper: the quantity measured is what the helper measures of its argument
        site = mv7[0][2]
        for _ in range(2):
            if site.op != "call": break
            h7 = mod.fn(site.get("callee") or "")
            if h7 is None or not h7.internal or not h7.blocks: break
            inner = measured_values(h7, w, memory_counter=True)
            if len(inner) != 1: break
            hl = w.fi(h7).prepare().lin(inner[0][0])
            args7 = [a for a in hl.atoms()]
            if len(args7) != 1 or hl.t[args7[0]] != 1 or not (isinstance(args7[0], tuple) and args7[0][:2] == ("v", "arg") or isinstance(args7[0], tuple) and args7[0][0] == "arg"): break
            l7 = l7 + hl.c; site = inner[0][2]
        if len(l7.t) != 1 or list(l7.t.values()) != [1]: raise AnalysisBroken("A7: %s measures the width of %r, which is not size + constant" % (fname, l7))
        a7 = next(iter(l7.t))
        if isinstance(a7, tuple) and a7[0] in ("and", "wrap", "mul", "prod", "udiv", "urem", "shl", "lshr", "or", "xor", "select"):
            raise AnalysisBroken("A7: %s measures the width of %r: a derived quantity (masked / wrapped), not recognisably size + constant" % (fname, l7))
        offs[fname] = (l7.c, mv7[0][2])
    ref = offs["varintDictBuild"][0]
    for fname, (c7, site7) in sorted(offs.items()):
        run.check(c7 == ref, "A7-dict-index-width-measured-alike", {"fn": fname, "measures": "size%+d" % c7, "writer_measures": "size%+d" % ref},
                  Finding("A7-dict-index-width-differs", fname, "indexWidth", "measure",
                          "%s derives the index width from size%+d while varintDictBuild (the writer) derives it from size%+d: for dictionaries whose size sits on a byte-width boundary the reader steps through the indices with another width and decodes other values" % (fname, c7, ref), loc=loc(site7)))
    # ---- A4 ----
    for i in dec.calls():
        c = i.get("callee")
        if c in LENGTH_TAKING:
            a = i.ops[LENGTH_TAKING[c]]
            run.check(a["k"] != "int", "A4-real-length-forwarded", {"callee": c},
                      Finding("A4-literal-length", dec.name, c, "length", "%s is given the literal length %s instead of a bound on the caller's input (varintAdaptiveDecode has no input-length parameter): truncated or hostile input is read up to that bound" % (c, a.get("v")), loc=loc(i), quant=str(a.get("v"))))
    return len(paths)


def run(tier):
    run = Run(PROP, tier, level="other", technique="SSA value identity, switch-table extraction and path-condition extraction of the selection decision tree on LLVM IR")
    per = {}
    for cfg in configs_for(tier):
        n = analyse(lib_module(cfg), run, cfg)
        per[cfg] = {"selector_paths_to_BITMAP": n}
    run.coverage.update({"configurations": per, "bitmap_domain": "fitsInBitmapRange && isSorted && uniqueCount == count",
                         "not_decided": "losslessness of each sub-codec and of the combination for every array (value-level)"})
    return run.finish(
        "Four structural necessary conditions of losslessness of the adaptive container: header byte == reported type == dispatched type; encode and "
        "decode dispatch tables agree and cover everything the selector can return; every selector path to BITMAP implies the bitmap codec's "
        "lossless domain; no length-taking sub-decoder receives a literal length; the flag fitsInBitmapRange is only set when every value is below "
        "the bound under which the encoder's BITMAP arm stores values (A5); the PFOR offset width is measured for a value strictly greater than every "
        "storable offset, so the all-ones exception marker is never a normal value (A6).")
