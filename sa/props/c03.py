"""C03 - encoders never write more than their advertised size (E-SIZE + sibling agreement).  DESIGN 4/C03.
 Z1 exact predictors and their encoders agree term by term: every tagged/fixed-width length that advances the encoder's cursor is
    accounted for in the predictor by the same length table applied to the same quantity (or to a constant maximum of its type);
    for exact predictors also the other way round.  Pairs: FORSize/FOREncode+BatchEncode, PFORSize/PFOREncode,
    DictEncodedSizeWithDict/DictEncodeWithDict, GroupSize/GroupEncode (+ the width-normalisation decision lists), RLEAnalyze/RLEEncode
 Z2 maximum-size bounds: a symbolic upper bound of every write through the destination (and of the returned length) is at most the
    sizing function, as polynomials with non-negative atoms: varintDeltaEncode / EncodeUnsigned vs varintDeltaMaxEncodedSize
Not decided here: RLE max size (amortised), adaptive max size (depends on selection), Elias / BP128 / float maximum sizes (bit
cursors kept in reader/writer objects, block residues) - listed in the evidence."""
import os
from ..report import Run, Finding, rel
from ..common import lib_module, configs_for, need_fn
from ..build import AnalysisBroken
from ..core import World
from .. import sizeterms as ST
from ..esize import UB, Poly, Unbounded, pmax, fmt_atom

PROP = "C03"
PAIRS = [("varintFORSize", "varintFOREncode", True), ("varintFORSize", "varintFORBatchEncode", True), ("varintPFORSize", "varintPFOREncode", False),
         ("varintDictEncodedSizeWithDict", "varintDictEncodeWithDict", True), ("varintGroupSize", "varintGroupEncode", True), ("varintRLEAnalyze", "varintRLEEncode", True)]
TOTALS = [("varintFORSize", None, "varintFOREncode", True), ("varintFORSize", None, "varintFORBatchEncode", True), ("varintPFORSize", None, "varintPFOREncode", False),
          ("varintDictEncodedSizeWithDict", None, "varintDictEncodeWithDict", True), ("varintRLEAnalyze", "encodedSize", "varintRLEEncode", True)]
MAXSIZE = [("varintDeltaEncode", "output", "w_deltaMaxEncodedSize", {"count": "count"}), ("varintDeltaEncodeUnsigned", "output", "w_deltaMaxEncodedSize", {"count": "count"})]


def loc(i): return "%s:%s" % (rel(i.d.get("file", i.fn.file)), i.d.get("line", "?"))


def fmt_term(t):
    tab, r, al = t
    tn = "tagged-length" if isinstance(tab, tuple) and tab and tab[0] != "name" and tab[0][:2] == (0, 240) else (tab[1] if tab and tab[0] == "name" else "length-table%s" % (tab[:2],))
    return "%s of %s%s" % (tn, "/".join(map(str, r)), " (or the constant %s instead)" % "/".join(map(str, al)) if al else "")


def width_decisions(fn):
    """decision list value -> width used to normalise a field width (varintGroup): [(pred, constant, result)] in program order"""
    out = []
    for b in fn.blocks:
        t = b.term
        if t.op == "br" and len(t.ops) == 3 and t.ops[0]["k"] == "inst":
            c = fn.imap[t.ops[0]["v"]]
            if c.op == "icmp" and c.ops[1]["k"] == "int" and c["pred"] in ("ule", "ult", "sle", "slt") and c.ops[0]["k"] == "inst":
                src = fn.imap[c.ops[0]["v"]]
                if src.op == "phi" or src.op in ("load", "zext"): out.append((c["pred"], int(c.ops[1]["v"])))
    return out


def analyse(mod, run, label):
    w = World(mod); npairs = 0
    # ---- Z1 ----
    for pred, enc, exact in PAIRS:
        pf = need_fn(mod, pred); ef = need_fn(mod, enc)
        pt, pd = ST.size_terms(pf, mod, "size"); et, ed = ST.size_terms(ef, mod, "cursor")
        if not pt or not et: raise AnalysisBroken("%s / %s: no size terms extracted" % (pred, enc))
        npairs += 1
        unc, unexp = ST.match_terms(pt, et, exact)
        run.check(not unc, "Z1-encoder-advance-accounted", {"predictor": pred, "encoder": enc, "encoder_terms": sorted(fmt_term(t) for t in et), "predictor_terms": sorted(fmt_term(t) for t in pt)},
                  Finding("Z1-size-term-missing", pred, enc, "+".join(sorted(fmt_term(t) for t in unc))[:120],
                          "%s advances its output by %s, but %s has no term sizing that quantity with the same length function (it has %s): the predicted size can be smaller than what is written" % (
                              enc, ", ".join(sorted(fmt_term(t) for t in unc)), pred, ", ".join(sorted(fmt_term(t) for t in pt))), loc="%s:%s" % (rel(pf.file), pf.line)))
        if exact:
            run.check(not unexp, "Z1-predictor-term-matched", {"predictor": pred, "encoder": enc},
                      Finding("Z1-size-term-unmatched", pred, enc, "+".join(sorted(fmt_term(t) for t in unexp))[:120],
                              "%s adds %s, which does not correspond to any advance of %s: the predictor is documented as exact" % (pred, ", ".join(sorted(fmt_term(t) for t in unexp)), enc), loc="%s:%s" % (rel(pf.file), pf.line)))
    # group: the two width-normalisation decision lists are the same
    g1 = width_decisions(need_fn(mod, "varintGroupSize")); g2 = width_decisions(need_fn(mod, "varintGroupEncode"))
    k1 = [d for d in g1 if d[1] in (1, 2, 4, 8)]; k2 = [d for d in g2 if d[1] in (1, 2, 4, 8)]
    if not k1 or not k2: raise AnalysisBroken("varintGroup width decision lists not found")
    run.check(k1 == k2, "Z1-group-width-decisions-equal", {"size": k1, "encode": k2},
              Finding("Z1-group-width-decisions-differ", "varintGroupSize", "varintGroupEncode", "decisions", "width normalisation in varintGroupSize %s differs from varintGroupEncode %s" % (k1, k2)))
    # ---- Z3: total size polynomials ----
    ntot = 0
    for pred, field, enc, exact in TOTALS:
        pf = need_fn(mod, pred); ef = need_fn(mod, enc)
        try:
            pp = total_poly(w, pf, field); ep = total_poly(w, ef, None)
        except Unbounded as e:
            run.defer_broken("Z3 %s / %s: total size not evaluable: %s" % (pred, enc, e)); continue
        # a length the predictor does not name is at most the longest entry of its table for the width of the measured value
        ep2 = ep
        for a in sorted(ep.atoms() - pp.atoms(), key=repr):
            if a[0] == "len" and a[2].startswith("member/"):
                bits = int(a[2].split("/")[2]); ep2 = ep2.subst(a, Poly.const(tagged_max(mod, bits)))
        d = pp - ep2
        foreign = {a for k, v in d.t.items() for a in k if (a in pp.atoms()) != (a in ep2.atoms())}
        if foreign:
            run.defer_broken("Z3 %s / %s: the two totals are over different quantities (%s): %r vs %r" % (pred, enc, ", ".join(sorted(fmt_atom(a) for a in foreign)), pp, ep2)); continue
        ntot += 1
        okz = (not d.t) if exact else d.nonneg_coeffs()
        run.check(okz, "Z3-total-size-agrees", {"predictor": pred, "encoder": enc, "predicted": repr(pp), "written": repr(ep), "relation": "==" if exact else ">="},
                  Finding("Z3-total-size-differs", pred, enc, "total", "%s predicts %r bytes but %s advances its output by %r" % (pred, pp, enc, ep), loc="%s:%s" % (rel(pf.file), pf.line)))
    # ---- Z2 ----
    nmax = 0
    for enc, dstn, sizer, amap in MAXSIZE:
        ef = need_fn(mod, enc); sf = need_fn(mod, sizer)
        dk = ef.param_index(dstn)
        if dk is None: raise AnalysisBroken("%s: parameter %s not found" % (enc, dstn))
        ub = UB(w, ef)
        # sizing function: exact polynomial of its return on the non-trivial path (largest of its returns)
        su = UB(w, sf); size = None
        try:
            for rt in sf.rets():
                v = rt.ops[0]
                cands = [inc["v"] for inc in sf.imap[v["v"]]["incoming"]] if v["k"] == "inst" and sf.imap[v["v"]].op == "phi" else [v]
                for c in cands:
                    if c["k"] == "int" and int(c["v"]) == 0: continue
                    p = exact_poly(sf, su, c)
                    size = p if size is None else size
        except Unbounded as e: raise AnalysisBroken("%s: sizing function not evaluable: %s" % (sizer, e))
        # rename the sizing function's parameter atoms to the encoder's
        ren = {}
        for sp, ep in amap.items():
            a1 = su.arg_atom(sf.param_index(sp)); a2 = ub.arg_atom(ef.param_index(ep)); ren[a1] = a2
        for a1, a2 in ren.items(): size = size.subst(a1, Poly.atom(a2))
        try:
            from ..bounds import Bounds
            B = Bounds(w)
            worst, nacc = ub.extent(B, ("arg", dk))
            if not worst: raise AnalysisBroken("%s: no writes through %s found" % (enc, dstn))
            for rt in ef.rets():
                if rt.ops and rt.ops[0]["k"] != "int":
                    v = rt.ops[0]
                    cands = [inc["v"] for inc in ef.imap[v["v"]]["incoming"]] if v["k"] == "inst" and ef.imap[v["v"]].op == "phi" else [v]
                    for c in cands:
                        if c["k"] == "int": continue
                        worst.append(ub.ub(c))
        except Unbounded as e:
            raise AnalysisBroken("%s: output cursor not boundable: %s" % (enc, e))
        nmax += 1
        # compare for count >= 1: substitute count = 1 + c'
        ca = ub.arg_atom(ef.param_index("count"))
        shift = Poly.atom(ca) + Poly.const(1)
        bad = [q for q in worst if not (size.subst(ca, shift) - q.subst(ca, shift)).nonneg_coeffs()]
        run.check(not bad, "Z2-writes-within-max-size", {"encoder": enc, "writes_checked": nacc, "upper_bounds": [repr(q) for q in worst], "advertised": repr(size)},
                  Finding("Z2-max-size-too-small", enc, sizer, "bound", "%s can write up to %s bytes but %s promises %r" % (enc, " / ".join(repr(q) for q in bad), sizer.replace("w_", "varintD", 1).replace("varintDd", "varintD"), size), loc="%s:%s" % (rel(ef.file), ef.line)))
    return npairs, nmax, ntot


def tagged_max(mod, bits):
    tab = ST.length_table(mod, "varintTaggedLen")
    v = (1 << bits) - 1
    return next(ln for (a, b, ln) in tab if a <= v <= b)


def total_poly(w, fn, field):
    """sibling mode (lengths and metadata as named atoms): the returned size, or the value stored into the named size field"""
    u = UB(w, fn); u.roles = True; best = None
    if field is None:
        for rt in fn.rets():
            v = rt.ops[0]
            cands = [inc["v"] for inc in fn.imap[v["v"]]["incoming"]] if v["k"] == "inst" and fn.imap[v["v"]].op == "phi" and fn.imap[v["v"]].block is rt.block else [v]
            for c in cands:
                p = u.ub(c)
                if p.is_const() and p.c() == 0: continue            # the failure / empty return
                best = p if best is None else pmax(best, p)
    else:
        for i in fn.insts():
            if i.op != "store" or i.ops[1]["k"] != "inst": continue
            g = fn.imap[i.ops[1]["v"]]
            if g.op != "getelementptr" or "field" not in g.d: continue
            r = ST.role(fn, fn.mod, {"k": "inst", "v": fake_load(fn, g)}) if False else None
            sname = g["field"]["struct"]; di = fn.mod.ditypes.get(sname.split(".", 1)[1] if "." in sname else sname); st = fn.mod.structs.get(sname)
            if not di or not st: continue
            off = st["fields"][g["field"]["field"]]["off"]
            if not any(m["off"] == off and m["name"] == field for m in di["members"]): continue
            p = u.ub(i.ops[0])
            if p.is_const() and p.c() == 0: continue
            best = p if best is None else pmax(best, p)
    if best is None: raise Unbounded("no size value found in %s" % fn.name)
    return best


def exact_poly(fn, ub, o):
    """exact value of a loop-free integer expression over parameters (used for sizing functions)"""
    if o["k"] == "int": return Poly.const(int(o["v"]))
    if o["k"] == "arg": return Poly.atom(ub.arg_atom(o["v"]))
    i = fn.imap[o["v"]]
    A = lambda n: exact_poly(fn, ub, i.ops[n])
    if i.op == "add": return A(0) + A(1)
    if i.op == "sub": return A(0) - A(1)
    if i.op == "mul": return A(0) * A(1)
    if i.op in ("zext", "sext", "trunc"): return A(0)
    if i.op == "call":
        g = fn.mod.fn(i.get("callee"))
        if g is not None:
            su = UB(ub.w, g)
            for k in range(i["nargs"]): su.arg_poly[k] = exact_poly(fn, ub, i.ops[k])
            out = None
            for rt in g.rets():
                v = rt.ops[0]
                cands = [inc["v"] for inc in g.imap[v["v"]]["incoming"]] if v["k"] == "inst" and g.imap[v["v"]].op == "phi" else [v]
                for c in cands:
                    if c["k"] == "int" and int(c["v"]) == 0: continue
                    out = exact_poly(g, su, c)
            if out is not None: return out
    raise Unbounded("sizing expression %s" % i.op)


def run(tier):
    run = Run(PROP, tier, level="other", technique="sibling agreement of size terms (E1 length tables + value roles) and symbolic upper bounds of output cursors (E-SIZE) on LLVM IR")
    per = {}
    for cfg in configs_for(tier):
        mod = lib_module(cfg, ("wrap", "sizers"))
        np_, nm, nt = analyse(mod, run, cfg)
        per[cfg] = {"predictor_encoder_pairs": np_, "max_size_sites": nm, "total_size_pairs": nt}
        if not getattr(run, "deferred", None): run.floor("total-size pairs (%s)" % cfg, nt, 5)
        run.floor("predictor/encoder pairs (%s)" % cfg, np_, 6)
        run.floor("max-size sites (%s)" % cfg, nm, 2)
    run.coverage.update({"configurations": per,
                         "not_decided": ["varintRLEEncode vs varintRLEMaxSize (amortised argument)", "varintAdaptiveEncode vs varintAdaptiveMaxSize (depends on what is selected)",
                                         "varintEliasGamma/DeltaEncodeArray vs *MaxBytes (bit cursor inside the writer object)", "varintBP128*Encode* vs varintBP128MaxBytes (block residues)",
                                         "varintFloatEncode vs varintFloatMaxEncodedSize", "element-wise exactness of the predictors beyond term agreement (e.g. count*width products are compared as terms only for the call-based lengths)"]})
    return run.finish(
        "Z1: for each predictor/encoder pair the calls whose results advance the encoder's cursor and the calls whose results are summed by the "
        "predictor are reduced to (length table, role of the measured value); the encoder's terms must be covered by the predictor's. Z2: for the delta "
        "encoders every write offset and the returned length are bounded by init + back-edges x advance as a polynomial in count and compared "
        "coefficient-wise with the sizing function.")
