"""C03 - encoders never write more than their advertised size (E-SIZE + sibling agreement).  DESIGN 4/C03.
 Z1 exact predictors and their encoders agree term by term: every tagged/fixed-width length that advances the encoder's cursor is
    accounted for in the predictor by the same length table applied to the same quantity (or to a constant maximum of its type);
    for exact predictors also the other way round.  Pairs: FORSize/FOREncode+BatchEncode, PFORSize/PFOREncode,
    DictEncodedSizeWithDict/DictEncodeWithDict, GroupSize/GroupEncode (+ the width-normalisation decision lists), RLEAnalyze/RLEEncode
 Z2 maximum-size bounds: a symbolic upper bound of every write through the destination (and of the returned length) is at most the
    sizing function for every residue of count: delta (2), BP128 (4), Elias gamma / delta array encoders (2)
Z5 write extents of the FOR / FORBatch / PFOR / Dict encoders against their predictors, one field width (1..8) at a time: with every load of
    the width field pinned, each write offset + extent (tagged writes: exactly their returned length) is at most the predicted total
Not decided here: RLE max size (amortised), adaptive max size (depends on selection), Elias / BP128 / float maximum sizes (bit
cursors kept in reader/writer objects, block residues) - listed in the evidence."""
import os
from ..report import Run, Finding, rel
from ..common import lib_module, configs_for, need_fn, with_helpers_inlined, carries_pointers
from ..build import AnalysisBroken
from ..core import World
from .. import sizeterms as ST
from ..esize import UB, Poly, Unbounded, pmax, fmt_atom, residue_eval

PROP = "C03"
PAIRS = [("varintFORSize", "varintFOREncode", True), ("varintFORSize", "varintFORBatchEncode", True), ("varintPFORSize", "varintPFOREncode", False),
         ("varintDictEncodedSizeWithDict", "varintDictEncodeWithDict", True), ("varintGroupSize", "varintGroupEncode", True), ("varintRLEAnalyze", "varintRLEEncode", True)]
TOTALS = [("varintFORSize", None, "varintFOREncode", True), ("varintFORSize", None, "varintFORBatchEncode", True), ("varintPFORSize", None, "varintPFOREncode", False),
          ("varintDictEncodedSizeWithDict", None, "varintDictEncodeWithDict", True), ("varintRLEAnalyze", "encodedSize", "varintRLEEncode", True)]
# (encoder, destination parameter, witness wrapper of the sizing function (witness/sizers.c), count parameter, period of the residue comparison)
Z5_PAIRS = [("varintFORSize", "varintFOREncode", "dst", "offsetWidth"), ("varintFORSize", "varintFORBatchEncode", "dst", "offsetWidth"),
            ("varintPFORSize", "varintPFOREncode", "dst", "width"), ("varintDictEncodedSizeWithDict", "varintDictEncodeWithDict", "buffer", "indexWidth")]
MAXSIZE = [("varintDeltaEncode", "output", "w_deltaMaxEncodedSize", "count", 1), ("varintDeltaEncodeUnsigned", "output", "w_deltaMaxEncodedSize", "count", 1),
           ("varintBP128Encode32", "dst", "w_bp128MaxBytes", "count", 128), ("varintBP128Encode64", "dst", "w_bp128MaxBytes", "count", 128),
           ("varintBP128DeltaEncode32", "dst", "w_bp128MaxBytes", "count", 128), ("varintBP128DeltaEncode64", "dst", "w_bp128MaxBytes", "count", 128),
           ("varintEliasGammaEncodeArray", "dst", "w_eliasGammaMaxBytes", "count", 8), ("varintEliasDeltaEncodeArray", "dst", "w_eliasDeltaMaxBytes", "count", 8),
           # float: only the INDEPENDENT exponent mode (mode == 0, one width byte + up to 8 bytes per exponent) is decided
           ("varintFloatEncode", "output", "w_floatMaxEncodedSize", "count", 8, {"pin": {"mode": 0}, "same": ["precision"], "tight": False})]


def loc(i): return "%s:%s" % (rel(i.d.get("file", i.fn.file)), i.d.get("line", "?"))


def fmt_term(t):
    tab, r, al = t
    tn = "tagged-length" if isinstance(tab, tuple) and tab and tab[0] != "name" and tab[0][:2] == (0, 240) else (tab[1] if tab and tab[0] == "name" else "length-table%s" % (tab[:2],))
    return "%s of %s%s" % (tn, "/".join(map(str, r)), " (or the constant %s instead)" % "/".join(map(str, al)) if al else "")


ENC_ANALYSIS = [("varintPFOREncode", "varintPFORComputeThreshold"), ("varintFOREncode", "varintFORAnalyze")]


def len_atom_bits(a, ef=None):
    """bit width of the quantity a `len` atom measures, when it is a member of a local record (by position) or a named struct field
    (the widest load of a member of that name; not trusted when the encoder also has a parameter of that name)"""
    if a[0] != "len": return None
    if a[2].startswith("member/"): return int(a[2].split("/")[2])
    if "/" not in a[2] and a[2] in ST._FIELD_BITS and ef is not None and ef.param_index(a[2]) is None: return ST._FIELD_BITS[a[2]]
    return None


def per_width(w, fn, mode, cfg=None):
    """{k: bytes} for k = 1..8: with the width measured by the function's byte-width loop pinned to k, either the amount added to the
    running size on one trip of that loop's enclosing loop (mode 'accumulate') or the value stored into the local width array
    (mode 'store').  None where it is not a single constant."""
    from .c12 import measured_values
    from ..ival import Intervals
    mvs = [m_ for m_ in measured_values(fn, w) if m_[1] is not None and m_[2].block.id in fn.loops()]
    via_helper = len(mvs) == 1 and mvs[0][2].op == "call" and fn.mod.fn(mvs[0][2].get("callee") or "") is not None and fn.mod.fn(mvs[0][2]["callee"]).internal
    if (len(mvs) != 1 or via_helper) and cfg is not None:
        # the measurement (or the normalisation after it) may live in a file-local helper: look at the function with those inlined
        m2, f2 = with_helpers_inlined(fn.mod, fn, cfg)
        if m2 is not None: return per_width(World(m2), f2, mode, None)
    if len(mvs) != 1: raise AnalysisBroken("%s: expected one byte-width measurement, found %d" % (fn.name, len(mvs)))
    wid = mvs[0][1]["v"]; names = [wid] + [a["v"] for a in (mvs[0][3] if len(mvs[0]) > 3 else [])]
    inner = mvs[0][2].block.id
    outer = [h for h, body in fn.loops().items() if inner in body and h != inner]
    if not outer: raise AnalysisBroken("%s: the width measurement is not inside a per-field loop" % fn.name)
    oh = min(outer, key=lambda h: len(fn.loops()[h])); obody = fn.loops()[oh]
    fi = w.fi(fn).prepare()
    out = {}
    for k in range(1, 9):
        iv = Intervals(fn, None, fi)
        for n_ in names: iv.memo[n_] = (k, k)
        dead = iv.dead_edges()
        for n_ in names: iv.memo[n_] = (k, k)                 # (dead_edges() clears the memo between its rounds)
        iv._dead = dead
        val = None
        if mode == "store":
            for i in fn.insts():
                if i.op != "store" or i.block.id not in obody: continue
                root, off = fi.ptr(i.ops[1])
                if root[0] != "alloca" or off.is_const(): continue            # an element of a local array, indexed by the field number
                live_block = any((p.id, i.block.id) not in dead for p in i.block.preds) or not i.block.preds
                if not live_block: continue
                a = iv.ival(i.ops[0])
                if a[0] == a[1]: val = int(a[0]) if val in (None, int(a[0])) else "several"
        else:
            # the accumulator: a header phi of the outer loop whose back value is itself plus constants along the live path
            def returned(pid):
                seen = set(); st = [r_.ops[0] for r_ in fn.rets() if r_.ops]
                while st:
                    o = st.pop()
                    if o["k"] != "inst" or o["v"] in seen: continue
                    seen.add(o["v"])
                    if o["v"] == pid: return True
                    x = fn.imap[o["v"]]
                    if x.op == "phi": st += [c_["v"] for c_ in x["incoming"]]
                    elif x.op in ("zext", "sext", "trunc"): st.append(x.ops[0])
                    elif x.op == "add": st += [x.ops[0], x.ops[1]]            # header size + payload size
                return False
            for ph in fn.bmap[oh].insts:
                if ph.op != "phi" or ph["t"].endswith("*") or not returned(ph.id): continue
                def inc(o, d=0):
                    if d > 12: return None
                    if o["k"] != "inst": return None
                    if o["v"] == ph.id: return 0
                    x = fn.imap[o["v"]]
                    if x.op in ("zext", "sext", "trunc"): return inc(x.ops[0], d + 1)
                    if x.op == "add":
                        for a_, b_ in ((x.ops[0], x.ops[1]), (x.ops[1], x.ops[0])):
                            base = inc(a_, d + 1)
                            if base is None: continue
                            bv = iv.ival(b_)
                            if bv[0] == bv[1]: return base + int(bv[0])
                        return None
                    if x.op == "phi" and x.block.id in obody and x.block.id != oh:
                        vals = set()
                        for c_ in x["incoming"]:
                            if (c_["b"], x.block.id) in dead: continue
                            pb = fn.bmap[c_["b"]]
                            if pb.preds and all((q.id, pb.id) in dead for q in pb.preds): continue       # that predecessor is itself unreachable under the pin
                            vals.add(inc(c_["v"], d + 1))
                        return vals.pop() if len(vals) == 1 else None
                    return None
                backs = [c_["v"] for c_ in ph["incoming"] if c_["b"] in obody]
                if len(backs) != 1: continue
                r = inc(backs[0])
                if r is not None and r > 0: val = r if val in (None, r) else "several"
        out[k] = val if isinstance(val, int) else None
    return out


def width_decisions(fn):
    """decision list value -> width used to normalise a field width (varintGroup): [(pred, constant, result)] in program order"""
    out = []
    for b in fn.blocks:
        t = b.term
        if t.op == "br" and len(t.ops) == 3 and t.ops[0]["k"] == "inst":
            c = fn.imap[t.ops[0]["v"]]
            if c.op == "icmp" and c.ops[1]["k"] == "int" and c["pred"] in ("ule", "ult", "sle", "slt") and c.ops[0]["k"] == "inst":
                src = fn.imap[c.ops[0]["v"]]
                if src.op == "phi" or src.op in ("load", "zext"): out.append((c["pred"], int(c.ops[1]["v"])))
    return out


def analyse(mod, run, label):
    w = World(mod); npairs = 0
    # ---- Z1 ----
    for pred, enc, exact in PAIRS:
        pf = need_fn(mod, pred); ef = need_fn(mod, enc)
        pt, et, unc, unexp, note = ST.paired_terms(mod, pf, ef, label, exact)
        if note: run.observe("%s / %s: %s" % (pred, enc, note))
        if not pt or not et: raise AnalysisBroken("%s / %s: no size terms extracted" % (pred, enc))
        npairs += 1
        run.check(not unc, "Z1-encoder-advance-accounted", {"predictor": pred, "encoder": enc, "encoder_terms": sorted(fmt_term(t) for t in et), "predictor_terms": sorted(fmt_term(t) for t in pt)},
                  Finding("Z1-size-term-missing", pred, enc, "+".join(sorted(fmt_term(t) for t in unc))[:120],
                          "%s advances its output by %s, but %s has no term sizing that quantity with the same length function (it has %s): the predicted size can be smaller than what is written" % (
                              enc, ", ".join(sorted(fmt_term(t) for t in unc)), pred, ", ".join(sorted(fmt_term(t) for t in pt))), loc="%s:%s" % (rel(pf.file), pf.line)))
        if exact:
            run.check(not unexp, "Z1-predictor-term-matched", {"predictor": pred, "encoder": enc},
                      Finding("Z1-size-term-unmatched", pred, enc, "+".join(sorted(fmt_term(t) for t in unexp))[:120],
                              "%s adds %s, which does not correspond to any advance of %s: the predictor is documented as exact" % (pred, ", ".join(sorted(fmt_term(t) for t in unexp)), enc), loc="%s:%s" % (rel(pf.file), pf.line)))
    # group codec: for every raw byte width 1..8 the size predictor charges what the encoder keeps as the field's width
    # (both measure the value with the same width loop; the measured width is pinned to k and the code that normalises it is evaluated)
    gs = per_width(w, need_fn(mod, "varintGroupSize"), "accumulate", label); ge = per_width(w, need_fn(mod, "varintGroupEncode"), "store", label)
    for k in range(1, 9):
        if gs[k] is None or ge[k] is None:
            run.defer_broken("Z1 group codec: the bytes charged / stored for a %d-byte value could not be evaluated (size: %s, encoder: %s)" % (k, gs[k], ge[k])); continue
        run.check(gs[k] == ge[k], "Z1-group-width-charged-as-stored", {"raw_width": k, "size_adds": gs[k], "encoder_keeps": ge[k]},
                  Finding("Z1-group-width-differs", "varintGroupSize", "varintGroupEncode", "width-%d" % k,
                          "for a field whose value needs %d byte(s) varintGroupSize adds %s but varintGroupEncode stores it in %s byte(s): the predicted size differs from what is written" % (k, gs[k], ge[k]),
                          loc="src/varintGroup.c", quant=str(k)))
    # ---- Z3: total size polynomials ----
    ntot = 0
    for pred, field, enc, exact in TOTALS:
        pf = need_fn(mod, pred); ef = need_fn(mod, enc)
        try:
            try: pp = total_poly(w, pf, field)
            except Unbounded:
                # the reported size may be stored by a file-local "fill the metadata" helper: evaluate the predictor with those inlined
                m2, pf2 = with_helpers_inlined(mod, pf, label)
                if m2 is None: raise
                pp = total_poly(World(m2), pf2, field)
            try: ep = total_poly(w, ef, None)
            except Unbounded:
                # the encoder may have been split into cursor-returning helpers: evaluate it with those inlined
                m2, ef2 = with_helpers_inlined(mod, ef, label)
                if m2 is None: raise
                ep = total_poly(World(m2), ef2, None)
        except Unbounded as e:
            run.defer_broken("Z3 %s / %s: total size not evaluable: %s" % (pred, enc, e)); continue
        # a length the predictor does not name is at most the longest entry of its table for the width of the measured value
        ep2 = ep
        for a in sorted(ep.atoms() - pp.atoms(), key=repr):
            bits = len_atom_bits(a, ef)
            if bits is not None: ep2 = ep2.subst(a, Poly.const(tagged_max(mod, bits)))
        d = pp - ep2
        foreign = {a for k, v in d.t.items() for a in k if (a in pp.atoms()) != (a in ep2.atoms())}
        if foreign:
            run.defer_broken("Z3 %s / %s: the two totals are over different quantities (%s): %r vs %r" % (pred, enc, ", ".join(sorted(fmt_atom(a) for a in foreign)), pp, ep2)); continue
        ntot += 1
        okz = (not d.t) if exact else d.nonneg_coeffs()
        run.check(okz, "Z3-total-size-agrees", {"predictor": pred, "encoder": enc, "predicted": repr(pp), "written": repr(ep), "relation": "==" if exact else ">="},
                  Finding("Z3-total-size-differs", pred, enc, "total", "%s predicts %r bytes but %s advances its output by %r" % (pred, pp, enc, ep), loc="%s:%s" % (rel(pf.file), pf.line)))
    # ---- Z6: an encoder that (re)runs the analysis its size predictor is fed from does so on its own arguments, unchanged ----
    # (varintPFORSize(meta) with meta from varintPFORComputeThreshold(values, count, threshold) bounds varintPFOREncode(values, count,
    #  threshold) only if the encoder's own analysis sees the same values, count and threshold)
    nz6 = 0
    for enc, ana in ENC_ANALYSIS:
        ef = need_fn(mod, enc); af = need_fn(mod, ana)
        sites = list(ef.calls(ana))
        if not sites: raise AnalysisBroken("Z6: %s does not call %s" % (enc, ana))
        for cs in sites:
            for k, pn in sorted(af.argnames.items()):
                ek = ef.param_index(pn)
                if ek is None or k >= cs["nargs"]: continue
                if af.params[k]["t"].endswith("*") and not af.params[k]["pointee_const"]: continue          # the metadata out-parameter
                a = cs.ops[k]
                for _ in range(4):
                    if a["k"] == "inst" and ef.imap[a["v"]].op in ("zext", "sext", "trunc", "bitcast"): a = ef.imap[a["v"]].ops[0]
                nz6 += 1
                run.check(a["k"] == "arg" and a["v"] == ek, "Z6-encoder-analyses-its-own-arguments", {"encoder": enc, "analysis": ana, "parameter": pn},
                          Finding("Z6-encoder-analyses-other-arguments", enc, ana, "arg:%s" % pn,
                                  "%s calls %s with a '%s' that is not the '%s' it was given (a default substituted, a clamp, another variable): the size %s's sibling predicts from the caller's arguments no longer describes what is encoded" % (
                                      enc, ana, pn, pn, enc), loc=loc(cs)))
    # ---- Z7: the percentile index of the patched codec is computed without wrapping ----
    # varintAdaptiveMaxSize (and any caller budgeting exceptions) relies on "at most (100 - threshold)% of the values are exceptions";
    # that holds only if floor(count * threshold / 100) is the mathematical value.  A product of two parameters formed in a type
    # narrower than 64 bits wraps for large counts and the "95th percentile" becomes an arbitrary one.
    nz7 = 0
    for aname in ("varintPFORComputeThreshold",):
        af0 = need_fn(mod, aname)
        def from_param(af, o, d=0):
            if o["k"] == "arg": return True
            if o["k"] != "inst" or d > 4: return False
            x = af.imap[o["v"]]
            return x.op in ("zext", "sext", "trunc") and from_param(af, x.ops[0], d + 1)
        # the function itself, and file-local helpers it hands (only) its own parameters to (`percentileIndex(count, threshold)`)
        units7 = [af0]
        for c7 in af0.calls():
            h7 = mod.fn(c7.get("callee") or "")
            if h7 is not None and h7.internal and h7.blocks and h7 not in units7 and c7["nargs"] and all(from_param(af0, c7.ops[k_]) for k_ in range(c7["nargs"]) if not c7.ops[k_]["t"].endswith("*")): units7.append(h7)      # (its integer arguments are our parameters)
        for af in units7:
          afi = w.fi(af).prepare()
          for i in af.insts():
            if i.op != "mul" or not from_param(af, i.ops[0]) or not from_param(af, i.ops[1]): continue
            nz7 += 1
            bits = int(i["t"][1:]) if i["t"][1:].isdigit() else 64
            wraps = bits < 64 and afi.may_wrap(i)
            run.check(not wraps, "Z7-percentile-index-does-not-wrap", {"fn": aname, "at": loc(i), "bits": bits},
                      Finding("Z7-percentile-index-wraps", aname, "thresholdIndex", "mul",
                              "%s multiplies two of its parameters in %d-bit arithmetic at %s: for large counts the product wraps, the percentile taken is not the one asked for and nearly every value can become an exception (14 bytes each) - more than varintAdaptiveMaxSize budgets" % (aname, bits, loc(i)), loc=loc(i)))
    if nz7 < 1: raise AnalysisBroken("Z7: no product of parameters found in varintPFORComputeThreshold")
    # ---- Z5: every write of the encoder lies inside the predicted size, one field width at a time ----
    nz5 = 0
    from ..bounds import Bounds as _B5
    B5 = _B5(w)
    for pred, enc, dstn, wfield in Z5_PAIRS:
        pf = need_fn(mod, pred); ef = need_fn(mod, enc); dk = ef.param_index(dstn)
        if dk is None: raise AnalysisBroken("Z5 %s: parameter %s not found" % (enc, dstn))
        okall = True; worst_txt = None
        try:
            for k in range(1, 9):
                pu = UB(w, pf); pu.roles = True; pu.pin_fields({wfield: k})
                P = None
                for rt in pf.rets():
                    v = rt.ops[0]
                    cands = [inc["v"] for inc in pf.imap[v["v"]]["incoming"]] if v["k"] == "inst" and pf.imap[v["v"]].op == "phi" and pf.imap[v["v"]].block is rt.block else [v]
                    for c in cands:
                        q = pu.at(rt.block).ub(c)
                        if q.is_const() and q.c() == 0: continue
                        P = q if P is None else pmax(P, q)
                eu = UB(w, ef); eu.roles = True; eu.pin_fields({wfield: k})
                # a loop that continues another loop's counter needs a relation between cursor and counter that is not tracked
                for h, body in eu.loops.items():
                    if h in eu.unreach: continue
                    for j in ef.bmap[h].insts:
                        if j.op == "phi" and not j["t"].endswith("*"):
                            ph, s0 = eu.counter({"k": "inst", "v": j.id, "t": j["t"]}, h, body)
                            if ph is not None:
                                init = [inc["v"] for inc in ph["incoming"] if inc["b"] not in body][0]
                                if init["k"] == "inst" and ef.imap[init["v"]].op == "phi": raise Unbounded("the loop at line %s continues the counter of an earlier loop" % j.line)
                ext, nw = eu.extent(B5, ("arg", dk))
                for c, cond in ext:
                    c2 = c
                    for a in sorted(c.atoms() - P.atoms(), key=repr):
                        if len_atom_bits(a, ef) is not None: c2 = c2.subst(a, Poly.const(tagged_max(mod, len_atom_bits(a, ef))))
                    d = P - c2
                    foreign = c2.atoms() - P.atoms()
                    if foreign: raise Unbounded("a write is bounded over quantities the predictor does not mention (%s)" % ", ".join(sorted(fmt_atom(a) for a in foreign)))
                    if not d.nonneg_coeffs():
                        okall = False; worst_txt = "for %s = %d a write of %s can end at byte %r but %s predicts %r" % (wfield, k, enc, c2, pred, P); break
                if not okall: break
        except Unbounded as e:
            run.defer_broken("Z5 %s / %s: %s" % (pred, enc, e)); continue
        nz5 += 1
        run.check(okall, "Z5-writes-within-predicted-size", {"predictor": pred, "encoder": enc, "widths": "1..8"},
                  Finding("Z5-write-beyond-predicted-size", enc, pred, "extent", worst_txt or "", loc="%s:%s" % (rel(ef.file), ef.line)))
    # ---- Z2 ----
    nmax = 0
    from ..bounds import Bounds
    B = Bounds(w)
    for row in MAXSIZE:
        enc, dstn, sizer, cname, M = row[:5]; opts = row[5] if len(row) > 5 else {}
        ef = need_fn(mod, enc); sf = need_fn(mod, sizer)
        dk = ef.param_index(dstn); ck = ef.param_index(cname)
        if dk is None or ck is None: raise AnalysisBroken("%s: parameters %s / %s not found" % (enc, dstn, cname))
        ub = UB(w, ef); ub.q = True
        if opts.get("pin"): ub.pin_args({ef.param_index(n): v for n, v in opts["pin"].items()})
        ca = ub.arg_atom(ck)
        # the sizing function, exactly, in terms of the encoder's count (and of the parameters the two share by name)
        su = UB(w, sf); su.q = True; su.exact_args[0] = Poly.atom(ca)
        for n in opts.get("same", []):
            if sf.param_index(n) is None or ef.param_index(n) is None: raise AnalysisBroken("%s / %s: shared parameter %s not found" % (enc, sizer, n))
            su.exact_args[sf.param_index(n)] = Poly.atom(ub.arg_atom(ef.param_index(n)))
        size = su.exact_return()
        if size is None: raise AnalysisBroken("%s: sizing function is not an exact expression of count" % sizer)
        def write_bounds(w_, B_, ef_):
            u_ = UB(w_, ef_); u_.q = True
            if opts.get("pin"): u_.pin_args({ef_.param_index(n): v for n, v in opts["pin"].items()})
            indirect_ = []
            worst_, nacc_ = u_.extent(B_, ("arg", dk), indirect=indirect_)
            if not worst_: raise AnalysisBroken("%s: no writes through %s found" % (enc, dstn))
            for rt in ef_.rets():
                if rt.ops and rt.ops[0]["k"] != "int":
                    v = rt.ops[0]
                    cands = [inc["v"] for inc in ef_.imap[v["v"]]["incoming"]] if v["k"] == "inst" and ef_.imap[v["v"]].op == "phi" and ef_.imap[v["v"]].block is rt.block else [v]
                    for c in cands:
                        if c["k"] == "int": continue
                        worst_.append((u_.at(rt.block).ub(c), None))
            return worst_, nacc_, indirect_
        def compare(worst):
            """[(residue, q > 0?, bound, promise, difference)] for the first write whose bound exceeds the promise (empty when none does)"""
            bad = []; ncmp = 0
            for r in range(M):
                for qpos in (False, True):
                    if not qpos and r == 0: continue                      # count == 0 writes nothing (checked by the emptiness return)
                    S = residue_eval(size, ca, M, r, qpos)
                    for p, cond in worst:
                        if cond is not None:
                            cv = residue_eval(cond, ca, M, r, qpos)
                            if cv.is_const() and cv.c() <= 0: continue     # this kind of iteration does not occur for such a count
                        ncmp += 1
                        pv_ = residue_eval(p, ca, M, r, qpos)
                        foreign = {a for a in pv_.atoms() - S.atoms() if not (isinstance(a, tuple) and a[0] == "q")}
                        if foreign:
                            # the bound still mentions a quantity the engine could not evaluate (e.g. the result of a helper whose loop it does
                            # not understand): there is nothing to compare - inconclusive, not a verdict
                            raise Unbounded("the bound of a write mentions %s, which the sizing function does not: %r" % (", ".join(sorted(fmt_atom(a) for a in foreign)), p))
                        d = S - pv_
                        deg = lambda P_: max([sum(1 for a in k if a == ("q",)) for k in P_.t] or [0])
                        if deg(pv_) > max(1, deg(S)):
                            # a bound that grows faster than linearly in the count is the engine charging every iteration with the whole
                            # input (a loop shape its block lemmas do not cover), not something an encoder can do: inconclusive
                            raise Unbounded("the bound of a write is not linear in the count (%r): the loop structure was not recognised" % p)
                        if not d.nonneg_coeffs():
                            bad.append((r, qpos, p, S, d)); return bad, ncmp
            return bad, ncmp
        try:
            try:
                worst, nacc, indirect = write_bounds(w, B, ef)
                bad, ncmp = compare(worst)
            except Unbounded as e1:
                # the encoder may pass its cursor through file-local helpers that return it: bound it with those inlined
                m2, ef2 = with_helpers_inlined(mod, ef, label, only=carries_pointers)       # pure scalar helpers stay calls (named quantities)
                if m2 is None: raise
                w2 = World(m2)
                try:
                    worst, nacc, indirect = write_bounds(w2, Bounds(w2), ef2)
                    bad, ncmp = compare(worst)
                except Unbounded: raise e1
                run.observe("Z2 %s: bounded with its file-local helpers inlined" % enc)
            for cal, ln in indirect:
                run.observe("%s line %s: %s writes the destination through the pointer kept in a writer object; its bytes are assumed to lie below the byte count the writer reports (bit position / 8), which is what is bounded here" % (enc, ln, cal))
        except Unbounded as e:
            run.defer_broken("Z2 %s: %s" % (enc, e if str(e).startswith("the bound") else "output cursor not boundable: %s" % e)); continue
        nmax += 1
        sname = sizer.replace("w_", "varint", 1); sname = sname[:6] + sname[6].upper() + sname[7:]
        what = ""
        if bad:
            r, qpos, p, S, d = bad[0]
            what = "%s can write up to %r bytes but %s promises %r (for count = %s: bound %r, promised %r)" % (enc, p, sname, size, ("%d*q + %d, q >= 1" % (M, r)) if qpos else str(r), S - d, S)
        if size.atoms() and any(isinstance(a, tuple) and a[0] == "call" for a in size.atoms()):          # (an uninterpreted call: the promise itself was not evaluated)
            run.defer_broken("Z2 %s: the sizing function %s is not an exact arithmetic expression of its parameters (conditional or loop inside)" % (enc, sname)); nmax -= 1; continue
        if bad and not opts.get("tight", True):
            # the engine's bound for this encoder is not attained (it charges the worst case of every part at once), so failing to prove is not a verdict
            run.defer_broken("Z2 %s: cannot establish that writes stay within %s: %s" % (enc, sname, what)); nmax -= 1; continue
        run.check(not bad, "Z2-writes-within-max-size", {"encoder": enc, "write_sites": nacc, "upper_bounds": [repr(q) + ("" if c is None else "  [when %r > 0]" % c) for q, c in worst], "advertised": repr(size), "residues": M, "comparisons": ncmp},
                  Finding("Z2-max-size-too-small", enc, sname, "bound", what, loc="%s:%s" % (rel(ef.file), ef.line)))
    return npairs, nmax, ntot, nz5


def tagged_max(mod, bits):
    tab = ST.length_table(mod, "varintTaggedLen")
    v = (1 << bits) - 1
    return next(ln for (a, b, ln) in tab if a <= v <= b)


def total_poly(w, fn, field):
    """sibling mode (lengths and metadata as named atoms): the returned size, or the value stored into the named size field"""
    u = UB(w, fn); u.roles = True; best = None
    if field is None:
        for rt in fn.rets():
            v = rt.ops[0]
            cands = [inc["v"] for inc in fn.imap[v["v"]]["incoming"]] if v["k"] == "inst" and fn.imap[v["v"]].op == "phi" and fn.imap[v["v"]].block is rt.block else [v]
            for c in cands:
                p = u.ub(c)
                if p.is_const() and p.c() == 0: continue            # the failure / empty return
                best = p if best is None else pmax(best, p)
    else:
        for i in fn.insts():
            if i.op != "store" or i.ops[1]["k"] != "inst": continue
            g = fn.imap[i.ops[1]["v"]]
            if g.op != "getelementptr" or "field" not in g.d: continue
            r = ST.role(fn, fn.mod, {"k": "inst", "v": fake_load(fn, g)}) if False else None
            sname = g["field"]["struct"]; di = fn.mod.ditypes.get(sname.split(".", 1)[1] if "." in sname else sname); st = fn.mod.structs.get(sname)
            if not di or not st: continue
            off = st["fields"][g["field"]["field"]]["off"]
            if not any(m["off"] == off and m["name"] == field for m in di["members"]): continue
            p = u.ub(i.ops[0])
            if p.is_const() and p.c() == 0: continue
            best = p if best is None else pmax(best, p)
    if best is None: raise Unbounded("no size value found in %s" % fn.name)
    return best


def exact_poly(fn, ub, o):
    """exact value of a loop-free integer expression over parameters (used for sizing functions)"""
    if o["k"] == "int": return Poly.const(int(o["v"]))
    if o["k"] == "arg": return Poly.atom(ub.arg_atom(o["v"]))
    i = fn.imap[o["v"]]
    A = lambda n: exact_poly(fn, ub, i.ops[n])
    if i.op == "add": return A(0) + A(1)
    if i.op == "sub": return A(0) - A(1)
    if i.op == "mul": return A(0) * A(1)
    if i.op in ("zext", "sext", "trunc"): return A(0)
    if i.op == "call":
        g = fn.mod.fn(i.get("callee"))
        if g is not None:
            su = UB(ub.w, g)
            for k in range(i["nargs"]): su.arg_poly[k] = exact_poly(fn, ub, i.ops[k])
            out = None
            for rt in g.rets():
                v = rt.ops[0]
                cands = [inc["v"] for inc in g.imap[v["v"]]["incoming"]] if v["k"] == "inst" and g.imap[v["v"]].op == "phi" else [v]
                for c in cands:
                    if c["k"] == "int" and int(c["v"]) == 0: continue
                    out = exact_poly(g, su, c)
            if out is not None: return out
    raise Unbounded("sizing expression %s" % i.op)


def run(tier):
    run = Run(PROP, tier, level="other", technique="sibling agreement of size terms (E1 length tables + value roles) and symbolic upper bounds of output cursors (E-SIZE) on LLVM IR")
    per = {}
    for cfg in configs_for(tier):
        mod = lib_module(cfg, ("wrap", "sizers"))
        np_, nm, nt, n5 = analyse(mod, run, cfg)
        per[cfg] = {"predictor_encoder_pairs": np_, "max_size_sites": nm, "total_size_pairs": nt, "write_extent_pairs": n5}
        if not getattr(run, "deferred", None): run.floor("write-extent pairs (%s)" % cfg, n5, 4)
        if not getattr(run, "deferred", None): run.floor("total-size pairs (%s)" % cfg, nt, 5)
        run.floor("predictor/encoder pairs (%s)" % cfg, np_, 6)
        if not getattr(run, "deferred", None): run.floor("max-size sites (%s)" % cfg, nm, 9)
    run.coverage.update({"configurations": per,
                         "not_decided": ["varintRLEEncode vs varintRLEMaxSize (amortised argument: a run of L values costs len(L)+9 <= 10L)", "varintAdaptiveEncode vs varintAdaptiveMaxSize (depends on what the value-level selection picks)",
                                         "varintFloatEncode vs varintFloatMaxEncodedSize in the COMMON_EXPONENT and DELTA_EXPONENT modes (only INDEPENDENT is decided)",
                                         "write extents of encoders whose packing loop continues the counter of an earlier loop (needs a cursor/counter relation; reported as analysis-broken), and of varintGroupEncode",
                                         "bytes touched by varintBitWriterWrite are assumed to lie below varintBitWriterBytes()"]})
    return run.finish(
        "Z1: for each predictor/encoder pair the calls whose results advance the encoder's cursor and the calls whose results are summed by the "
        "predictor are reduced to (length table, role of the measured value); the encoder's terms must be covered by the predictor's. Z3: the totals "
        "agree as polynomials. Z2: for the delta, BP128 and Elias encoders every write offset and the returned length are bounded by init + "
        "iterations x advance (block loops: full blocks + one partial block; writer objects: summed bit counts) and compared with the exact sizing "
        "function for every residue of count.")
