"""C16 - reported metadata and header accessors tell the truth (E-META).  DESIGN 4/C16.
 M1 field completeness: every scalar field of a pure out-parameter metadata struct is written on every success return
 M2 the value stored to an encodedSize/encodedBytes field is the value the function returns
 M3 the value stored to a count field of an encoder's metadata is the function's count argument
 M5 no placeholder: a field of one of the kinds the property names is not stored a compile-time constant on a success path
Not decided: numeric truth of min/max/range/runCount (value-level); M4 layout agreement is checked in C16-M4 when E-BOUNDS terms exist."""
import os, re
from ..report import Run, Finding, rel
from ..common import lib_module, configs_for, need_fn, with_helpers_inlined
from ..build import AnalysisBroken, build_module, VERIF
from ..ir import Module
from ..core import World
from ..uninit import Engine, loc, rng, mask_ranges, field_names, ALL

PROP = "C16"
META_TYPES = ["varintFORMeta", "varintPFORMeta", "varintRLEMeta", "varintEliasMeta", "varintBP128Meta", "varintAdaptiveMeta",
              "varintAdaptiveDataStats", "varintDictStats", "varintBitmapStats", "ctlMeta"]
SIZE_FIELDS = re.compile(r"^(encodedSize|encodedBytes)$")
COUNT_FIELDS = re.compile(r"^(count|originalCount)$")
NAMED_KINDS = re.compile(r"^(count|originalCount|minValue|min|offsetWidth|width|runCount|blockCount|totalBits|exceptionCount|encodedSize|encodedBytes)$")
ANCHORS = ["varintFORAnalyze", "varintFORReadMetadata", "varintPFORComputeThreshold", "varintPFORReadMeta", "varintRLEAnalyze", "varintRLEEncode",
           "varintRLEEncodeWithHeader", "varintEliasGammaEncodeArray", "varintEliasDeltaEncodeArray", "varintBP128Encode32", "varintBP128Encode64",
           "varintBP128DeltaEncode32", "varintBP128DeltaEncode64", "varintAdaptiveAnalyze", "varintAdaptiveEncodeWith", "varintAdaptiveDecode",
           "varintAdaptiveReadMeta", "varintDictGetStats", "varintBitmapGetStats"]


# metadata parameters that are read before being written, confirmed by reading: the FOR encoders re-use a caller-supplied analysis when
# meta->count matches, varintPFORDecode takes the metadata read by varintPFORReadMeta.  Every other metadata parameter is a pure output.
EXTREME_FIELDS = re.compile(r"^(min|max)(Value|Val)?$|^(minValue|maxValue|maxDelta)$")
INOUT_CONFIRMED = {("varintFOREncode", "meta"), ("varintFORBatchEncode", "meta"), ("varintPFORDecode", "meta")}
M8_ENCODERS = ["varintBP128Encode32", "varintBP128Encode64", "varintBP128DeltaEncode32", "varintBP128DeltaEncode64"]
M6_PAIRS = [("varintRLEAnalyze", "varintRLEEncode"), ("varintPFORSize", "varintPFOREncode")]


def field_leaf(fn, mod, addr):
    """name of the struct member addressed by a GEP (through casts), or None"""
    if addr["k"] != "inst": return None
    g = fn.imap[addr["v"]]
    if g.op == "bitcast": return field_leaf(fn, mod, g.ops[0])
    if g.op != "getelementptr" or "field" not in g.d: return None
    sname = g["field"]["struct"]; di = mod.ditypes.get(sname.split(".", 1)[1] if "." in sname else sname); st = mod.structs.get(sname)
    if di is None or st is None: return None
    off = st["fields"][g["field"]["field"]]["off"]
    for m in di["members"]:
        if m["off"] == off: return m["name"]
    return None


def meta_params(fn):
    out = []
    for k, p in enumerate(fn.params):
        di = p.get("di", "")
        if p["pointee_const"] or not di.endswith("*"): continue
        t = di.rstrip("* ").strip()
        if t in META_TYPES: out.append((k, t))
    return out


def strip_casts(fn, o):
    while o["k"] == "inst" and fn.imap[o["v"]].op in ("zext", "sext", "trunc", "bitcast"):
        o = fn.imap[o["v"]].ops[0]
    return o


def field_of(eng, fi, fn, addr_op, k, t):
    """(field name) if addr_op addresses a scalar field of the struct behind param k"""
    root, off = fi.ptr(addr_op)
    if root != ("arg", k) or not off.is_const(): return None
    for (n, o, s, isu) in eng.layout.di_fields(t):
        if o == off.c and not isu: return n
    return None


FAIL_OVERRIDE = {"varintDictGetStats": -1, "varintDictBuild": -1}


def failure_ret(fn, rc):
    return rc == FAIL_OVERRIDE.get(fn.name, 0)


def is_encoder(fn, psum):
    """writes an output byte buffer through a non-const uint8_t* parameter and returns a size"""
    if fn.d["ret"] != "i64": return False
    for k, p in enumerate(fn.params):
        if p["t"] == "i8*" and not p["pointee_const"] and ("arg", k, 0) in psum.mod: return True
    return False


def same_pure_call(fn, fi, w, a, b):
    """a and b are calls of the same side-effect-free function on identical operands with no write to the pointed-to
    objects in between (e.g. varintBitWriterBytes(&writer) evaluated twice)"""
    if a["k"] != "inst" or b["k"] != "inst": return False
    ia, ib = fn.imap[a["v"]], fn.imap[b["v"]]
    if ia.op != "call" or ib.op != "call" or ia.get("callee") != ib.get("callee") or ia.get("callee") is None: return False
    s = w.pts.summ.get(ia["callee"])
    if s is None or s.mod: return False
    for n in range(ia["nargs"]):
        x, y = ia.ops[n], ib.ops[n]
        if (x["k"], x.get("v")) != (y["k"], y.get("v")): return False
    roots = {fi.ptr(ia.ops[n])[0] for n in range(ia["nargs"]) if ia.ops[n]["t"].endswith("*")}
    first, second = (ia, ib) if (ia.block.id, ia.idx) != (ib.block.id, ib.idx) and (ib.block.id in fn.reachable(ia.block.id)) else (ib, ia)
    between = fn.reachable(first.block.id)
    for i in fn.insts():
        if i.block.id not in between or second.block.id not in fn.reachable(i.block.id): continue
        if i.block is first.block and i.idx <= first.idx: continue
        if i.block is second.block and i.idx >= second.idx: continue
        if i.op == "store" and fi.ptr(i.ops[1])[0] in roots: return False
        if i.op == "call" and i is not first and i is not second:
            c = i.get("callee") or ""
            cs = w.pts.summ.get(c)
            if c.startswith("llvm.mem") and fi.ptr(i.ops[0])[0] in roots: return False
            if cs is not None and cs.mod:
                for n in range(i["nargs"]):
                    if i.ops[n]["t"].endswith("*") and fi.ptr(i.ops[n])[0] in roots: return False
    return True


def analyse(mod, run, label):
    w = World(mod); eng = Engine(mod, w)
    nwriters = 0; covered = {"M2": [], "M3": []}
    for fn in sorted(mod.defined(), key=lambda f: f.name):
        mps = meta_params(fn)
        if not mps: continue
        fu = eng.fa[fn.name]; s = eng.summ[fn.name]; fi = fu.fi
        psum = w.pts.summ[fn.name]
        for (k, t) in mps:
            if ("arg", k, 0) not in psum.mod: continue      # does not write it
            nwriters += 1
            pname = fn.argnames.get(k, "#%d" % k)
            inout = bool(s.rbw.get(k, 0))
            # ---- M1 ----
            need = eng.layout.di_leaf(t)
            if inout:
                run.check((fn.name, pname) in INOUT_CONFIRMED, "M9-output-metadata-not-read-first", {"fn": fn.name, "param": pname},
                          Finding("M9-output-metadata-read-before-written", fn.name, "%s.%s" % (t, ",".join(field_names(eng.layout, "%struct." + t, s.rbw[k]))), "param:%s" % pname,
                                  "%s reads %s of its metadata parameter '%s' before writing it: what the caller left there (e.g. the metadata of an earlier call) now influences the result; only %s are documented in/out metadata parameters" % (
                                      fn.name, ", ".join(field_names(eng.layout, "%struct." + t, s.rbw[k])), pname, ", ".join(sorted("%s(%s)" % x for x in INOUT_CONFIRMED))), loc=rel(fn.file) + ":%s" % fn.line))
                run.observe("%s: %s is an in/out parameter (reads %s before writing): M1 not applicable, the in-side is C15's" % (fn.name, pname, field_names(eng.layout, "%struct." + t, s.rbw[k])))
            else:
                classes = s.mw_ret.get(k, {})
                for rc, mask in sorted(classes.items(), key=repr):
                    if fn.d["ret"] != "void" and rc is not None and failure_ret(fn, rc): continue
                    miss = need & ~mask
                    names = field_names(eng.layout, "%struct." + t, miss) if miss else []
                    run.check(not miss, "M1-fields-complete", {"fn": fn.name, "meta": t, "return_class": "non-constant" if rc is None else rc, "fields": len(eng.layout.di_fields(t))},
                              Finding("M1-field-not-written", fn.name, "%s.%s" % (t, ",".join(names)), "return:%s" % ("value" if rc is None else rc),
                                      "%s: on a success return (%s) the metadata field(s) %s of %s are not written on every path" % (fn.name, "computed value" if rc is None else "constant %s" % rc, ", ".join(names), t), loc=rel(fn.file) + ":%s" % fn.line))
            # ---- M10: a stored minimum / maximum that is accumulated over the input array comes from a scan that cannot stop early ----
            def scan_of(gfn, v):
                """(header phi of the accumulating loop, early exits) for a value of gfn, or None"""
                v = strip_casts(gfn, v)
                if v["k"] != "inst": return None
                gl = gfn.loops(); gfi = w.fi(gfn).prepare()
                def header_phi(o, d=0, seen=()):
                    if o["k"] != "inst" or d > 4 or o["v"] in seen: return None
                    x = gfn.imap[o["v"]]
                    if x.op == "phi":
                        if x.block.id in gl and any(inc["b"] in gl[x.block.id] for inc in x["incoming"]): return x
                        for inc in x["incoming"]:
                            r = header_phi(inc["v"], d + 1, seen + (o["v"],))
                            if r is not None: return r
                    if x.op == "select":
                        for y in x.ops[1:3]:
                            r = header_phi(y, d + 1, seen + (o["v"],))
                            if r is not None: return r
                    return None
                ph = header_phi(v)
                if ph is None: return None
                body = gl[ph.block.id]
                scans = any(x.op == "load" and x.block.id in body and gfi.ptr(x.ops[0])[0][0] == "arg" and gfn.params[gfi.ptr(x.ops[0])[0][1]]["pointee_const"] and not gfi.ptr(x.ops[0])[1].is_const() for x in gfn.insts())
                if not scans: return None
                exits = [(b0, sx.id) for b0 in body for sx in gfn.bmap[b0].succs if sx.id not in body]
                return ph, [e for e in exits if e[0] != ph.block.id]
            for i in fn.insts():
                if i.op != "store": continue
                fld = field_of(eng, fi, fn, i.ops[1], k, t)
                if fld is None or "." in fld or not EXTREME_FIELDS.match(fld): continue
                v = strip_casts(fn, i.ops[0])
                cands = []
                def origins(gfn_, val, d=0):
                    # a file-local "fill the metadata" helper (possibly calling another one): the value comes from its callers
                    val = strip_casts(gfn_, val)
                    if val["k"] == "arg" and gfn_.internal and d < 3:
                        for g2 in mod.defined():
                            for c2 in g2.calls(gfn_.name):
                                if val["v"] < c2["nargs"]: origins(g2, c2.ops[val["v"]], d + 1)
                    else: cands.append((gfn_, val))
                origins(fn, v)
                for (gfn, gv) in cands:
                    sc = scan_of(gfn, gv)
                    if sc is None: continue
                    ph, early = sc
                    run.m10 = getattr(run, "m10", 0) + 1
                    run.check(not early, "M10-extreme-value-scan-is-complete", {"fn": gfn.name, "field": fld},
                              Finding("M10-extreme-value-scan-stops-early", gfn.name, "%s.%s" % (t, fld), "loop",
                                      "%s accumulates %s over the input array in a loop that can be left before the last element (exit from block %s): the stored value is the extreme of a prefix only" % (
                                          gfn.name, fld, early[0][0] if early else ""), loc=loc(i)))
            # ---- stores to fields: M2, M3, M5 ----
            rets = [x for x in fn.rets() if x.ops]
            cparam = fn.param_index("count")
            for (fld, v, i, direct) in effective_stores(mod, w, eng, fn, fi, k, t):
                leaf = fld.split(".")[-1]
                # M2
                if SIZE_FIELDS.match(leaf) and "." not in fld and is_encoder(fn, psum):
                    lv = fi.lin(v)
                    good = None; reach = fn.reachable(i.block.id)
                    for r in rets:
                        rv = r.ops[0]
                        cands = [(rv, r.block.id)]
                        # the returned value may be merged (single exit through a `done:` label, possibly nested): the ways it was chosen
                        def unphi(val, via, d=0):
                            if val["k"] == "inst" and fn.imap[val["v"]].op == "phi" and d < 4 and fn.imap[val["v"]].block.id not in fn.loops():
                                out_ = []
                                for inc in fn.imap[val["v"]]["incoming"]:
                                    if inc["v"]["k"] in ("int", "null"): continue          # failure / empty returns
                                    out_ += unphi(inc["v"], inc["b"], d + 1)
                                return out_
                            return [(val, via)]
                        if rv["k"] == "inst" and fn.imap[rv["v"]].op == "phi": cands = unphi(rv, r.block.id)
                        for c, via in cands:
                            if via not in reach: continue                      # that return is not reached after this store
                            same = (fi.lin(c) == lv) or same_pure_call(fn, fi, w, strip_casts(fn, c), strip_casts(fn, v))
                            if not same:
                                # the returned cursor may be a merge of the paths (`ptr` after an if/else that each fill the metadata): on the
                                # way from this store only the incoming values that lie behind the store count
                                here = reach | {i.block.id}
                                def behind(l_, d_=0):
                                    for a_ in list(l_.atoms()):
                                        if not (isinstance(a_, tuple) and a_[0] == "pv") or d_ > 4: continue
                                        ph_ = fn.imap.get(a_[1])
                                        if ph_ is None or ph_.op != "phi" or ph_.block.id in fn.loops() or ph_.block.id not in here: continue
                                        alts_ = [behind(fi.ptr(x_["v"])[1], d_ + 1) for x_ in ph_["incoming"] if x_["b"] in here]
                                        if alts_ and all(al == alts_[0] for al in alts_): l_ = l_.subst(a_, alts_[0])
                                    return l_
                                same = behind(fi.lin(c)) == lv
                            if not same and c["k"] == "inst" and fn.imap[c["v"]].op == "load":
                                same = field_of(eng, fi, fn, fn.imap[c["v"]].ops[0], k, t) == fld
                            good = same if good is None else (good and same)
                    if good is not None:
                        covered["M2"].append(fn.name)
                        run.check(good, "M2-size-is-returned-distance", {"fn": fn.name, "field": fld, "stored": repr(lv)},
                                  Finding("M2-size-differs-from-return", fn.name, "%s.%s" % (t, fld), "store",
                                          "%s stores %r into %s but returns a different quantity: reported size differs from the returned size" % (fn.name, lv, fld), loc=loc(i)))
                # M3
                if COUNT_FIELDS.match(leaf) and cparam is not None and "." not in fld:
                    lv = fi.lin(v); la = fi.lin({"k": "arg", "v": cparam, "t": fn.params[cparam]["t"]})
                    isconst0 = v["k"] == "int" and int(v["v"]) == 0
                    if not isconst0:
                        covered["M3"].append(fn.name)
                        if lv != la:
                            # copied from the same field of a local metadata object that a callee filled from our count argument (the callee's
                            # own M3 vouches for what it stored there)
                            sv_ = strip_casts(fn, v)
                            if sv_["k"] == "inst" and fn.imap[sv_["v"]].op == "load":
                                r_, o_ = fi.ptr(fn.imap[sv_["v"]].ops[0])
                                if r_[0] == "alloca" and o_.is_const():
                                    for c_ in fn.calls():
                                        g_ = mod.fn(c_.get("callee") or "")
                                        if g_ is None or not g_.blocks: continue
                                        gc_ = g_.param_index("count")
                                        for (m_, t_) in meta_params(g_):
                                            if t_ != t or m_ >= c_["nargs"] or gc_ is None or gc_ >= c_["nargs"]: continue
                                            rr_, oo_ = fi.ptr(c_.ops[m_])
                                            if rr_ == r_ and oo_.is_const() and fi.lin(c_.ops[gc_]) == la:
                                                fo_ = next((n_ for (n_, off_, sz_, isu_) in eng.layout.di_fields(t) if off_ == o_.c - oo_.c and not isu_), None)
                                                if fo_ == fld: lv = la
                        run.check(lv == la, "M3-count-is-argument", {"fn": fn.name, "field": fld},
                                  Finding("M3-count-not-argument", fn.name, "%s.%s" % (t, fld), "store",
                                          "%s stores %r into %s, not its count argument" % (fn.name, lv, fld), loc=loc(i)))
                # M5
                if not direct: continue                      # (M5 follows helpers from the helper's side, below)
                if NAMED_KINDS.match(leaf) and v["k"] == "int" and "." not in fld:
                    ok5 = empty_input_only(fn, fi, i, cparam)
                    if not ok5 and fn.internal:
                        # a file-local helper that resets the metadata: the question moves to its call sites
                        sites = [(g2, c2) for g2 in mod.defined() for c2 in g2.calls(fn.name)]
                        ok5 = bool(sites) and all(empty_input_only(g2, w.fi(g2).prepare(), c2, g2.param_index("count"), is_call=True) for g2, c2 in sites)
                    run.check(ok5, "M5-no-placeholder", {"fn": fn.name, "field": fld, "const": v["v"], "only_on_empty_or_failure": True},
                              Finding("M5-placeholder-constant", fn.name, "%s.%s" % (t, fld), "store", "%s stores the constant %s into %s on a path that returns success for non-empty input: a constant cannot equal the truth for every input" % (fn.name, v["v"], fld), loc=loc(i), quant=v["v"]))
                elif v["k"] == "int" and "." not in fld:
                    if not empty_input_only(fn, fi, i, cparam):
                        run.observe("%s stores constant %s into %s.%s (not one of the kinds the property names)" % (fn.name, v["v"], t, fld))
    if label != "control": covered["M11"] = ["varintPFORComputeThreshold"] * m11_exception_count(mod, run, w)
    return nwriters, covered, eng


def m11_exception_count(mod, run, w):
    """M11: meta->exceptionCount of the patched codec is a count of the elements above the threshold value.
    varintPFOREncode allocates exceptionCount records and fills one per element with `value > thresholdValue`; it then writes all
    exceptionCount of them.  The two only agree when the analysis counted with that very test over every element - a figure derived from
    positions in the sorted copy differs as soon as values tie with the percentile value (records that were never filled get written)."""
    from .c06 import field_of as named_field
    pf = mod.fn("varintPFORComputeThreshold")
    if pf is None or not pf.blocks: raise AnalysisBroken("anchor function vanished: varintPFORComputeThreshold")
    # where the field is stored: the function itself, a core helper it calls, or a fill helper handed the value
    cands = []          # (function, stored operand)
    seen = {pf.name}; work = [pf]
    while work:
        g = work.pop()
        for i in g.insts():
            if i.op == "store" and named_field(g, mod, i.ops[1]) == "exceptionCount" and i.ops[0]["k"] != "int": cands.append((g, i.ops[0], i))
        for c in g.calls():
            h = mod.fn(c.get("callee") or "")
            if h is None or not h.internal or not h.blocks: continue
            for j in h.insts():
                if j.op == "store" and named_field(h, mod, j.ops[1]) == "exceptionCount":
                    hv = strip_casts(h, j.ops[0])
                    if hv["k"] == "arg" and hv["v"] < c["nargs"] and c.ops[hv["v"]]["k"] != "int": cands.append((g, c.ops[hv["v"]], c))
            if h.name not in seen: seen.add(h.name); work.append(h)
    cands = [(g, v, st) for (g, v, st) in cands if strip_casts(g, v)["k"] != "arg"]        # (an argument handed on: judged where it was computed)
    if not cands: raise AnalysisBroken("M11: no computed value is stored into exceptionCount under varintPFORComputeThreshold")
    n = 0
    cands2 = []
    for g, v, st in cands:
        # counted by a file-local helper (`countAbove(values, count, thresholdValue)`): judged on what that helper returns
        sv = strip_casts(g, v); vk0 = g.param_index("values")
        if sv["k"] == "inst" and g.imap[sv["v"]].op == "call":
            cl = g.imap[sv["v"]]; h = mod.fn(cl.get("callee") or "")
            if h is not None and h.internal and h.blocks:
                fig = w.fi(g).prepare()
                hk = next((k_ for k_ in range(cl["nargs"]) if cl.ops[k_]["t"].endswith("*") and fig.ptr(cl.ops[k_])[0] == ("arg", vk0)), None)
                rets = [r.ops[0] for r in h.rets() if r.ops]
                if hk is not None and len(rets) == 1: cands2.append((h, rets[0], st, hk)); continue
        cands2.append((g, v, st, vk0))
    for g, v, st, vk in cands2:
        n += 1
        loops = g.loops(); v = strip_casts(g, v)
        # the value after the loop is the header phi of a counting loop (possibly through exit merges)
        hp = None; seenv = set(); stack = [v]
        while stack:
            o = strip_casts(g, stack.pop())
            if o["k"] != "inst" or o["v"] in seenv: continue
            seenv.add(o["v"]); x = g.imap[o["v"]]
            if x.op == "phi" and x.block.id in loops: hp = x; break
            if x.op == "phi": stack += [c_["v"] for c_ in x["incoming"]]
        why = None; undecided = None
        def positional(o, d=0):
            """pure arithmetic over parameters and constants (an index computation): no element of any array, no search result enters"""
            o = strip_casts(g, o)
            if o["k"] in ("int", "arg"): return True
            if o["k"] != "inst" or d > 12: return False
            x = g.imap[o["v"]]
            if x.op in ("add", "sub", "mul", "udiv", "sdiv", "urem", "shl", "lshr", "and", "select", "icmp"): return all(positional(y, d + 1) for y in x.ops)
            if x.op == "phi" and x.block.id not in loops: return all(positional(c_["v"], d + 1) for c_ in x["incoming"])
            return False
        if hp is None:
            if positional(v): why = "it is computed from positions (%s of parameters and indices), not counted" % (g.imap[v["v"]].op if v["k"] == "inst" else "a copy")
            else: undecided = "it is not a running count; whether the figure equals the number of elements above the threshold is a value-level question"
        else:
            body = loops[hp.block.id]
            ins = [c_ for c_ in hp["incoming"] if c_["b"] not in body]; backs = [c_ for c_ in hp["incoming"] if c_["b"] in body]
            if not (len(ins) == 1 and ins[0]["v"]["k"] == "int" and int(ins[0]["v"]["v"]) == 0):
                if len(ins) == 1 and positional(ins[0]["v"]): why = "the count starts from a figure computed from positions, and is only ever increased from there"
                else: undecided = "the count does not start from 0"
            else:
                # every increment sits on the true side of `element > T` with the element loaded from the input array
                incs = []; stack = [c_["v"] for c_ in backs]; seen2 = set()
                while stack:
                    o = strip_casts(g, stack.pop())
                    if o["k"] != "inst" or o["v"] in seen2 or o["v"] == hp.id: continue
                    seen2.add(o["v"]); x = g.imap[o["v"]]
                    if x.op == "phi": stack += [c_["v"] for c_ in x["incoming"]]
                    elif x.op == "select": incs.append(x)
                    elif x.op == "add": incs.append(x)
                    else: undecided = "the count is updated by %s" % x.op
                fi = w.fi(g).prepare(); g.dom()
                def elem_above(ci, truth_needed=True):
                    if ci.op != "icmp": return False
                    a, b = strip_casts(g, ci.ops[0]), strip_casts(g, ci.ops[1]); p = ci["pred"]
                    if p in ("ult", "slt"): a, b = b, a
                    elif p not in ("ugt", "sgt"): return False
                    if a["k"] != "inst" or g.imap[a["v"]].op != "load": return False
                    return fi.ptr(g.imap[a["v"]].ops[0])[0] == ("arg", vk)
                for x in incs:
                    if why or undecided: break
                    if x.op == "add":
                        # `n += (values[i] > T)`: the comparison itself is what is added
                        flag = next((strip_casts(g, o_) for o_ in x.ops if strip_casts(g, o_)["k"] == "inst" and g.imap[strip_casts(g, o_)["v"]].op == "icmp"), None)
                        if flag is not None:
                            if not elem_above(g.imap[flag["v"]]): undecided = "what is added to the count is a comparison on something other than an element of the input"
                            continue
                        if not (x.ops[1]["k"] == "int" and int(x.ops[1]["v"]) == 1): undecided = "the count moves by something other than one"; break
                        guarded = False
                        for d in g.dom_chain(x.block.id):
                            blk = g.bmap[d]
                            if len(blk.preds) != 1 or blk.id not in body: continue
                            t = blk.preds[0].term
                            if t.op == "br" and len(t.ops) == 3 and t.ops[0]["k"] == "inst" and t.ops[2]["v"] == blk.id and t.ops[1]["v"] != blk.id and elem_above(g.imap[t.ops[0]["v"]]): guarded = True
                        if not guarded:
                            anycmp = any(len(g.bmap[d_].preds) == 1 and g.bmap[d_].preds[0].term.op == "br" and len(g.bmap[d_].preds[0].term.ops) == 3 for d_ in g.dom_chain(x.block.id) if d_ in body and d_ != hp.block.id)
                            if anycmp: undecided = "an increment is governed by a test that is not `values[i] > thresholdValue` on an element of the input"
                            else: why = "an increment is not governed by any test of an element"
                    else:
                        c0 = strip_casts(g, x.ops[0])
                        if not (c0["k"] == "inst" and elem_above(g.imap[c0["v"]])): undecided = "an increment is selected by a test that is not `values[i] > thresholdValue` on an element of the input"
                if not incs and not why: why = "the count is never incremented"
        if why is None and undecided is not None:
            run.defer_broken("M11 %s: %s (stored at %s)" % (g.name, undecided, loc(st))); continue
        run.check(why is None, "M11-exception-count-is-counted", {"fn": g.name, "at": loc(st)},
                  Finding("M11-exception-count-not-counted", g.name, "exceptionCount", "store",
                          "the value stored into exceptionCount at %s is not a count of the input elements above the threshold value: %s. varintPFOREncode writes that many exception records but fills one per element above the threshold, so the two must be the same count (ties with the percentile value make a position-derived figure larger: unwritten records are emitted)" % (loc(st), why), loc=loc(st)))
    return n


def effective_stores(mod, w, eng, fn, fi, k, t):
    """(field, stored value as seen in fn, instruction of fn, direct?) for every store to a scalar field of the metadata behind parameter k:
    the function's own stores, and those a file-local "fill the metadata" helper makes from the arguments fn passes it"""
    for i in fn.insts():
        if i.op == "store":
            fld = field_of(eng, fi, fn, i.ops[1], k, t)
            if fld is not None: yield fld, i.ops[0], i, True
        elif i.op == "call":
            h = mod.fn(i.get("callee") or "")
            if h is None or not h.internal or h is fn or not h.blocks: continue
            hfi = None
            for (m, t2) in meta_params(h):
                if t2 != t or m >= i["nargs"]: continue
                root, off = fi.ptr(i.ops[m])
                if root != ("arg", k) or not off.is_const() or off.c != 0: continue
                hfi = hfi or w.fi(h).prepare()
                for j in h.insts():
                    if j.op != "store": continue
                    fld = field_of(eng, hfi, h, j.ops[1], m, t)
                    if fld is None: continue
                    hv = strip_casts(h, j.ops[0])
                    if hv["k"] == "arg" and hv["v"] < i["nargs"]: yield fld, i.ops[hv["v"]], i, False


def empty_input_only(fn, fi, st, cparam, is_call=False):
    """the constant store only happens for empty input (dominated by count == 0) or on paths that can only return 0"""
    fn.dom()
    # (a) every return reachable from the store's block returns constant 0
    reach = fn.reachable(st.block.id)
    rets = [b.term for b in fn.blocks if b.id in reach and b.term.op == "ret"]
    def ret_is_zero_from(r):
        if not r.ops: return False
        v = r.ops[0]
        if v["k"] == "int": return int(v["v"]) == 0
        if v["k"] == "inst" and fn.imap[v["v"]].op == "phi" and fn.imap[v["v"]].block is r.block:
            for inc in fn.imap[v["v"]]["incoming"]:
                if inc["b"] in reach or inc["b"] == st.block.id:
                    if not (inc["v"]["k"] == "int" and int(inc["v"]["v"]) == 0): return False
            return True
        return False
    if rets and all(ret_is_zero_from(r) for r in rets): return True
    # (b) dominated by an edge on which the count parameter is 0
    if cparam is not None:
        for d in fn.dom_chain(st.block.id):
            blk = fn.bmap[d]
            if len(blk.preds) != 1: continue
            t = blk.preds[0].term
            if t.op != "br" or len(t.ops) != 3 or t.ops[0]["k"] != "inst": continue
            ci = fn.imap[t.ops[0]["v"]]
            if ci.op != "icmp" or ci["pred"] not in ("eq", "ne"): continue
            a, b = ci.ops
            if a["k"] == "arg" and a["v"] == cparam and b["k"] == "int" and int(b["v"]) == 0:
                on_zero = t.ops[2]["v"] if ci["pred"] == "eq" else t.ops[1]["v"]
                if on_zero == d: return True
    if is_call: return False
    # (c) the field is overwritten later on every path (an initialiser, not a placeholder): approximate by a later non-constant store to the same location that post-dates this one in a block reachable from here
    root, off = fi.ptr(st.ops[1])
    for i in fn.insts():
        if i is st or i.op not in ("store",): continue
        r2, o2 = fi.ptr(i.ops[1])
        if r2 == root and o2 == off and i.ops[0]["k"] != "int" and (i.block.id in fn.reachable(st.block.id)) and i.block.id != st.block.id:
            if fn.dominates(st.block.id, i.block.id) or True: return True
    return False


def controls(run):
    m = Module(build_module("ctl-meta", [os.path.join(VERIF, "controls", "meta_controls.c")], "ndebug"))
    probe = Run("C16-control", "quick")
    analyse(m, probe, "control")
    got = {(f.rule, f.function) for f in probe.findings}
    for rule, fn in [("M1-field-not-written", "ctl_meta_missing"), ("M2-size-differs-from-return", "ctl_meta_size_off"),
                     ("M3-count-not-argument", "ctl_meta_count_wrong"), ("M5-placeholder-constant", "ctl_meta_placeholder")]:
        run.control("%s/%s" % (rule, fn), (rule, fn) in got)
    clean = [(f.rule, f.function) for f in probe.findings if "clean" in f.function]
    run.control("silent on clean controls %s" % clean, not clean)


def run(tier):
    run = Run(PROP, tier, level="other", technique="out-parameter must-write dataflow (field completeness) + SSA/linear-form equality of stored and returned sizes/counts on LLVM IR")
    per = {}
    for cfg in configs_for(tier):
        mod = lib_module(cfg)
        for a in ANCHORS: need_fn(mod, a)
        n, cov, eng = analyse(mod, run, cfg)
        per[cfg] = {"metadata_writer_params": n, "M2_functions": sorted(set(cov["M2"])), "M3_functions": sorted(set(cov["M3"]))}
        run.floor("metadata writer parameters (%s)" % cfg, n, 18)
        run.floor("functions with a checked size field (%s)" % cfg, len(set(cov["M2"])), 6)
        run.floor("functions with a checked count field (%s)" % cfg, len(set(cov["M3"])), 8)
        run.floor("extreme-value scans (%s)" % cfg, getattr(run, "m10", 0), 1); run.m10 = 0
        # M6: a size reported by an analysis function is made of the same length terms as the cursor advances of the encoder it describes
        from .. import sizeterms as ST
        n6 = 0
        for pred, enc in M6_PAIRS:
            pt, et, unc, unexp, _note = ST.paired_terms(mod, need_fn(mod, pred), need_fn(mod, enc), cfg, True)
            if not pt or not et: raise AnalysisBroken("M6: no size terms for %s / %s" % (pred, enc))
            n6 += 1
            pf = mod.fn(pred)
            run.check(not unc and not unexp, "M6-reported-size-terms-agree", {"analysis": pred, "encoder": enc, "terms": len(et)},
                      Finding("M6-reported-size-terms-differ", pred, enc, "terms", "the size %s reports is not built from the same length terms as %s's output (%d encoder term(s) unaccounted, %d extra)" % (pred, enc, len(unc), len(unexp)),
                              loc="%s:%s" % (rel(pf.file), pf.line)))
        run.floor("analysis/encoder size-term pairs (%s)" % cfg, n6, len(M6_PAIRS))
        # M8: the reported number of blocks of the four BP128 encoders equals ceil(values packed into blocks / 128), for every count
        from ..core import World as _W
        from ..esize import UB, Poly, Unbounded, udiv_poly, residue_eval
        w8 = _W(mod); n8 = 0
        for enc in M8_ENCODERS:
            f = need_fn(mod, enc); u = UB(w8, f); u.q = True
            ck = f.param_index("count")
            if ck is None: raise AnalysisBroken("M8: %s has no count parameter" % enc)
            ca = u.arg_atom(ck)
            # how many values go into blocks: the span of the block loop / the dividend of fullBlocks / the initial value of the decrement loop
            span = None
            for h in u.loops:
                blk = u.block_loop(h)
                if blk is not None: span = blk[2]
                t = f.bmap[h].term
                if span is None and t.op == "br" and len(t.ops) == 3 and t.ops[0]["k"] == "inst":
                    ci = f.imap[t.ops[0]["v"]]
                    if ci.op == "icmp" and ci.ops[0]["k"] == "inst" and f.imap[ci.ops[0]["v"]].op == "phi":
                        d = u.decrement_loop(f.imap[ci.ops[0]["v"]])
                        if d is not None: span = u.exact(d[0])
                    if span is None and ci.op == "icmp" and ci.ops[1]["k"] == "inst":
                        x = f.imap[ci.ops[1]["v"]]
                        if x.op == "udiv" and x.ops[1]["k"] == "int" and int(x.ops[1]["v"]) == 128: span = u.exact(x.ops[0])
            if span is None: raise AnalysisBroken("M8: block structure of %s not recognised" % enc)
            want = udiv_poly(span + Poly.const(127), 128)
            stores = [(i, i.ops[0]) for i in f.insts() if i.op == "store" and field_leaf(f, mod, i.ops[1]) == "blockCount"]
            if not stores:
                # filled in by a file-local helper from a value this function passes it
                ffi = w8.fi(f).prepare()
                for (mk_, mt_) in meta_params(f):
                    stores += [(i, v) for (fld, v, i, direct) in effective_stores(mod, w8, eng, f, ffi, mk_, mt_) if fld == "blockCount" and not direct]
            if not stores: run.defer_broken("M8: %s does not store blockCount" % enc); continue
            for st, stv in stores:
                u.site = st.block
                got = u.exact(stv)
                if got is None: run.defer_broken("M8 %s: the value stored into blockCount at %s is not an exact expression of count" % (enc, loc(st))); continue
                # the store may sit on one side of a test of the remainder (`if (remaining > 0) ... else ...`): it only speaks for the counts
                # that reach it
                conds = []
                f.dom()
                for dblk in f.dom_chain(st.block.id):
                    bb_ = f.bmap[dblk]
                    if len(bb_.preds) != 1: continue
                    tt = bb_.preds[0].term
                    if tt.op != "br" or len(tt.ops) != 3 or tt.ops[0]["k"] != "inst" or tt.ops[1]["v"] == tt.ops[2]["v"]: continue
                    gi = f.imap[tt.ops[0]["v"]]
                    if gi.op != "icmp" or gi.ops[1]["k"] != "int" or int(gi.ops[1]["v"]) != 0 or gi["pred"] not in ("ugt", "ne", "eq"): continue
                    u.site = bb_.preds[0]
                    ge = u.exact(gi.ops[0])
                    if ge is None: continue
                    positive = (tt.ops[2]["v"] == dblk) == (gi["pred"] != "eq")
                    conds.append((ge, positive))
                u.site = st.block
                def reaches(r, qpos):
                    for ge, positive in conds:
                        try: gv = residue_eval(ge, ca, 128, r, qpos)
                        except Unbounded: continue
                        if gv.is_const() and (gv.c() > 0) != positive: return False
                    return True
                bad = None
                try:
                    for r in range(128):
                        for qpos in (False, True):
                            if not qpos and r == 0: continue
                            if not reaches(r, qpos): continue
                            a = residue_eval(got, ca, 128, r, qpos); b = residue_eval(want, ca, 128, r, qpos)
                            if a != b: bad = (r, qpos, a, b); break
                        if bad: break
                except Unbounded as e:
                    run.defer_broken("M8 %s: %s" % (enc, e)); continue
                n8 += 1
                run.check(bad is None, "M8-block-count-is-ceil-of-packed-values", {"fn": enc, "stored": repr(got), "packed_values": repr(span)},
                          Finding("M8-block-count-wrong", enc, "varintBP128Meta.blockCount", "store",
                                  "%s stores blockCount = %r but packs %r values into blocks of 128: for count = %s the two differ (%r blocks reported, %r written)" % (
                                      enc, got, span, ("128*q + %d (q >= 1)" % bad[0]) if bad and bad[1] else (bad[0] if bad else ""), bad[2] if bad else "", bad[3] if bad else ""), loc=loc(st)))
        if not getattr(run, "deferred", None): run.floor("BP128 block-count stores (%s)" % cfg, n8, 4)
    controls(run)
    run.coverage.update({"configurations": per,
                         "not_decided": "that minValue is the minimum, that runCount / exceptionCount / totalBits are numerically right (value-level); sizes reported by *Analyze functions vs bytes later written are C03's exact-predictor clause; M4 (header readers parse the writer's layout) is listed separately when built"})
    return run.finish(
        "For every function that writes a metadata struct through a non-const parameter: (M1) on every success return each scalar field "
        "is definitely written (must-write summary per return class, pure out-parameters only); (M2) the value stored into encodedSize/"
        "encodedBytes is, as a linear form over SSA values, the value returned; (M3) the count field receives the count argument; (M5) no "
        "field of a kind the property names is stored a literal constant on a path that returns success for non-empty input.")
