"""C13 - decoders never write beyond the caller's output capacity (E-BOUNDS).  DESIGN 4/C13."""
import os
from ..report import Run, Finding, rel
from ..common import lib_module, configs_for, need_fn, with_helpers_inlined, local_helpers_of
from ..build import AnalysisBroken, build_module, VERIF
from ..ir import Module
from ..core import World
from ..lin import Lin
from ..bounds import Bounds

PROP = "C13"
# function: (output parameter, capacity parameter, bytes per element) - confirmed by reading the prototypes in src/*.h
TABLE = {
    "varintFORDecode": ("values", "maxCount", 8), "varintFORBatchDecode": ("values", "maxCount", 8), "varintFORDecodeBlock": ("values", "blockSize", 8),
    "varintGroupDecode": ("values", "maxFields", 8), "varintDictDecodeInto": ("output", "maxValues", 8),
    "varintRLEDecode": ("values", "maxCount", 8), "varintRLEDecodeWithHeader": ("values", "maxCount", 8),
    "varintEliasGammaDecodeArray": ("values", "maxCount", 8), "varintEliasDeltaDecodeArray": ("values", "maxCount", 8),
    "varintBP128Decode32": ("values", "maxCount", 4), "varintBP128Decode64": ("values", "maxCount", 8),
    "varintBP128DeltaDecode32": ("values", "maxCount", 4), "varintBP128DeltaDecode64": ("values", "maxCount", 8),
    "varintAdaptiveDecode": ("values", "maxCount", 8),
    # count-as-capacity decoders
    "varintDeltaDecode": ("output", "count", 8), "varintDeltaDecodeUnsigned": ("output", "count", 8), "varintFloatDecode": ("output", "count", 8),
}


def loc(i): return "%s:%s" % (rel(i.d.get("file", i.fn.file)), i.d.get("line", "?"))


def analyse(mod, run, label, table=TABLE):
    w = World(mod); B = Bounds(w); n_inst = 0; summaries = {}
    for name, (outn, capn, esz) in table.items():
        fn = mod.fn(name)
        if fn is not None and fn.param_index(outn) is not None and fn.param_index(capn) is not None:
            B.contracts[(name, fn.param_index(outn))] = ("arg", fn.param_index(capn), esz)
    for name, (outn, capn, esz) in sorted(table.items()):
        fn = mod.fn(name)
        if fn is None: raise AnalysisBroken("anchor function vanished: %s" % name)
        outp = fn.param_index(outn); capp = fn.param_index(capn)
        if outp is None or capp is None:
            raise AnalysisBroken("%s: parameters %s/%s not found (have %s)" % (name, outn, capn, fn.argnames))
        n_inst += 1
        fi = w.fi(fn).prepare()
        cap = Lin.atom(("arg", capp)).scale(esz)
        n, bad, okl = B.check(fn, ("arg", outp), cap, "w")
        if n == 0: raise AnalysisBroken("%s: no write through the output parameter was found" % name)
        if bad and label in ("ndebug", "asserts", "native"):
            # the capacity tests may have been given names (file-local predicates such as `roomLeft(decoded, maxCount)`): the same obligations
            # are tried on the function with its file-local helpers inlined.  That reading is only ever used to discharge - what gets reported
            # is always the plain reading.
            m2, f2 = with_helpers_inlined(mod, fn, label)
            if m2 is not None:
                w2 = World(m2); B2 = Bounds(w2); B2.contracts = {k_: v_ for k_, v_ in B.contracts.items() if k_[0] != name}
                B2.contracts[(name, outp)] = ("arg", capp, esz)
                n2, bad2, okl2 = B2.check(f2, ("arg", outp), cap, "w")
                if n2 and not bad2:
                    bad, okl = [], okl2
                    run.observe("W1 %s: proved with its file-local helpers %s inlined" % (name, ", ".join(local_helpers_of(mod, fn))))
        for (i, kind, off, sz) in okl:
            run.ok("W1-output-within-capacity", {"fn": name, "at": loc(i), "access": kind, "offset": repr(off), "size": repr(sz), "bound": "%d*%s" % (esz, capn)})
        for (i, kind, why) in bad:
            run.fail(Finding("W1-output-beyond-capacity", name, outn, kind, "%s at %s through '%s': %s; capacity is %d*%s bytes" % (kind, loc(i), outn, why, esz, capn), loc=loc(i)))
        # internal buffers: fixed local arrays and heap blocks sized from the capacity
        for i in fn.insts():
            root = None; ext = None; what = None
            if i.op == "alloca" and i["alloc_t"].startswith("["):
                root = ("alloca", i.id); ext = Lin.const(i["alloc_size"]); what = "local array %s (%d bytes)" % (i.d.get("varname", "?"), i["alloc_size"])
            elif i.op == "call" and i.get("callee") == "malloc":
                root = ("heap", i.id); ext = fi.lin(i.ops[0]); what = "heap block malloc(%r) from %s" % (ext, loc(i))
                if not any(a == ("arg", capp) for a in ext.atoms()) and not ext.is_const(): continue      # not capacity-sized
            if root is None: continue
            n2, bad2, ok2 = B.check(fn, root, ext, "w")
            for (j, kind, off, sz) in ok2:
                run.ok("W2-internal-buffer-in-bounds", {"fn": name, "buffer": what, "at": loc(j), "access": kind, "offset": repr(off)})
            for (j, kind, why) in bad2:
                run.fail(Finding("W2-internal-buffer-overrun", name, what.split(" (")[0].split(" from ")[0], kind, "%s at %s into %s: %s" % (kind, loc(j), what, why), loc=loc(j)))
        del B.contracts[(name, outp)]; summaries[name] = B.summary(name, outp, "w"); B.contracts[(name, outp)] = ("arg", capp, esz)
    return n_inst, summaries


def controls(run):
    m = Module(build_module("ctl-bounds", [os.path.join(VERIF, "controls", "bounds_controls.c")], "ndebug"))
    probe = Run("C13-control", "quick")
    tab = {"ctl_dec_noguard": ("values", "maxCount", 8), "ctl_dec_offbyone": ("values", "maxCount", 8), "ctl_dec_callee": ("values", "maxCount", 8),
           "ctl_dec_tmp": ("values", "maxCount", 8),
           "ctl_clean_guard": ("values", "maxCount", 8), "ctl_clean_clamp": ("values", "maxCount", 8), "ctl_clean_helper": ("values", "maxCount", 8),
           "ctl_clean_while": ("values", "maxCount", 8), "ctl_clean_forward": ("values", "maxCount", 8)}
    analyse(m, probe, "control", tab)
    got = {(f.rule, f.function) for f in probe.findings}
    for rule, fn in [("W1-output-beyond-capacity", "ctl_dec_noguard"), ("W1-output-beyond-capacity", "ctl_dec_offbyone"),
                     ("W1-output-beyond-capacity", "ctl_dec_callee"), ("W2-internal-buffer-overrun", "ctl_dec_tmp")]:
        run.control("%s/%s" % (rule, fn), (rule, fn) in got)
    clean = [(f.rule, f.function) for f in probe.findings if "clean" in f.function]
    run.control("silent on clean controls %s" % clean, not clean)


def run(tier):
    run = Run(PROP, tier, level="other", technique="symbolic region-bounds analysis (linear extents, dominating branch facts, callee write summaries) on LLVM IR")
    per = {}
    for cfg in configs_for(tier):
        mod = lib_module(cfg)
        n, summ = analyse(mod, run, cfg)
        per[cfg] = {"decoders": n, "write_extent_summaries": {k: list(map(str, v)) for k, v in summ.items()}}
        run.floor("capacity-taking decoders (%s)" % cfg, n, 17)
    controls(run)
    run.coverage.update({"configurations": per, "instance_table": {k: list(v) for k, v in TABLE.items()},
                         "not_decided": "whether the decoder returns 0 or a correct prefix when the data holds more than the capacity (the rule only bounds the writes); buffers inside shared helpers whose safety depends on a header field being a legal width"})
    run.assumptions += ["size_t arithmetic on caller-trusted quantities (capacities, element counts of real buffers) does not wrap",
                        "distinct pointer parameters do not overlap", "asserts are compiled out (NDEBUG, as in the pinned build): a bound that exists only inside assert() is not a bound"]
    return run.finish(
        "For each of the 17 capacity-taking decoders every store, memset/memcpy and callee write through the output parameter is collected with a "
        "symbolic byte offset; the obligation offset+size <= capacity*elemsize is proved from the branch conditions dominating the write "
        "(guards, clamps, loop bounds, min/ternary shapes), interprocedurally through callee write-extent summaries. Unproven = reported. "
        "Fixed local arrays and heap blocks sized from the capacity are checked the same way.")
