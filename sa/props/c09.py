"""C09 - packed bit arrays: element isolation, exactness, two-slot footprint (E2).  DESIGN 4/C09.
For every instantiation and every residue class of the element position modulo SLOT/gcd(BITS,SLOT):
 P1 Set: slot0' = old0 with bits [s, min(s+BITS,SLOT)) := val; slot1' = old1 with bits [0, s+BITS-SLOT) := the rest of val,
         and slot1 is touched only when the element straddles; no other location is read or written
 P2 Get: returns exactly those bits, zero-extended; reads only the occupied slots
 P3 SetHalf: writes Get()>>1 into the same bits (or nothing when the element is 0); SetIncr: only the element's bits change
 P4 slot addresses are base + floor(offset*BITS/SLOT)*sizeof(slot) (+1 slot)
Precondition used (documented, an assert in the source): val < 2^BITS; SetIncr result in range.
Not decided: sorted insert / delete / member / binary search (operation histories), the arithmetic of SetIncr."""
import json, os
from ..report import Run, Finding
from ..build import AnalysisBroken, build_module, VERIF, library_units
from ..ir import Module
from ..lin import Lin
from .. import e2
from ..e2 import E2, BV, Unsupported

PROP = "C09"


def field_spec(bits, slot, s):
    """expected placement: list of (slot index j, bit position in slot, value bit index)"""
    out = []
    for i in range(bits):
        pos = s + i
        out.append((pos // slot, pos % slot, i))
    return out


def check_inst(mod, run, d, tag):
    bits, slot, vb = d["bits"], d["slot"], d["value_bits"]; SB = slot // 8
    fnbase = d["fn"]; n = 0
    for op in ("Set", "Get", "SetHalf", "SetIncr"):
        fname = fnbase + op
        if mod.fn(fname) is None: raise AnalysisBroken("instantiation function %s not found" % fname)
        eng = E2(mod, sym_args={1: "offset"}, known_bits={2: bits} if op == "Set" else {})
        eng.arith_bits = bits
        if op == "SetIncr": eng.sym_args[2] = "incr"
        try: paths = eng.run(fname)
        except Unsupported as e: raise AnalysisBroken("E2: %s is outside the supported language: %s" % (fname, e))
        if not paths: raise AnalysisBroken("%s: no path" % fname)
        # P4: the bit position offset * BITS is formed in 64-bit arithmetic, or cannot exceed the narrower type for any index the length type allows
        for (mi, mbits, lin, factor) in getattr(eng, "narrow_products", []):
            symbolic_offset = any("offset" in repr(a) for a in lin.atoms())
            if not symbolic_offset or factor is None: continue
            lb = d.get("len_bits", 32); top = ((1 << lb) - 1) * factor
            run.check(top < (1 << mbits), "P4-bit-position-does-not-wrap", {"fn": fname, "product_bits": mbits, "max_index_bits": lb, "factor": factor},
                      Finding("P4-bit-position-wraps", fname, "offset*%d" % factor, "mul", "%s (%s) multiplies the element index by %d in %d-bit arithmetic: for indices up to 2^%d - 1 the bit position wraps and another element's slot is addressed" % (
                          fname, tag, factor, mbits, lb)))
        for p in paths:
            n += 1
            res = [c for c in p.cases if c[0] == "offset"]
            m, r = (res[0][1], res[0][2]) if res else (1, 0)
            s = (r * bits) % slot
            straddle = s + bits > slot
            # expected slot byte offsets as linear forms over the path's quotient symbol
            offl = eng.apply(Lin.atom("offset"), p)
            start = offl.scale(bits)
            if any(c % slot for c in start.t.values()): raise AnalysisBroken("%s: start bit not analysable" % fname)
            idx0 = Lin(start.c // slot, {a: c // slot for a, c in start.t.items()})
            want = {0: idx0.scale(SB), 1: (idx0 + 1).scale(SB)}
            def slot_of(key):
                off = p.offs[key[1]]
                for j, wl in want.items():
                    if (off - wl).is_const() and (off - wl).c == 0 and key[2] == SB: return j
                return None
            where = {"fn": fname, "residue": "offset = %d (mod %d)" % (r, m), "startBit": s, "straddles": straddle}
            touched = {}
            bad = None
            for key in list(p.reads) + list(p.writes):
                j = slot_of(key)
                if j is None: bad = "accesses %d bytes at byte offset %r, which is not slot floor(offset*%d/%d) or the next one" % (key[2], p.offs[key[1]], bits, slot); break
                touched[j] = True
            if bad is None and 1 in touched and not straddle: bad = "touches the following slot although the element fits in one slot (startBit %d, %d bits, %d-bit slots)" % (s, bits, slot)
            if bad is None and straddle and op != "Get" and p.writes and 1 not in {slot_of(k) for k in p.writes}: bad = "the element straddles two slots but only one is written"
            fs = field_spec(bits, slot, s)
            if bad is None and op in ("Set", "SetHalf", "SetIncr"):
                olds = {slot_of(k): v for k, v in p.reads.items()}
                for key, newv in p.writes.items():
                    j = slot_of(key); old = olds.get(j)
                    if old is None: bad = "slot %d is written without having been read (other elements' bits cannot be preserved)" % j; break
                    fieldbits = {pos: vi for (jj, pos, vi) in fs if jj == j}
                    for pos in range(slot):
                        got = newv.bits[pos]
                        if pos not in fieldbits:
                            if got != old.bits[pos]: bad = "bit %d of slot %d, which belongs to another element, becomes %s instead of staying %s" % (pos, j, e2.fmt_bit(got), e2.fmt_bit(old.bits[pos])); break
                        elif op == "Set":
                            if got != ("val", fieldbits[pos]): bad = "bit %d of slot %d receives %s, expected value bit %d" % (pos, j, e2.fmt_bit(got), fieldbits[pos]); break
                        elif op == "SetHalf":
                            # new field = old field >> 1
                            vi = fieldbits[pos]
                            src = next(((jj, pp) for (jj, pp, v2) in fs if v2 == vi + 1), None)
                            exp = 0 if src is None else olds[src[0]].bits[src[1]] if src[0] in olds else None
                            if exp is None or got != exp: bad = "SetHalf: bit %d of slot %d becomes %s, expected the next higher bit of the old element" % (pos, j, e2.fmt_bit(got)); break
                    if bad: break
                if bad is None and op == "Set" and not p.writes: bad = "Set writes nothing"
            if bad is None and op == "Get":
                olds = {slot_of(k): v for k, v in p.reads.items()}
                ret = p.ret
                if not isinstance(ret, BV): bad = "Get returns a non-bit value %r" % (ret,)
                else:
                    for i in range(ret.w):
                        if i < bits:
                            jj, pos, _ = fs[i]
                            exp = olds[jj].bits[pos] if jj in olds else None
                        else: exp = 0
                        if exp is None or ret.bits[i] != exp: bad = "Get: result bit %d is %s, expected %s" % (i, e2.fmt_bit(ret.bits[i]), "slot bit" if exp is None else e2.fmt_bit(exp)); break
                if bad is None and p.writes: bad = "Get writes memory"
            rule = {"Set": "P1-set-exact-and-isolated", "Get": "P2-get-exact", "SetHalf": "P3-half-incr-isolated", "SetIncr": "P3-half-incr-isolated"}[op]
            run.check(bad is None, rule, where,
                      Finding(rule.replace("exact", "wrong").replace("isolated", "leaks") + "", fname, "%dbit/%dslot%s" % (bits, slot, "/compact" if d["compact"] else ""), "startBit%d" % s,
                              "%s (%d-bit elements in %d-bit slots%s), positions with start bit %d: %s" % (fname, bits, slot, ", compact" if d["compact"] else "", s, bad)))
    return n


def p5_delete_stays_inside(mod, run, fnbase, tag, B, inlined=False):
    """P5: positional Delete(dst, len, offset) reads and writes elements 0 .. len-1 only: every index it hands to Set / Get is provably
    at most len - 1 (the element one past the array belongs to whatever is stored next)"""
    fn = mod.fn(fnbase + "Delete")
    if fn is None: return 0
    lk = fn.param_index("len")
    if lk is None: raise AnalysisBroken("%sDelete: parameter 'len' not found" % fnbase)
    fi, F, P = B.fp(fn)
    F.assume_no_wrap = True          # precondition of Delete: there is an element to delete (len >= 1), so `len - 1` does not wrap
    L = fi.lin({"k": "arg", "v": lk, "t": fn.params[lk]["t"]})
    n = 0
    for c in fn.calls():
        cal = c.get("callee") or ""
        if not (cal.startswith(fnbase) and (cal.endswith("Set") or cal.endswith("Get") or cal.endswith("SetHalf") or cal.endswith("SetIncr"))): continue
        n += 1
        idx = fi.lin(c.ops[1])
        ok = P.prove_at(idx - L + 1, c.block)
        run.check(ok, "P5-delete-touches-only-the-array", {"fn": fn.name, "call": cal, "index": repr(idx), "set": tag},
                  Finding("P5-delete-reaches-past-the-array", fn.name, cal, "index", "%s passes the element index %r to %s at %s; it is not provably <= len - 1: the element behind the array (other data in the same buffer, or memory past an exactly sized one) is read or overwritten" % (
                      fn.name, idx, cal, loc9(c)), loc=loc9(c)))
    if n == 0 and not inlined:
        # the element move may have become a static helper: the same obligation on Delete with its helpers inlined
        from ..common import with_helpers_inlined
        from ..core import World
        from ..bounds import Bounds
        keep = lambda h: not (h.name.endswith("Set") or h.name.endswith("Get") or h.name.endswith("SetHalf") or h.name.endswith("SetIncr"))
        if tag == "library": m2, f2 = with_helpers_inlined(mod, fn, "ndebug", only=keep)
        else:
            from ..common import local_helpers_of
            plan = local_helpers_of(mod, fn, keep)
            m2 = Module(build_module("packed-" + tag, [os.path.join(VERIF, "witness", "packed_%s.c" % tag)], "ndebug", inline=tuple(plan))) if plan else None
        if m2 is not None: return p5_delete_stays_inside(m2, run, fnbase, tag, Bounds(World(m2)), inlined=True)
    if n == 0: raise AnalysisBroken("%sDelete: no Set/Get call found" % fnbase)
    return n


def p6_lookup_reads_inside(mod, run, fnbase, tag, B):
    """P6: Member / DeleteMember look at an element only at an index that is provably below len (binary search returns len for a value
    above every element; the slot there holds whatever an earlier Delete left behind)"""
    n = 0
    for suffix in ("Member", "DeleteMember"):
        fn = mod.fn(fnbase + suffix)
        if fn is None: continue
        lk = fn.param_index("len")
        if lk is None: raise AnalysisBroken("%s%s: parameter 'len' not found" % (fnbase, suffix))
        fi, F, P = B.fp(fn)
        L = fi.lin({"k": "arg", "v": lk, "t": fn.params[lk]["t"]})
        for c in fn.calls():
            cal = c.get("callee") or ""
            if not (cal.startswith(fnbase) and cal.endswith("Get")): continue
            n += 1
            idx = fi.lin(c.ops[1])
            ok = P.prove_at(idx - L + 1, c.block)
            run.check(ok, "P6-lookup-reads-only-the-array", {"fn": fn.name, "index": repr(idx), "set": tag},
                      Finding("P6-lookup-reads-past-the-array", fn.name, cal, "index", "%s reads element %r at %s without a test that it is below len: for a value above every element the search returns len and the stale slot behind the array decides the answer" % (
                          fn.name, idx, loc9(c)), loc=loc9(c)))
    return n


def p7_midpoint_not_narrowed(mod, run, fnbase, tag):
    """P7: the midpoint of the lower-bound search is halved in the type the sum was formed in.  With an 8- or 16-bit length type the
    operands are promoted to int; `(LEN)(min + max) >> 1` narrows the sum first, so for min + max >= 2^bits the midpoint falls below min:
    the search loops or answers with an index that is not the first equal element."""
    fn = mod.fn(fnbase + "BinarySearch")
    if fn is None: return 0
    n = 0
    for i in fn.insts():
        halves = (i.op in ("lshr", "ashr") and i.ops[1]["k"] == "int" and int(i.ops[1]["v"]) == 1) or (i.op in ("udiv", "sdiv") and i.ops[1]["k"] == "int" and int(i.ops[1]["v"]) == 2)
        if not halves: continue
        o = i.ops[0]; narrowed = None; is_sum = False
        for _ in range(6):
            if o["k"] != "inst": break
            x = fn.imap[o["v"]]
            if x.op in ("zext", "sext"): o = x.ops[0]
            elif x.op == "trunc": narrowed = x; o = x.ops[0]
            elif x.op == "add": is_sum = True; break
            elif x.op == "sub": is_sum = True; narrowed = None; break            # `min + (max - min) / 2`: the difference always fits
            else: break
        if not is_sum: continue
        n += 1
        run.check(narrowed is None, "P7-search-midpoint-halved-before-narrowing", {"fn": fn.name, "set": tag},
                  Finding("P7-search-midpoint-narrowed-before-halving", fn.name, "mid", "arith",
                          "%s narrows min + max to %s before halving it (at %s): once the array is longer than half the range of the length type the sum wraps, the midpoint falls below min and the search does not find the first equal element (or does not terminate)" % (
                              fn.name, narrowed["t"] if narrowed is not None else "?", loc9(i)), loc=loc9(i)))
    if n == 0: raise AnalysisBroken("%s: no halving of min + max found in the binary search" % fn.name)
    return n


def loc9(i):
    from ..report import rel
    return "%s:%s" % (rel(i.d.get("file", i.fn.file)), i.d.get("line", "?"))


def load(which, cfg="ndebug"):
    src = os.path.join(VERIF, "witness", "packed_%s.c" % which)
    tab = json.load(open(os.path.join(VERIF, "witness", "packed_%s.json" % which)))
    mod = Module(build_module("packed-" + which, [src], cfg))
    return mod, tab


def controls(run):
    mod = Module(build_module("ctl-packed", [os.path.join(VERIF, "controls", "packed_controls.c")], "ndebug"))
    probe = Run("C09-control", "quick")
    for fn, d in (("ctlBad12", dict(bits=12, slot=32, compact=False, value_bits=16, fn="ctlBad12")), ("ctlLeak12", dict(bits=12, slot=32, compact=False, value_bits=16, fn="ctlLeak12")),
                   ("ctlWrap12", dict(bits=12, slot=32, compact=False, value_bits=16, fn="ctlWrap12", len_bits=32))):
        try: check_inst(mod, probe, d, "control")
        except AnalysisBroken as e: raise
    got = {f.function for f in probe.findings}
    run.control("wrong shift in split path is flagged", "ctlBad12Set" in got)
    run.control("unconditional access of the next slot is flagged", "ctlLeak12Get" in got or "ctlLeak12Set" in got)
    run.control("bit position formed in 32-bit arithmetic is flagged", any(f.rule == "P4-bit-position-wraps" and f.function.startswith("ctlWrap12") for f in probe.findings))


def run(tier):
    run = Run(PROP, tier, level="other", technique="bit-layout abstract interpretation partitioned by the congruence class of the element position (E2) on LLVM IR of generated instantiations")
    which = ["quick"] + (["thorough"] if tier == "thorough" else [])
    per = {}
    for wch in which:
        mod, tab = load(wch)
        n = 0
        for d in tab: n += check_inst(mod, run, d, wch)
        per[wch] = {"instantiations": len(tab), "path_x_residue_cases": n}
        run.floor("instantiations (%s)" % wch, len(tab), 15 if wch == "quick" else 100)
        run.floor("cases (%s)" % wch, n, 150)
    # the library's own instantiation (src/varintDimension.c: 12 bits, uint8_t slots, uint16_t promotion)
    from ..common import lib_module
    lm = lib_module("ndebug")
    nl = check_inst(lm, run, dict(bits=12, slot=8, compact=False, value_bits=16, fn="varintPacked12"), "library")
    from ..core import World
    from ..bounds import Bounds
    Bl = Bounds(World(lm))
    n5 = p5_delete_stays_inside(lm, run, "varintPacked12", "library", Bl)
    n6 = p6_lookup_reads_inside(lm, run, "varintPacked12", "library", Bl)
    # one generated instantiation per slot type as well (the code is the same macro text, the index type differs)
    qm, qtab = load("quick"); Bq = Bounds(World(qm)); seen_slots = set()
    for d in qtab:
        if d["slot"] in seen_slots or qm.fn(d["fn"] + "Delete") is None: continue
        seen_slots.add(d["slot"]); n5 += p5_delete_stays_inside(qm, run, d["fn"], "quick", Bq); n6 += p6_lookup_reads_inside(qm, run, d["fn"], "quick", Bq)
    n7 = p7_midpoint_not_narrowed(lm, run, "varintPacked12", "library")
    for d in qtab: n7 += p7_midpoint_not_narrowed(qm, run, d["fn"], "quick")
    run.floor("binary-search midpoints", n7, 2)
    per["library"] = {"instantiations": 1, "cases": nl, "delete_index_obligations": n5, "search_midpoints": n7}
    run.floor("Delete index obligations", n5, 2); run.floor("lookup index obligations", n6, 1)
    per["library"]["lookup_index_obligations"] = n6
    controls(run)
    run.coverage.update({"sets": per, "exhaustive": False,
                         "eligibility": "BITS <= SLOT + gcd(BITS,SLOT) (never three slots); compact (always-two-slots path) only when BITS > SLOT",
                         "not_decided": "sorted insert/delete/member/binary-search semantics over operation histories; SetIncr arithmetic"})
    run.assumptions += ["P5: Delete is called with len >= 1 and offset < len (there is an element to delete)", "val < 2^BITS (documented precondition; an assert in the source)", "SetIncr: the incremented value stays in range (precondition in the property)"]
    return run.finish(
        "Each Set/Get/SetHalf/SetIncr of each instantiation is interpreted abstractly with the element position as an opaque symbol; the division "
        "offset*BITS / SLOT partitions it into SLOT/gcd residue classes, inside which every shift and mask is constant and every output bit is a "
        "copy of an input bit. The resulting slot contents are compared bit by bit with the specified placement; touching any other location, "
        "or the second slot when the element does not straddle, is a violation.")
