"""C15 - results depend only on the arguments (no hidden state, no stale memory).  DESIGN 4/C15.
 S1 (E-PTS) no mutable static storage, no stateful external callee
 S2 (E-UNINIT) every byte of a stack/heap struct or scalar that is read - locally, by a callee, or copied out - was definitely
    written first; a constructor returns an object whose scalar (non-union) fields are all written
S3 heap arrays written by position must be written on every iteration before being read whole.
Not decided: arrays filled through a separate cursor or read only under per-element guards."""
import os
from ..report import Run, Finding, rel
from ..common import lib_module, configs_for, need_fn
from ..build import AnalysisBroken, build_module, VERIF
from ..ir import Module
from ..core import World
from ..pts import STATEFUL, ALLOC_FAMILY, is_pure_external
from ..uninit import Engine, loc, rng, mask_ranges, field_names, constructor_states, ALL, array_init

PROP = "C15"
ANCHORS = ["varintAdaptiveEncodeWith", "varintAdaptiveDecode", "varintFOREncode", "varintFORBatchEncode", "varintPFORDecode",
           "varintPFORReadMeta", "varintBitmapDecode", "varintFloatEncode", "varintDictDecode", "varintRLEDecode", "varintBP128Decode64"]


def analyse(mod, run, label):
    w = World(mod)
    # ---- S1 ----
    for g in mod.globals.values():
        run.check(g["constant"], "S1-no-mutable-static", {"global": g["name"]},
                  Finding("S1-mutable-static", "<module>", g["name"], "global", "mutable static object '%s' (%s) can carry state from one call to the next" % (g["name"], g["t"])))
    for f in mod.defined():
        for i in f.calls():
            c = i.get("callee")
            if c is None or mod.fn(c) is not None: continue
            if c in STATEFUL:
                run.fail(Finding("S1-stateful-callee", f.name, c, "call", "calls %s (hidden state) at %s" % (c, loc(i)), loc=loc(i)))
            elif not (is_pure_external(c) or c in ALLOC_FAMILY or c.startswith(("llvm.memcpy", "llvm.memset", "llvm.memmove"))):
                raise AnalysisBroken("external callee %s (from %s) is not classified" % (c, f.name))
    for f in mod.defined():
        gl = [r for r in w.pts.summ[f.name].mod if r[0] == "global"]
        run.check(not gl, "S1-no-global-write", None, Finding("S1-global-write", f.name, gl[0][1] if gl else "", "write", "writes global %s" % (gl[0][1] if gl else ""), loc=w.pts.summ[f.name].mod.get(gl[0]) if gl else None))
    # ---- S2 ----
    eng = Engine(mod, w)
    nobj = 0; nreads = 0
    for f in sorted(mod.defined(), key=lambda f: f.name):
        fu = eng.fa[f.name]
        nobj += sum(1 for r in fu.objs if r[0] != "arg"); nreads += fu.nreads
        seen = set()
        for (inst, root, miss, why) in fu.viol:
            o = fu.objs[root]
            k = (loc(inst), root)
            if k in seen: continue
            seen.add(k)
            fields = field_names(eng.layout, o["type"], miss)
            role = ("call:%s" % inst.get("callee")) if inst.op == "call" and not (inst.get("callee") or "").startswith("llvm.") else ("copy-out" if inst.op == "call" else "load")
            run.fail(Finding("S2-read-before-write", f.name, o["name"], role,
                             "%s '%s' (%s): %s not written on every path before being %s at %s" % (o["kind"], o["name"], o["type"], ", ".join(fields), why, loc(inst)),
                             loc=loc(inst), quant=",".join(fields)))
        for i in fu.undef_uses:
            run.fail(Finding("S2-read-before-write", f.name, "promoted-local", i.op, "an uninitialised local scalar (undef after mem2reg) is used by %s at %s" % (i.op, loc(i)), loc=loc(i)))
        # discharged reads
        for _ in range(max(0, fu.nreads - len(seen))): run.ok("S2-read-after-write")
        # S3: positional heap arrays
        ar, ntr = array_init(eng, f)
        for (mi, ri, why) in ar:
            run.fail(Finding("S3-array-partially-written", f.name, "malloc@%s" % mi.line, "reader", why, loc=loc(ri)))
        for _ in range(max(0, ntr - len(ar))): run.ok("S3-positional-arrays-filled", {"fn": f.name})
        # constructors
        for (t, root, stmask) in constructor_states(fu):
            o = fu.objs[root]
            need = eng.layout.leaf_mask(o["type"]) & rng(0, o["size"])
            miss = need & ~stmask
            bad = []
            if miss: bad += field_names(eng.layout, o["type"], miss)
            run.check(not bad, "S2-constructor-complete", {"fn": f.name, "object": o["name"], "type": o["type"], "return": loc(t)},
                      Finding("S2-constructor-incomplete", f.name, o["name"], "return",
                              "object allocated by %s is returned at %s with %s unwritten on some path" % (o["name"], loc(t), ", ".join(bad)), loc=loc(t), quant=",".join(bad)))
    if run.samples == [] or True:
        run.samples.append({"rule": "S2-read-after-write", "verdict": "discharged", "objects_tracked": nobj, "read_obligations": nreads, "config": label})
    return nobj, nreads, eng


def controls(run):
    m = Module(build_module("ctl-uninit", [os.path.join(VERIF, "controls", "uninit_controls.c"), os.path.join(VERIF, "controls", "pts_controls.c")], "ndebug"))
    probe = Run("C15-control", "quick")
    analyse(m, probe, "control")
    got = {(f.rule, f.function) for f in probe.findings}
    for rule, fn in [("S1-mutable-static", "<module>"), ("S2-read-before-write", "ctl_uninit_local"), ("S2-read-before-write", "ctl_uninit_callee"),
                     ("S2-read-before-write", "ctl_uninit_copyout"), ("S2-constructor-incomplete", "ctl_ctor_partial"), ("S1-stateful-callee", "ctl_stateful_callee"), ("S3-array-partially-written", "ctl_array_partial")]:
        run.control("%s/%s" % (rule, fn), (rule, fn) in got)
    clean = [(f.rule, f.function) for f in probe.findings if "clean" in f.function]
    run.control("silent on clean controls %s" % clean, not clean)


def run(tier):
    run = Run(PROP, tier, level="other", technique="Mod-set analysis (no mutable statics) + interprocedural definite-initialisation dataflow at byte granularity on LLVM IR")
    per = {}
    for cfg in configs_for(tier):
        mod = lib_module(cfg)
        for a in ANCHORS: need_fn(mod, a)
        nobj, nreads, eng = analyse(mod, run, cfg)
        per[cfg] = {"objects_tracked": nobj, "read_obligations": nreads, "summary_rounds": eng.rounds}
        run.floor("tracked stack/heap objects (%s)" % cfg, nobj, 85)
        run.floor("read obligations (%s)" % cfg, nreads, 150)
    controls(run)
    run.coverage.update({"configurations": per,
                         "not_decided": "element-wise initialisation of arrays (heap or stack, variable index) is outside a must-analysis; 'fresh process' follows from S1 and S2"})
    run.assumptions += ["callee summaries are specialised on constant integer arguments (e.g. varintTaggedGet(z, 9, &v) always writes v)",
                        "an exhaustive switch over an enum-typed field is NOT assumed exhaustive here (the value may come from input bytes)"]
    return run.finish(
        "S1: the linked library has no mutable global or function-local static and calls no stateful libc function. S2: a forward must-"
        "dataflow tracks, per local or fixed-size heap object, the bytes definitely written; every load, every callee that reads the "
        "object before writing it (upward-exposed read summaries), every struct copy out of it and every constructor return creates an "
        "obligation that the bytes concerned are written on all paths. Together: a result cannot depend on earlier calls or stale memory.")
