"""C15 - results depend only on the arguments (no hidden state, no stale memory).  DESIGN 4/C15.
 S1 (E-PTS) no mutable static storage, no stateful external callee
 S2 (E-UNINIT) every byte of a stack/heap struct or scalar that is read - locally, by a callee, or copied out - was definitely
    written first; a constructor returns an object whose scalar (non-union) fields are all written
S3 heap arrays written by position must be written on every iteration before being read whole.
Not decided: arrays filled through a separate cursor or read only under per-element guards."""
import os
from ..report import Run, Finding, rel
from ..common import lib_module, configs_for, need_fn
from ..build import AnalysisBroken, build_module, VERIF
from ..ir import Module
from ..core import World
from ..pts import STATEFUL, ALLOC_FAMILY, is_pure_external
from ..uninit import Engine, loc, rng, mask_ranges, field_names, constructor_states, ALL, array_init

PROP = "C15"
ANCHORS = ["varintAdaptiveEncodeWith", "varintAdaptiveDecode", "varintFOREncode", "varintFORBatchEncode", "varintPFORDecode",
           "varintPFORReadMeta", "varintBitmapDecode", "varintFloatEncode", "varintDictDecode", "varintRLEDecode", "varintBP128Decode64"]


def analyse(mod, run, label):
    w = World(mod)
    from ..bounds import Bounds
    B6 = Bounds(w)
    # ---- S1 ----
    for g in mod.globals.values():
        run.check(g["constant"], "S1-no-mutable-static", {"global": g["name"]},
                  Finding("S1-mutable-static", "<module>", g["name"], "global", "mutable static object '%s' (%s) can carry state from one call to the next" % (g["name"], g["t"])))
    for f in mod.defined():
        for i in f.calls():
            c = i.get("callee")
            if c is None or mod.fn(c) is not None: continue
            if c in STATEFUL:
                run.fail(Finding("S1-stateful-callee", f.name, c, "call", "calls %s (hidden state) at %s" % (c, loc(i)), loc=loc(i)))
            elif not (is_pure_external(c) or c in ALLOC_FAMILY or c.startswith(("llvm.memcpy", "llvm.memset", "llvm.memmove"))):
                raise AnalysisBroken("external callee %s (from %s) is not classified" % (c, f.name))
    for f in mod.defined():
        gl = [r for r in w.pts.summ[f.name].mod if r[0] == "global"]
        run.check(not gl, "S1-no-global-write", None, Finding("S1-global-write", f.name, gl[0][1] if gl else "", "write", "writes global %s" % (gl[0][1] if gl else ""), loc=w.pts.summ[f.name].mod.get(gl[0]) if gl else None))
    # ---- S2 ----
    eng = Engine(mod, w)
    nobj = 0; nreads = 0
    for f in sorted(mod.defined(), key=lambda f: f.name):
        fu = eng.fa[f.name]
        nobj += sum(1 for r in fu.objs if r[0] != "arg"); nreads += fu.nreads
        seen = set()
        for (inst, root, miss, why) in fu.viol:
            o = fu.objs[root]
            k = (loc(inst), root)
            if k in seen: continue
            seen.add(k)
            fields = field_names(eng.layout, o["type"], miss)
            role = ("call:%s" % inst.get("callee")) if inst.op == "call" and not (inst.get("callee") or "").startswith("llvm.") else ("copy-out" if inst.op == "call" else "load")
            run.fail(Finding("S2-read-before-write", f.name, o["name"], role,
                             "%s '%s' (%s): %s not written on every path before being %s at %s" % (o["kind"], o["name"], o["type"], ", ".join(fields), why, loc(inst)),
                             loc=loc(inst), quant=",".join(fields)))
        for i in fu.undef_uses:
            run.fail(Finding("S2-read-before-write", f.name, "promoted-local", i.op, "an uninitialised local scalar (undef after mem2reg) is used by %s at %s" % (i.op, loc(i)), loc=loc(i)))
        # discharged reads
        for _ in range(max(0, fu.nreads - len(seen))): run.ok("S2-read-after-write")
        # S3: positional heap arrays
        ar, ntr = array_init(eng, f)
        for (mi, ri, why) in ar:
            run.fail(Finding("S3-array-partially-written", f.name, "malloc@%s" % mi.line, "reader", why, loc=loc(ri)))
        for _ in range(max(0, ntr - len(ar))): run.ok("S3-positional-arrays-filled", {"fn": f.name})
        # S6: scratch arrays filled by a counted loop are read by callees only over the filled prefix
        for (ci6, an6, rd6, wr6, ok6) in scratch_reads_beyond_written(f, w, B6):
            run.s6 = getattr(run, "s6", 0) + 1
            run.check(ok6, "S6-scratch-read-within-written-prefix", {"fn": f.name, "array": an6, "callee": ci6.get("callee"), "reads": repr(rd6), "written": repr(wr6)},
                      Finding("S6-scratch-read-beyond-written", f.name, an6, "call:%s" % ci6.get("callee"),
                              "%s hands the local array '%s' to %s, which reads %s bytes of it, but only the first %r bytes have been written (element by element in a loop): the rest is stack residue and the result depends on it" % (
                                  f.name, an6, ci6.get("callee"), "an unbounded number of" if rd6 is None else repr(rd6), wr6), loc=loc(ci6)))
        # S4: a zero-filled output region that is then OR-ed into is advanced over by exactly its own size
        for (ms, adv, same) in filled_region_advances(f):
            run.s4 = getattr(run, "s4", 0) + 1
            run.check(same, "S4-advance-equals-zero-filled-size", {"fn": f.name, "memset": loc(ms)},
                      Finding("S4-advance-differs-from-filled-size", f.name, "memset@%s" % ms.line, "advance",
                              "%s zero-fills a region of the output and then advances the cursor over it by a differently computed amount (%s): if the two ever differ, bytes the function never wrote lie inside the returned length" % (f.name, loc(adv)), loc=loc(adv)))
        # S5: a fixed-size block from malloc() that is handed to a long-lived object is overwritten in full first
        for (mi, st, ok) in raw_blocks_escaping(f, w):
            run.s5 = getattr(run, "s5", 0) + 1
            run.check(ok, "S5-escaping-block-fully-initialised", {"fn": f.name, "malloc": loc(mi)},
                      Finding("S5-escaping-block-not-initialised", f.name, "malloc@%s" % mi.line, "store",
                              "%s stores the %s-byte block from malloc() (%s) into a long-lived object at %s without a dominating memset / memcpy / calloc of the whole block: the bytes it does not set keep whatever the heap held" % (
                                  f.name, mi.ops[0].get("v"), loc(mi), loc(st)), loc=loc(st)))
        # constructors
        for (t, root, stmask) in constructor_states(fu):
            o = fu.objs[root]
            need = eng.layout.leaf_mask(o["type"]) & rng(0, o["size"])
            miss = need & ~stmask
            bad = []
            if miss: bad += field_names(eng.layout, o["type"], miss)
            run.check(not bad, "S2-constructor-complete", {"fn": f.name, "object": o["name"], "type": o["type"], "return": loc(t)},
                      Finding("S2-constructor-incomplete", f.name, o["name"], "return",
                              "object allocated by %s is returned at %s with %s unwritten on some path" % (o["name"], loc(t), ", ".join(bad)), loc=loc(t), quant=",".join(bad)))
    if run.samples == [] or True:
        run.samples.append({"rule": "S2-read-after-write", "verdict": "discharged", "objects_tracked": nobj, "read_obligations": nreads, "config": label})
    return nobj, nreads, eng


# blocks of which every byte is data (confirmed by reading): stored pointer type, struct that receives it.  The bitmap container's bit array is
# read in full by every reader; the array / runs containers (uint16_t*) are used up to cardinality / numRuns only and are not listed.
FULLY_MEANINGFUL = {("i8*", "struct.varintBitmap")}


def dest_struct(f_addr, _f=[None]):
    return _f[0](f_addr) if _f[0] else None


def raw_blocks_escaping(f, w=None):
    def ds(addr, d=0):
        if addr["k"] != "inst" or d > 8: return None
        x = f.imap[addr["v"]]
        if x.op == "getelementptr":
            inner = ds(x.ops[0], d + 1)
            if inner: return inner
            if "field" in x.d: return x["field"]["struct"]
            return None
        if x.op == "bitcast": return ds(x.ops[0], d + 1)
        return None
    dest_struct.__defaults__[0][0] = ds
    return _raw_blocks_escaping(f, w)


def _raw_blocks_escaping(f, w=None):
    """[(malloc call, escaping store, fully initialised before?)] for malloc(constant) blocks whose pointer is stored outside the frame"""
    out = []
    def aliases(root_id):
        al = {root_id}; grew = True
        while grew:
            grew = False
            for i in f.insts():
                if i.op in ("bitcast",) and i.ops[0]["k"] == "inst" and i.ops[0]["v"] in al and i.id not in al: al.add(i.id); grew = True
        return al
    def frame_local(addr, seen=()):
        if addr["k"] != "inst" or addr["v"] in seen: return False
        i = f.imap[addr["v"]]
        if i.op == "alloca": return True
        if i.op in ("bitcast", "getelementptr"): return frame_local(i.ops[0], seen + (addr["v"],))
        return False
    f.dom()
    for m in f.calls("malloc"):
        if m.ops[0]["k"] != "int": continue
        n = int(m.ops[0]["v"]); al = aliases(m.id)
        stores = [i for i in f.insts() if i.op == "store" and i.ops[0]["k"] == "inst" and i.ops[0]["v"] in al and not frame_local(i.ops[1]) and (i.ops[0]["t"], dest_struct(i.ops[1])) in FULLY_MEANINGFUL]
        if not stores: continue
        # the pointer re-loaded from where it was stored is the same pointer
        def akey(o, d=0):
            if o["k"] != "inst" or d > 8: return (o["k"], o.get("v"))
            x = f.imap[o["v"]]
            if x.op in ("getelementptr", "bitcast"): return (x.op, x.d.get("coff"), tuple(sorted((v["stride"], akey(v["idx"], d + 1)) for v in x.d.get("var", [])))) + (akey(x.ops[0], d + 1),)
            if x.op == "load": return ("ld", akey(x.ops[0], d + 1))
            return ("v", x.id)
        skeys = {akey(st.ops[1]) for st in stores}
        for i in f.insts():
            if i.op == "load" and i["t"].endswith("*") and akey(i.ops[0]) in skeys: al.add(i.id)
        al = set().union(*[aliases(x) for x in list(al)])
        inits = []
        for c in f.calls():
            cal = c.get("callee") or ""
            if cal.startswith(("llvm.memset", "llvm.memcpy", "llvm.memmove")) and c.ops[0]["k"] == "inst" and c.ops[0]["v"] in al and c.ops[2]["k"] == "int" and int(c.ops[2]["v"]) >= n: inits.append(c)
        for st in stores:
            ok = any(c.block.id != st.block.id and f.dominates(c.block.id, st.block.id) or (c.block.id == st.block.id and c.block.insts.index(c) < st.block.insts.index(st)) for c in inits)
            if not ok and inits:
                # initialised after the pointer was stored: no return is reachable from the store without passing the initialisation or a free()
                # (the allocation-failure path releases the object instead)
                stop = {c.block.id for c in inits} | {c.block.id for c in f.calls("free")}
                if w is not None:
                    # a file-local release helper (`return discardShell_(clone)`) is a free() too
                    for c in f.calls():
                        sm = w.pts.summ.get(c.get("callee") or "")
                        if sm is not None and any(r[0] == "arg" and r[2] == 0 for r in getattr(sm, "frees", ()) if isinstance(r, tuple) and len(r) == 3): stop.add(c.block.id)
                later_same = any(c.block.id == st.block.id and c.block.insts.index(c) > st.block.insts.index(st) for c in inits)
                reach_ret = False
                if not later_same:
                    seen = set(); work = list(st.block.succs)
                    while work:
                        b = work.pop()
                        if b.id in seen or b.id in stop: continue
                        seen.add(b.id)
                        if b.term.op == "ret": reach_ret = True; break
                        work += b.succs
                ok = not reach_ret
            out.append((m, st, ok))
    return out


def expr_key(fn, o, d=0):
    """structural key of a pure integer expression (division / shift by the same power of two and operand order are normalised)"""
    if o["k"] == "int": return ("c", int(o["v"]))
    if o["k"] == "arg": return ("a", o["v"])
    if o["k"] != "inst" or d > 12: return ("?", o.get("v"))
    i = fn.imap[o["v"]]; K = lambda n: expr_key(fn, i.ops[n], d + 1)
    if i.op in ("zext", "sext", "trunc", "freeze"): return K(0)
    if i.op in ("add", "mul", "and", "or"): return (i.op,) + tuple(sorted((K(0), K(1)), key=repr))
    if i.op == "sub": return ("sub", K(0), K(1))
    if i.op in ("udiv", "sdiv"): return ("div", K(0), K(1))
    if i.op in ("lshr", "ashr") and i.ops[1]["k"] == "int": return ("div", K(0), ("c", 1 << int(i.ops[1]["v"])))
    if i.op == "shl" and i.ops[1]["k"] == "int": return ("mul",) + tuple(sorted((K(0), ("c", 1 << int(i.ops[1]["v"]))), key=repr))
    return ("v", i.id)


_W = {}
def equal_exact(f, a, b):
    """two differently written sizes that E-SIZE evaluates to the same exact polynomial (over parameters, div / mod atoms) are equal"""
    from ..core import World
    from ..esize import UB, Unbounded
    w = _W.get(id(f.mod))
    if w is None: w = _W[id(f.mod)] = World(f.mod)
    try:
        u = UB(w, f); u.q = True
        ea, eb = u.exact(a), u.exact(b)
        return ea is not None and eb is not None and ea == eb
    except Unbounded:
        return False


def scratch_reads_beyond_written(f, w, B):
    """S6: a local scratch array that is filled element by element in a counted loop (A[i] = ... for i < m) and never initialised as
    a whole may only be handed to a callee that reads at most the filled prefix.  Yields (call, array name, read extent, written extent, ok)."""
    from ..lin import Lin
    fi, F, P = B.fp(f)
    loops = f.loops()
    for a in f.insts():
        if a.op != "alloca" or a.d.get("alloc_size", 0) < 64: continue
        root = ("alloca", a.id)
        whole = False; prefix = None
        for i in f.insts():
            if i.op == "store":
                r, off = fi.ptr(i.ops[1])
                if r != root: continue
                if i["size"] >= a.d.get("alloc_size", 0): whole = True; continue
                # A[i] = v with i the unit counter of an enclosing loop `i < m`
                for h, body in loops.items():
                    if i.block.id not in body: continue
                    t = f.bmap[h].term
                    if t.op != "br" or len(t.ops) != 3 or t.ops[0]["k"] != "inst": continue
                    ci = f.imap[t.ops[0]["v"]]
                    if ci.op != "icmp" or ci["pred"] not in ("ult", "slt", "ne"): continue
                    il = fi.lin(ci.ops[0])
                    if len(il.t) != 1 or il.c != 0: continue
                    d = off - il.scale(i["size"])
                    if d.is_const() and d.c == 0: prefix = fi.lin(ci.ops[1]).scale(i["size"])
            elif i.op == "call":
                c = i.get("callee") or ""
                if c.startswith(("llvm.memset", "llvm.memcpy", "llvm.memmove")) and fi.ptr(i.ops[0])[0] == root: whole = True
        if whole or prefix is None: continue
        for (i, kind, off, sz) in B.accesses(f, root, "r"):
            if i.op != "call" or (i.get("callee") or "").startswith("llvm."): continue
            szs = sz if isinstance(sz, list) else [sz]
            if szs[-1] is None: yield (i, a.d.get("varname", "array"), None, prefix, False); continue
            ok = P.prove_at(off + szs[-1] - prefix, i.block)
            yield (i, a.d.get("varname", "array"), off + szs[-1], prefix, ok)


def filled_region_advances(f):
    """[(memset call, advancing instruction, same size?)] for memset(p, 0, n) on memory reached from a non-const byte pointer parameter
    followed by a cursor step  p + m  (a GEP on the same pointer value that feeds a phi, a return or another cursor step)"""
    out = []
    def base_param(o, seen=()):
        if o["k"] == "arg": return o["v"]
        if o["k"] != "inst" or o["v"] in seen: return None
        i = f.imap[o["v"]]
        if i.op in ("bitcast", "getelementptr"): return base_param(i.ops[0], seen + (o["v"],))
        if i.op == "phi":
            rs = {base_param(inc["v"], seen + (o["v"],)) for inc in i["incoming"]} - {None}
            return rs.pop() if len(rs) == 1 else None
        return None
    users = {}
    for i in f.insts():
        ops = list(i.ops) + ([inc["v"] for inc in i["incoming"]] if i.op == "phi" else [])
        for o in ops:
            if o["k"] == "inst": users.setdefault(o["v"], []).append(i)
    for c in f.calls():
        if not (c.get("callee") or "").startswith("llvm.memset"): continue
        if not (c.ops[1]["k"] == "int" and int(c.ops[1]["v"]) == 0): continue
        p = c.ops[0]; k = base_param(p)
        if k is None or f.params[k]["t"] != "i8*" or "const" in f.params[k].get("di", ""): continue
        if p["k"] != "inst": continue          # zero-filling from the very start of the buffer (e.g. a writer's init): no cursor involved
        nk = expr_key(f, c.ops[2])
        for u in users.get(p["v"], []):
            if u.op == "getelementptr" and u.ops[0]["k"] == "inst" and u.ops[0]["v"] == p["v"] and len(u["var"]) == 1 and u["var"][0]["stride"] == 1 and u["coff"] == 0:
                if not any(x.op in ("phi", "ret", "ptrtoint") or (x.op == "getelementptr" and x.ops[0]["k"] == "inst" and x.ops[0]["v"] == u.id) for x in users.get(u.id, [])): continue
                if f.dominates(c.block.id, u.block.id) and u.block.id != c.block.id or (u.block.id == c.block.id and c.block.insts.index(u) > c.block.insts.index(c)):
                    same = expr_key(f, u["var"][0]["idx"]) == nk
                    if not same: same = equal_exact(f, c.ops[2], u["var"][0]["idx"])
                    out.append((c, u, same))
    return out


def controls(run):
    m = Module(build_module("ctl-uninit", [os.path.join(VERIF, "controls", "uninit_controls.c"), os.path.join(VERIF, "controls", "pts_controls.c")], "ndebug"))
    probe = Run("C15-control", "quick")
    analyse(m, probe, "control")
    got = {(f.rule, f.function) for f in probe.findings}
    for rule, fn in [("S1-mutable-static", "<module>"), ("S2-read-before-write", "ctl_uninit_local"), ("S2-read-before-write", "ctl_uninit_callee"),
                     ("S2-read-before-write", "ctl_uninit_copyout"), ("S2-constructor-incomplete", "ctl_ctor_partial"), ("S1-stateful-callee", "ctl_stateful_callee"), ("S3-array-partially-written", "ctl_array_partial")]:
        run.control("%s/%s" % (rule, fn), (rule, fn) in got)
    clean = [(f.rule, f.function) for f in probe.findings if "clean" in f.function]
    run.control("silent on clean controls %s" % clean, not clean)


def run(tier):
    run = Run(PROP, tier, level="other", technique="Mod-set analysis (no mutable statics) + interprocedural definite-initialisation dataflow at byte granularity on LLVM IR")
    per = {}
    for cfg in configs_for(tier):
        mod = lib_module(cfg)
        for a in ANCHORS: need_fn(mod, a)
        nobj, nreads, eng = analyse(mod, run, cfg)
        per[cfg] = {"objects_tracked": nobj, "read_obligations": nreads, "summary_rounds": eng.rounds}
        run.floor("tracked stack/heap objects (%s)" % cfg, nobj, 70)
        run.floor("read obligations (%s)" % cfg, nreads, 120)
        run.floor("zero-filled output regions with a cursor step (%s)" % cfg, getattr(run, "s4", 0), 2); run.s4 = 0
        run.floor("fixed-size malloc blocks stored into objects (%s)" % cfg, getattr(run, "s5", 0), 1); run.s5 = 0
    controls(run)
    run.coverage.update({"configurations": per,
                         "not_decided": "element-wise initialisation of arrays (heap or stack, variable index) is outside a must-analysis; 'fresh process' follows from S1 and S2"})
    run.assumptions += ["callee summaries are specialised on constant integer arguments (e.g. varintTaggedGet(z, 9, &v) always writes v)",
                        "an exhaustive switch over an enum-typed field is NOT assumed exhaustive here (the value may come from input bytes)"]
    return run.finish(
        "S1: the linked library has no mutable global or function-local static and calls no stateful libc function. S2: a forward must-"
        "dataflow tracks, per local or fixed-size heap object, the bytes definitely written; every load, every callee that reads the "
        "object before writing it (upward-exposed read summaries), every struct copy out of it and every constructor return creates an "
        "obligation that the bytes concerned are written on all paths. Together: a result cannot depend on earlier calls or stale memory.")
