"""Bit-slice identity decision for E1 terms (DESIGN 4/C01, clause L8).

An E1 term over the input x on an interval [lo, hi] is evaluated in the domain

    value = (integer whose bit j is B[j]) + c        (mod 2^64)

where every B[j] is 0, 1, or "bit i of v" for a variable v that is x itself or y = x - a (a constant, no wrap on the interval),
and c is an integer constant.  Shifts, masks, ors of disjoint slices, additions of disjoint slices and additions / subtractions of
constants are exact in this domain; anything else yields None (unknown).  A term is the identity on [lo, hi] iff it evaluates to
"every bit of x below the bit length of hi is in place, everything above is 0, c = 0".

This decides `decode(encode(x)) == x` for the scalar varint families from the closed forms E1 extracts: their decoders only move
byte slices of x (or of x - bias) back to where the encoder took them from."""
from .e1 import ev, monotone

W = 64
MASK = (1 << W) - 1


def _var_bits(v, top):
    """variable v (a key) occupying bits [0, top) in place"""
    return [((v, j) if j < top else 0) for j in range(W)]


def _is_var_in_place(B):
    """(v, top) when B is exactly one variable in place from bit 0, zero above; else None"""
    v = None; top = 0
    for j in range(W):
        b = B[j]
        if b == 0: continue
        if not isinstance(b, tuple) or b[1] != j: return None
        if v is None: v = b[0]
        elif b[0] != v: return None
        top = j + 1
    if v is None: return None
    # no holes below top: every bit below the top of the variable must be present
    for j in range(top):
        if B[j] != (v, j): return None
    return v, top


def canon(B, c, ranges):
    """fold `y in place + a` back into the variable y was derived from (y = v - a)"""
    c &= MASK
    for _ in range(4):
        p = _is_var_in_place(B)
        if p is None or c == 0: break
        v, top = p
        if isinstance(v, tuple) and v[0] == "sub" and v[2] == c:
            base = v[1]; hi = ranges.get(base)
            if hi is None: break
            if top < ranges[v].bit_length(): break          # not all of y is there
            B = _var_bits(base, hi.bit_length()); c = 0
        else: break
    return B, c


def slices(t, lo, hi, ranges=None):
    """(B, c) or None.  `ranges`: variable key -> largest value on the interval (filled in as variables are introduced)."""
    if ranges is None: ranges = {}
    ranges.setdefault("x", hi)
    k = t[0]
    if k == "x": return _var_bits("x", hi.bit_length()), 0
    if k == "c": return [(t[1] >> j) & 1 for j in range(W)], 0
    a = slices(t[1], lo, hi, ranges)
    if a is None: return None
    B, c = a
    if k == "sub":
        kk = t[2]
        p = _is_var_in_place(B) if c == 0 else None
        if p is not None and monotone(t[1], lo, hi) and ev(t[1], lo) >= kk:
            v, top = p
            if top >= ranges.get(v, 0).bit_length() and kk != 0:
                y = ("sub", v, kk); ranges[y] = ev(t[1], hi) - kk
                return _var_bits(y, ranges[y].bit_length()), 0
        if t[3] < W and not ((monotone(t[1], lo, hi) and ev(t[1], lo) >= kk) or (0 <= c < (1 << 62) and c >= kk)): return None       # may wrap in a narrower type
        return canon(B, c - kk, ranges)
    if k == "add":
        ub = sum(1 << j for j in range(W) if B[j] != 0) + c          # every slice bit set: the largest the operand can be
        if t[3] < W and not ((monotone(t[1], lo, hi) and ev(t[1], hi) + t[2] < (1 << t[3])) or (0 <= c < (1 << 62) and ub + t[2] < (1 << t[3]))): return None
        return canon(B, c + t[2], ranges)
    if k in ("shr", "shl", "and", "or", "mulc", "udiv", "urem"):
        n = t[2]
        if k == "mulc":
            if n & (n - 1) or n == 0: return None
            k = "shl"; n = n.bit_length() - 1
            c2 = (c << n)
            if c == 0: pass
            else:
                # (S + c) * 2^n = S*2^n + c*2^n : exact when nothing is shifted out
                if any(B[j] != 0 for j in range(W - n, W)): return None
                return [0] * n + B[:W - n], c2 & MASK
        if k == "udiv":
            if n & (n - 1) or n == 0: return None
            k = "shr"; n = n.bit_length() - 1
        if k == "urem":
            if n & (n - 1) or n == 0: return None
            k = "and"; n = n - 1
        if c != 0: return None
        if k == "shr": return B[n:] + [0] * n, 0
        if k == "shl":
            width = t[3] if len(t) > 3 else W
            out = [0] * n + B[:W - n]
            return [out[j] if j < width else 0 for j in range(W)], 0
        if k == "and": return [B[j] if (n >> j) & 1 else 0 for j in range(W)], 0
        if k == "or":
            out = []
            for j in range(W):
                if (n >> j) & 1: out.append(1)
                else: out.append(B[j])
            return out, 0
    if k in ("or2", "add2"):
        b = slices(t[2], lo, hi, ranges)
        if b is None: return None
        B2, c2 = b
        if k == "or2" and (c != 0 or c2 != 0): return None
        out = []
        for j in range(W):
            p, q = B[j], B2[j]
            if p == 0: out.append(q)
            elif q == 0: out.append(p)
            elif k == "or2" and p == q: out.append(p)
            else: return None                               # overlapping slices: carries / unknown or
        return canon(out, c + c2, ranges)
    return None


def is_identity(t, lo, hi):
    """True when term t equals x for every x in [lo, hi]; False when it provably differs somewhere or cannot be decided"""
    r = slices(t, lo, hi)
    if r is None: return False
    B, c = canon(r[0], r[1], {"x": hi})
    if c != 0: return False
    top = hi.bit_length()
    return all(B[j] == (("x", j) if j < top else 0) for j in range(W))


def first_difference(t, lo, hi):
    """a concrete x in [lo, hi] with t(x) != x found by probing the interval ends and single-bit neighbours (for the report), or None"""
    cands = {lo, hi, (lo + hi) // 2}
    for j in range(W):
        for base in (lo, hi):
            for v in (base ^ (1 << j), base | (1 << j), base & ~(1 << j)):
                if lo <= v <= hi: cands.add(v)
        if lo <= (1 << j) <= hi: cands.add(1 << j)
        if lo <= (1 << j) - 1 <= hi: cands.add((1 << j) - 1)
    for x in sorted(cands):
        try:
            if ev(t, x) != x: return x
        except Exception: return None
    return None


def canonical_term(t, lo, hi):
    """an equivalent simple E1 term when t is a variable (x, or x - a) with all its bits back in place, else None"""
    r = slices(t, lo, hi)
    if r is None: return None
    rng = {"x": hi}
    B, c = r
    p = _is_var_in_place(B)
    if p is None or c != 0: return None
    v, top = p
    if v == "x":
        return ("x",) if top >= hi.bit_length() else None
    if isinstance(v, tuple) and v[0] == "sub" and v[1] == "x":
        ymax = hi - v[2]
        return ("sub", ("x",), v[2], 64) if (lo >= v[2] and top >= ymax.bit_length()) else None
    return None
