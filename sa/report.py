"""Verdicts, exit codes, evidence and known findings (DESIGN 2.2)."""
import json, os, sys, time
from .build import VERIF, AnalysisBroken, REPO

KNOWN = os.path.join(VERIF, "known_findings.json")


def rel(path):
    """repo-relative rendering of a source path (stable across scratch copies)"""
    if not path: return "?"
    p = os.path.realpath(path) if os.path.isabs(path) else path
    r = os.path.realpath(REPO)
    if p.startswith(r + "/"): return p[len(r) + 1:]
    v = os.path.realpath(VERIF)
    if p.startswith(v + "/"): return "verif:" + p[len(v) + 1:]
    return p


class Finding:
    """a failed obligation; identity is structural, never positional (no line numbers in the key)"""
    def __init__(self, rule, function, obj, role, what, loc=None, detail=None, quant=None):
        self.rule = rule; self.function = function; self.obj = obj; self.role = role
        self.what = what; self.loc = loc; self.detail = detail or {}; self.quant = quant
        self.ordinal = 1
    def key(self, prop):
        k = "%s/%s/%s/%s/%s/#%d" % (prop, self.rule, self.function, self.obj, self.role, self.ordinal)
        if self.quant is not None: k += "/" + str(self.quant)
        return k


CURRENT_CONFIG = None


class Run:
    def __init__(self, prop, tier="quick", level="other", technique=""):
        self.prop = prop; self.tier = tier; self.level = level; self.technique = technique
        self.t0 = time.time()
        self.obligations = 0; self.discharged = 0
        self.findings = []; self.samples = []; self.by_rule = {}
        self.notes = []; self.coverage = {}; self.assumptions = []; self.trusted = []
        self.floors = []; self.observations = []
        self.seed = int(os.environ.get("VERIF_SEED", "0") or 0)

    # ---- obligations ----
    def ok(self, rule, sample=None):
        self.obligations += 1; self.discharged += 1
        r = self.by_rule.setdefault(rule, [0, 0]); r[0] += 1; r[1] += 1
        if sample is not None and sum(1 for s in self.samples if s.get("rule") == rule) < 3:
            s = dict(sample); s["rule"] = rule; s["verdict"] = "discharged"; self.samples.append(s)
    def fail(self, finding):
        self.obligations += 1
        r = self.by_rule.setdefault(finding.rule, [0, 0]); r[0] += 1
        # the same construct analysed under several build configurations (thorough tier) is one finding, not one per configuration
        ident = (finding.rule, finding.function, finding.obj, finding.role, finding.quant, finding.loc)
        seen = self.__dict__.setdefault("_seen_findings", {})
        if ident in seen and CURRENT_CONFIG != seen[ident]: return
        seen.setdefault(ident, CURRENT_CONFIG)
        self.findings.append(finding)
    def check(self, cond, rule, sample=None, finding=None):
        if cond: self.ok(rule, sample)
        else: self.fail(finding)
        return cond
    def floor(self, what, count, minimum):
        """anti-vacuity: a rule that matches fewer instances than confirmed by hand is analysis-broken"""
        self.floors.append({"what": what, "count": count, "floor": minimum})
        if count < minimum:
            raise AnalysisBroken("%s: %s matched %d instances, floor is %d" % (self.prop, what, count, minimum))
    def control(self, what, fired):
        self.floors.append({"control": what, "fired": bool(fired)})
        if not fired:
            raise AnalysisBroken("%s: positive control '%s' was not flagged - rule is vacuous" % (self.prop, what))
    def observe(self, text): self.observations.append(text)
    def defer_broken(self, msg):
        """part of the analysis could not be carried out: reported as ANALYSIS-BROKEN at the end unless another rule found a violation"""
        self.deferred = getattr(self, "deferred", []) + [msg]

    # ---- finishing ----
    def finish(self, explanation):
        # ordinals among equal (rule,function,obj,role)
        seen = {}
        for f in self.findings:
            k = (f.rule, f.function, f.obj, f.role, f.quant)
            seen[k] = seen.get(k, 0) + 1; f.ordinal = seen[k]
        known = {}
        if os.path.exists(KNOWN):
            for e in json.load(open(KNOWN)):
                if e.get("property") == self.prop: known[e["key"]] = e
        new = []; kf = []; matched = set()
        for f in self.findings:
            k = f.key(self.prop)
            e = known.get(k)
            if e is not None and e.get("status") == "known":
                kf.append((k, f, e)); matched.add(k)
            elif f.detail.get("callers") and all(any(e2.get("status") == "known" and k2.startswith("%s/%s/%s/%s/" % (self.prop, f.rule, c, f.obj)) for k2, e2 in known.items()) for c in f.detail["callers"]):
                # the finding sits in a file-local helper all of whose callers are listed for the same rule and object: the listed
                # defect has moved into the helper, it is not a different one
                e = next(e2 for k2, e2 in known.items() if k2.startswith("%s/%s/%s/%s/" % (self.prop, f.rule, f.detail["callers"][0], f.obj)))
                kf.append((k, f, e))
                for c in f.detail["callers"]:
                    for k2 in known:
                        if k2.startswith("%s/%s/%s/%s/" % (self.prop, f.rule, c, f.obj)): matched.add(k2)
            else:
                new.append((k, f))
        stale = [k for k, e in known.items() if e.get("status") == "known" and k not in matched]
        if getattr(self, "deferred", None) and not new: raise AnalysisBroken("; ".join(self.deferred))
        OUTBASE = os.environ.get("VERIF_OUT_DIR", VERIF)
        outdir = os.path.join(OUTBASE, "out", self.prop)
        os.makedirs(outdir, exist_ok=True)
        for fn in os.listdir(outdir):
            try: os.unlink(os.path.join(outdir, fn))
            except OSError: pass
        for k, f, e in kf:
            print("KNOWN-FINDING: property=%s %s -- %s [%s]" % (self.prop, k, e.get("what", f.what), f.loc or ""))
        for k in stale:
            print("note: known_findings entry no longer reproduced (stale): %s" % k)
        n = 0
        for k, f in new:
            n += 1
            path = os.path.join(outdir, "%d.json" % n)
            with open(path, "w") as fh:
                json.dump({"property": self.prop, "key": k, "rule": f.rule, "function": f.function, "object": f.obj,
                           "role": f.role, "where": f.loc, "what": f.what, "detail": f.detail}, fh, indent=1, default=str)
            print("  %s: %s: [%s] %s" % (f.loc or "?", f.function, f.rule, f.what))
            print("VIOLATION property=%s replay=%s" % (self.prop, path))
        wall = time.time() - self.t0
        level = self.level
        if level == "proof" and (self.findings or self.discharged != self.obligations):
            level = "other"
        cov = {
            "obligations": self.obligations, "discharged": self.discharged,
            "checker_cmd": "./check %s --tier %s" % (self.prop, self.tier),
            "trusted_base": self.trusted or ["clang-14 front end, mem2reg, sroa preserve semantics", "irfacts extractor", "LP64 little-endian x86-64"],
            "explanation": explanation,
            "technique": self.technique,
            "rules": {r: {"obligations": v[0], "discharged": v[1]} for r, v in sorted(self.by_rule.items())},
            "samples": self.samples[:24] + [{"rule": f.rule, "function": f.function, "where": f.loc, "what": f.what,
                                             "verdict": "known-finding" if any(f is x[1] for x in kf) else "violation"}
                                            for f in self.findings[:24]],
            "floors_and_controls": self.floors,
            "known_findings_reproduced": [k for k, _, _ in kf],
            "stale_known_findings": stale,
            "observations": self.observations[:60],
            "exhaustive": False,
        }
        cov.update(self.coverage)
        ev = {"property_id": self.prop, "tier": self.tier, "seed": self.seed, "level": level, "coverage": cov,
              "assumptions": self.assumptions, "wall_s": round(wall, 2), "violations": len(new)}
        os.makedirs(os.path.join(OUTBASE, "evidence"), exist_ok=True)
        with open(os.path.join(OUTBASE, "evidence", "%s.json" % self.prop), "w") as fh:
            json.dump(ev, fh, indent=1, default=str)
        print("%s %s: obligations=%d discharged=%d known=%d new=%d wall=%.1fs" % (
            self.prop, self.tier, self.obligations, self.discharged, len(kf), len(new), wall))
        for m in getattr(self, "deferred", []): print("note: part of the analysis was not carried out: %s" % m)
        return 1 if new else 0


def main_wrap(fn):
    """run a check function -> exit code; AnalysisBroken -> exit 2"""
    try:
        rc = fn()
    except AnalysisBroken as e:
        print("ANALYSIS-BROKEN: %s" % e)
        sys.exit(2)
    except Exception as e:            # a crash of the analysis is never a verdict
        import traceback
        traceback.print_exc()
        print("ANALYSIS-BROKEN: internal error: %s: %s" % (type(e).__name__, e))
        sys.exit(2)
    sys.exit(rc)
