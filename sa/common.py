"""shared loading helpers for property modules"""
import functools
from .build import lib_facts, build_module, witness_sources, library_units, AnalysisBroken, VERIF
from .ir import Module


@functools.lru_cache(maxsize=None)
def lib_module(config="ndebug", witness=("wrap",)):
    return Module(lib_facts(config, witness))


def configs_for(tier):
    """build configurations analysed at this tier; sets report.CURRENT_CONFIG while each one is being analysed"""
    from . import report
    for cfg in (["ndebug"] if tier == "quick" else ["ndebug", "asserts", "native"]):
        report.CURRENT_CONFIG = cfg
        yield cfg
    report.CURRENT_CONFIG = None


def need_fn(mod, name):
    f = mod.fn(name)
    if f is None:
        raise AnalysisBroken("anchor function vanished: %s" % name)
    return f
