"""shared loading helpers for property modules"""
import functools
from .build import lib_facts, build_module, witness_sources, library_units, AnalysisBroken, VERIF
from .ir import Module


@functools.lru_cache(maxsize=None)
def lib_module(config="ndebug", witness=("wrap",), inline=()):
    """`inline`: file-local helper functions to be inlined into their callers before analysis (a rule written for one function
    still applies when that function has been split into static helpers)"""
    return Module(lib_facts(config, witness, tuple(inline)))


def configs_for(tier):
    """build configurations analysed at this tier; sets report.CURRENT_CONFIG while each one is being analysed"""
    from . import report
    for cfg in (["ndebug"] if tier == "quick" else ["ndebug", "asserts", "native"]):
        report.CURRENT_CONFIG = cfg
        yield cfg
    report.CURRENT_CONFIG = None


def need_fn(mod, name):
    f = mod.fn(name)
    if f is None:
        raise AnalysisBroken("anchor function vanished: %s" % name)
    return f


def local_helpers_of(mod, fn, only=None):
    """names of the file-local functions fn reaches (transitively) - the helpers it may have been split into.
    `only`: predicate on a helper; helpers it rejects are neither inlined nor searched"""
    work = [fn]; seen = set()
    while work:
        x = work.pop()
        for c in x.calls():
            h = mod.fn(c.get("callee") or "")
            if h is not None and h.internal and h.blocks and h.name not in seen and h is not fn and (only is None or only(h)):
                seen.add(h.name); work.append(h)
    return sorted(seen)


def carries_pointers(h):
    """a helper that takes or returns a pointer (a cursor, a buffer, an object) - as opposed to a pure function of scalars"""
    return h.d["ret"].endswith("*") or any(p["t"].endswith("*") for p in h.params)


def with_helpers_inlined(mod, fn, config, only=None):
    """(module, function) where fn's file-local helpers have been inlined into it; (None, None) if it has none"""
    plan = local_helpers_of(mod, fn, only)
    if not plan: return None, None
    m2 = lib_module(config, inline=tuple(plan))
    return m2, need_fn(m2, fn.name)
