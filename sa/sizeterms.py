"""Sibling agreement between a size predictor and its encoder (C03 exact predictors, C16 reported sizes).

Every call whose integer result contributes to the predictor's size, or to the encoder's output cursor, is summarised as a *term*
   (length table of the callee, role of the measured value)
where the length table is the callee's class table value-interval -> length extracted by E1 (so varintTaggedPut64 and varintTaggedLen
are the same table, and a helper with a different boundary is not), and the role says what is measured: a parameter, a metadata
field, an element of a parameter array, a loop-carried local, a constant.  The encoder's terms must be accounted for by the predictor's
(same table, same role - or a constant maximum), and for exact predictors vice versa."""
from . import e1
from .e1 import norm, is_c


def strip(fn, o):
    while o["k"] == "inst" and fn.imap[o["v"]].op in ("zext", "sext", "trunc", "bitcast"):
        o = fn.imap[o["v"]].ops[0]
    return o


_TAB = {}


def length_table(mod, callee):
    """canonical (tuple) length partition of callee's integer result as a function of its single 64-bit value argument, or None"""
    if callee in _TAB: return _TAB[callee]
    fn = mod.fn(callee); res = None
    if fn is not None:
        vals = [k for k, p in enumerate(fn.params) if p["t"] in ("i64",)]
        ptrs = [k for k, p in enumerate(fn.params) if p["t"].endswith("*")]
        if len(vals) == 1 and len(fn.params) == len(vals) + len(ptrs) and len(ptrs) <= 1:
            try:
                cls = e1.table(mod, callee, input_arg=vals[0], dst_arg=(ptrs[0] if ptrs else -1))
                parts = []
                for lo, hi, ret, st in cls:
                    r = norm(ret, lo, hi) if ret is not None else None
                    if r is None or not is_c(r): parts = None; break
                    if parts and parts[-1][2] == r[1] and parts[-1][1] + 1 == lo: parts[-1] = (parts[-1][0], hi, r[1])
                    else: parts.append((lo, hi, r[1]))
                res = tuple(parts) if parts else None
            except (e1.Unsupported, RecursionError):
                res = None
    _TAB[callee] = res if res is not None else ("name", callee)
    return _TAB[callee]


_FIELD_BITS = {}


def role(fn, mod, o, depth=0, seen=None):
    """what kind of quantity is this value"""
    seen = seen or set()
    o = strip(fn, o)
    if o["k"] == "int":
        v = int(o["v"])
        return ("const-max",) if v >= (1 << 63) else ("const", v)
    if o["k"] == "arg": return ("param", fn.argnames.get(o["v"], o["v"]))
    if o["k"] != "inst" or depth > 6: return ("other",)
    if o["v"] in seen: return None
    seen = seen | {o["v"]}
    i = fn.imap[o["v"]]
    if i.op == "load":
        a = i.ops[0]
        # field of a struct (parameter or local copy of metadata), or element of an array
        g = fn.imap[a["v"]] if a["k"] == "inst" else None
        while g is not None and g.op == "bitcast" and g.ops[0]["k"] == "inst": g = fn.imap[g.ops[0]["v"]]
        if g is not None and g.op == "getelementptr":
            if "field" in g.d:
                sname = g["field"]["struct"]; di = mod.ditypes.get(sname.split(".", 1)[1] if "." in sname else sname); st = mod.structs.get(sname)
                if di and st:
                    off = st["fields"][g["field"]["field"]]["off"]
                    for m in di["members"]:
                        if m["off"] == off:
                            _FIELD_BITS[m["name"]] = max(_FIELD_BITS.get(m["name"], 0), i["size"] * 8)      # widest load of a member of this name
                            return ("field", m["name"])
                elif st:
                    # anonymous struct (e.g. a local record type): identify the member by its position
                    return ("member", g["field"]["field"], i["size"] * 8)
            if g["var"]:
                base = strip(fn, g.ops[0])
                if base["k"] == "arg": return ("elem", fn.argnames.get(base["v"], base["v"]))
                if base["k"] == "inst" and fn.imap[base["v"]].op == "load":
                    r = role(fn, mod, base, depth + 1, seen)
                    return ("elem-of",) + (r or ("other",))
                return ("elem", "local")
        return ("load",)
    if i.op == "phi":
        rs = set()
        for inc in i["incoming"]:
            r = role(fn, mod, inc["v"], depth + 1, seen)
            if r is None: continue
            if r[0] == "mixed": rs |= set(r[1:])              # a merge of merges is one merge (rotated loops, nested ifs)
            else: rs.add(r)
        rs2 = {r for r in rs if r[0] not in ("const",)}
        if not rs2: return ("counter",)                  # only constants and itself (+1): a run length / ordinal
        if len(rs2) == 1: return next(iter(rs2))
        return ("mixed",) + tuple(sorted(rs2))
    if i.op in ("add", "sub"):
        a, b = strip(fn, i.ops[0]), strip(fn, i.ops[1])
        if b["k"] == "int": return role(fn, mod, a, depth + 1, seen)
        return ("arith",)
    if i.op == "select":
        rs0 = {role(fn, mod, i.ops[1], depth + 1, seen), role(fn, mod, i.ops[2], depth + 1, seen)} - {None}
        rs = set()
        for r in rs0:
            if r[0] == "mixed": rs |= set(r[1:])
            else: rs.add(r)
        return next(iter(rs)) if len(rs) == 1 else ("mixed",) + tuple(sorted(rs))
    if i.op == "call": return ("call", i.get("callee"))
    return ("other",)


def guard_range(fn, m, which, subject):
    """m: phi/select merging a constant (incoming/operand number `which`) with a length of `subject`.  Returns the interval of subject
    values for which the constant is chosen, when the choice is governed by one comparison of subject with a constant; else None."""
    subject = strip(fn, subject)
    def from_cmp(c, truth):
        if c["k"] != "inst": return None
        ci = fn.imap[c["v"]]
        if ci.op != "icmp" or ci.ops[1]["k"] != "int": return None
        x = strip(fn, ci.ops[0])
        if not (x["k"] == subject["k"] and x["v"] == subject["v"]): return None
        k = int(ci.ops[1]["v"]); p = ci["pred"]; TOP = (1 << 64) - 1
        rng = {"ule": (0, k), "ult": (0, k - 1), "ugt": (k + 1, TOP), "uge": (k, TOP), "eq": (k, k), "sle": (0, k), "slt": (0, k - 1)}.get(p)
        if rng is None: return None
        if truth: return [rng]
        lo, hi = rng; out = []
        if lo > 0: out.append((0, lo - 1))
        if hi < TOP: out.append((hi + 1, TOP))
        return out
    if m.op == "select": return from_cmp(m.ops[0], which == 1)
    b = fn.bmap[m["incoming"][which]["b"]]; prev = m.block
    for _ in range(4):
        t = b.term
        if t.op == "br" and len(t.ops) == 3:
            return from_cmp(t.ops[0], t.ops[2]["v"] == prev.id) if t.ops[2]["v"] != t.ops[1]["v"] else None
        if len(b.preds) != 1: return None
        prev = b; b = b.preds[0]
    return None


def alt_is_benign(table, rngs, K):
    """does the length table give K everywhere on the ranges?"""
    if not isinstance(table, tuple) or (table and table[0] == "name"): return False
    for lo, hi in rngs:
        if lo > hi: continue
        cover = lo
        for (a, b, ln) in table:
            if b < lo or a > hi: continue
            if ln != K: return False
            if a > cover: return False
            cover = max(cover, b + 1)
        if cover <= hi: return False
    return True


def compose(mod, tab, chain):
    """the length table seen through constant lookup tables: `storageWidth[minimalWidth(v)]`"""
    from .ival import global_bytes
    if not chain: return tab
    if not isinstance(tab, tuple) or not tab or tab[0] == "name": return ("mapped", tab, chain)
    parts = []
    for (lo, hi, ln) in tab:
        for (gname, coff, stride, size) in chain:
            by = global_bytes(mod, gname); off = coff + ln * stride
            if by is None or off < 0 or off + size > len(by): return ("mapped", tab, chain)
            ln = int.from_bytes(by[off:off + size], "little")
        if parts and parts[-1][2] == ln and parts[-1][1] + 1 == lo: parts[-1] = (parts[-1][0], hi, ln)
        else: parts.append((lo, hi, ln))
    return tuple(parts)


def flows_into(fn, start_id, sink_test, table=None, subject=None, maps_out=None):
    """does the value %start_id reach (through casts, adds, phis, selects) an instruction accepted by sink_test?
    Returns (reached, alternatives): the constants that a phi / select merges with the value *before* it is first added to anything,
    i.e. while it still stands for one length - `n <= 255 ? 1 : len(n)` has the alternative 1, an accumulator `size = phi(0, size+len)` none."""
    seen = set(); work = [(start_id, False, ())]; reached = False; alts = set()
    users = {}
    for i in fn.insts():
        ops = list(i.ops) + ([inc["v"] for inc in i["incoming"]] if i.op == "phi" else [])
        for o in ops:
            if o["k"] == "inst": users.setdefault(o["v"], []).append(i)
            elif o["k"] == "arg": users.setdefault(("arg", o["v"]), []).append(i)
    while work:
        v, added, maps = work.pop()
        if (v, added, maps) in seen: continue
        seen.add((v, added, maps))
        for i in users.get(v, ()):
            if i.op == "getelementptr" and i.ops[0]["k"] == "global" and len(i["var"]) == 1 and i["var"][0]["idx"]["k"] == "inst" and i["var"][0]["idx"]["v"] == v \
                    and (fn.mod.globals.get(i.ops[0]["v"]) or {}).get("constant"):
                # index into a read-only lookup table (`storageWidth[w]`): what is loaded from there is the (translated) length
                for ld in users.get(i.id, ()):
                    if ld.op == "load" and ld.id >= 0 and len(maps) < 3:
                        work.append((ld.id, added, maps + ((i.ops[0]["v"], i["coff"], i["var"][0]["stride"], ld["size"]),)))
                continue
            if sink_test(i, v):
                reached = True
                if maps_out is not None: maps_out.add(maps)
                continue
            if i.op == "store" and i.ops[0]["k"] == "inst" and i.ops[0]["v"] == v:
                # kept in a local array for a later pass (`widths[i] = w; ... offset += widths[i]`): what is loaded from that array is it
                root = _alloca_root(fn, i.ops[1])
                if root is not None:
                    for ld in fn.insts():
                        if ld.op == "load" and ld.id >= 0 and _alloca_root(fn, ld.ops[0]) == root: work.append((ld.id, added, maps))
                continue
            if i.id < 0: continue
            if i.op == "call" and i.get("callee") and not i["callee"].startswith("llvm.") and fn.mod.fn(i["callee"]) is not None and not fn.mod.fn(i["callee"]).decl:
                # a length handed to a helper that adds it into what it returns (e.g. headerLen(minWidth, countWidth))
                g = fn.mod.fn(i["callee"])
                for k in range(i["nargs"]):
                    o = i.ops[k]
                    if (o["k"] == "inst" and o["v"] == v) or (o["k"] == "arg" and ("arg", o["v"]) == v):
                        if param_reaches_return(g, k): work.append((i.id, True, maps))
                continue
            if i.op in ("zext", "sext", "trunc"): work.append((i.id, added, maps))
            elif i.op in ("add", "sub", "mul", "shl"): work.append((i.id, True, maps))      # summed, or charged once per element
            elif i.op in ("phi", "select"):
                if not added:
                    others = list(enumerate(inc["v"] for inc in i["incoming"])) if i.op == "phi" else [(1, i.ops[1]), (2, i.ops[2])]
                    for n, o in others:
                        if o["k"] != "int": continue
                        K = int(o["v"])
                        rng = guard_range(fn, i, n, subject) if subject is not None else None
                        if rng is not None and alt_is_benign(table, rng, K): continue       # the constant equals the length there
                        alts.add(K if rng is not None else ("ungoverned", K))
                work.append((i.id, added, maps))
    return reached, tuple(sorted(alts, key=repr))


def _alloca_root(fn, o):
    """the local array an address points into (through casts and element arithmetic), or None"""
    for _ in range(6):
        if o["k"] != "inst": return None
        x = fn.imap[o["v"]]
        if x.op == "alloca": return x.id
        if x.op in ("bitcast", "getelementptr"): o = x.ops[0]
        else: return None
    return None


_PRR = {}
def param_reaches_return(g, k):
    key = (g.name, k)
    if key not in _PRR:
        _PRR[key] = False
        _PRR[key] = flows_into(g, ("arg", k), lambda u, v: u.op == "ret")[0]
    return _PRR[key]


def size_terms(fn, mod, kind, depth=0):
    """kind 'cursor': calls whose result advances a pointer (or an integer offset that indexes one) or is returned;
    kind 'size': calls whose result flows into the returned value or a stored size field.
    Terms are (length table, role of the measured value, constants merged in instead of the length)."""
    out = set(); detail = []
    for i in fn.calls():
        c = i.get("callee") or ""
        if c.startswith("llvm.") or i["t"] in ("void",) or i["t"].endswith("*") or i.id < 0: continue
        g = mod.fn(c)
        if g is None: continue
        def sink(u, v):
            if kind == "size":
                return u.op == "ret" or (u.op == "store" and u.ops[0]["k"] == "inst" and u.ops[0]["v"] == v and u.ops[1]["t"] == "i64*")
            if u.op == "getelementptr": return any(x["idx"]["k"] == "inst" and x["idx"]["v"] == v for x in u["var"])
            return u.op == "ret"
        vals = [i.ops[k] for k in range(i["nargs"]) if not i.ops[k]["t"].endswith("*")]
        tab = length_table(mod, c) if len(vals) == 1 else None
        chains = set()
        ok, alts = flows_into(fn, i.id, sink, tab, vals[0] if len(vals) == 1 else None, chains)
        if not ok: continue
        if tab is not None and tab[0] != "name":
            for ch in sorted(chains or {()}):
                t = (compose(mod, tab, ch), role(fn, mod, vals[0]), alts); out.add(t); detail.append((c, t[1], i.line))
            continue
        # a helper that is not itself a length function of one value: its own terms, with parameter roles replaced by the actuals'
        inner = set()
        if depth < 2 and not g.decl:
            inner, _ = size_terms(g, mod, "size", depth + 1)
            if not inner: inner, _ = size_terms(g, mod, "cursor", depth + 1)       # a helper that writes and returns the bytes it advanced
        if inner:
            for (tb, r, al) in inner:
                if r[0] == "param":
                    k = next((k for k, n in g.argnames.items() if n == r[1]), None)
                    if k is not None and k < i["nargs"]: r = role(fn, mod, i.ops[k])
                t = (tb, r, tuple(sorted(set(al) | set(alts), key=repr))); out.add(t); detail.append((c, r, i.line))
        elif len(vals) == 1:
            t = (tab, role(fn, mod, vals[0]), alts); out.add(t); detail.append((c, t[1], i.line))
    return out, detail


def value_bits(fn, o):
    """bit width of the underlying value of an operand before zero/sign extension"""
    while o["k"] == "inst" and fn.imap[o["v"]].op in ("zext", "sext"): o = fn.imap[o["v"]].ops[0]
    t = o.get("t", "i64")
    try: return int(t[1:])
    except ValueError: return 64


def match_terms(pred, enc, exact):
    """pred / enc: sets of (table, role).  Returns (uncovered encoder terms, unexplained predictor terms)."""
    pe = set(pred); en = set(enc)
    common = pe & en
    pe -= common; en -= common
    # a constant at least as large as anything the measured quantity can hold covers one encoder term of the same table
    cv_of = lambda r: (1 << 64) - 1 if r[0] == "const-max" else r[1]
    bits_of = lambda e: e[1][2] if e[1][0] == "member" else (_FIELD_BITS.get(e[1][1], 64) if e[1][0] == "field" else 64)
    for t in sorted([t for t in pe if t[1][0] in ("const-max", "const")], key=lambda t: cv_of(t[1])):      # smallest constants first
        tab, r, al = t
        if al: continue
        fit = [e for e in en if e[0] == tab and not e[2] and cv_of(r) >= (1 << bits_of(e)) - 1]
        if fit:
            e = max(fit, key=lambda e: (bits_of(e), repr(e)))
            en.discard(e); pe.discard(t)
    if not exact: pe = set()
    return en, {t for t in pe if t[1][0] not in ("const-max",)}


def paired_terms(mod, pf, ef, cfg, exact):
    """size terms of a predictor and of the encoder it describes, and what does not match.  When the plain reading does not match (or
    finds nothing) and either function has been split into file-local helpers (e.g. cursor-returning ones), the comparison is repeated
    with those helpers inlined; the inlined reading is only used when it matches completely, otherwise the plain reading is reported.
    Returns (predictor terms, encoder terms, uncovered, unexplained, note)."""
    from .common import with_helpers_inlined
    pt, _ = size_terms(pf, mod, "size"); et, _ = size_terms(ef, mod, "cursor")
    unc, unexp = match_terms(pt, et, exact) if pt and et else (set(), set())
    if pt and et and not unc and not unexp: return pt, et, unc, unexp, None
    for which in ("encoder", "predictor", "both"):
        m2p = m2e = None; pf2, ef2 = pf, ef; mp, me = mod, mod
        if which in ("encoder", "both"):
            me, ef2 = with_helpers_inlined(mod, ef, cfg)
            if me is None: continue
        if which in ("predictor", "both"):
            mp, pf2 = with_helpers_inlined(mod, pf, cfg)
            if mp is None: continue
        global _TAB
        saved = _TAB; _TAB = {}
        try:
            pt2, _ = size_terms(pf2, mp, "size"); et2, _ = size_terms(ef2, me, "cursor")
        finally:
            _TAB = saved
        if pt2 and et2:
            u2, x2 = match_terms(pt2, et2, exact)
            if not u2 and not x2: return pt2, et2, u2, x2, "%s read with its file-local helpers inlined" % which
    return pt, et, unc, unexp, None
