/* Positive / negative controls for E-ALLOC (C18, C08-B3).  Not library code. */
#include <stdint.h>
#include <stddef.h>
#include <stdlib.h>
#include <string.h>
#include <stdbool.h>

typedef struct bag { uint32_t n; uint32_t cap; uint16_t *vals; } bag;

size_t ctl_unchecked(const uint64_t *in, size_t n, uint64_t *out) {      /* R1 */
    uint64_t *tmp = malloc(n * 8);
    memcpy(tmp, in, n * 8);
    for (size_t i = 0; i < n; i++) out[i] = tmp[i];
    free(tmp); return n;
}
size_t ctl_leak_on_error(const uint64_t *in, size_t n, uint64_t *out) {  /* R3 */
    uint64_t *a = malloc(n * 8); if (!a) return 0;
    uint64_t *b = malloc(n * 8); if (!b) return 0;                     /* leaks a */
    memcpy(a, in, n * 8); memcpy(b, a, n * 8); memcpy(out, b, n * 8);
    free(a); free(b); return n;
}
size_t ctl_fallback(const uint64_t *in, size_t n, uint64_t *out) {       /* R2: continues and reports success */
    uint64_t *tmp = malloc(n * 8);
    if (!tmp) { n = n / 2; }
    else { memcpy(tmp, in, n * 8); free(tmp); }
    for (size_t i = 0; i < n; i++) out[i] = in[i];
    return n + 1;
}
static bool grow(bag *b) {
    uint16_t *nv = realloc(b->vals, (b->cap * 2 + 1) * 2);
    if (!nv) return false;
    b->vals = nv; b->cap = b->cap * 2 + 1; return true;
}
void ctl_discard(bag *b, uint16_t v) { grow(b); b->vals[b->n++] = v; }    /* R5 */
void ctl_overwrite(bag *b) { b->vals = malloc(8); b->cap = 4; b->n = 0; } /* R6 (and the bag type has a destructor) */
void ctl_drop_unread(bag *b) { free(b->vals); b->vals = malloc(8); b->cap = 4; b->n = 0; } /* R4 */
void bag_free(bag *b) { if (!b) return; free(b->vals); free(b); }

static size_t enc(const uint64_t *in, size_t n, uint8_t *dst) { uint64_t *t = malloc(n * 8); if (!t) return 0; memcpy(t, in, n * 8); memcpy(dst, t, n * 8); free(t); return n * 8; }
size_t ctl_masked(const uint64_t *in, size_t n, uint8_t *dst) { dst[0] = 7; return enc(in, n, dst + 1) + 1; }   /* R5: 0 becomes 1 */
size_t ctl_clean_propagate(const uint64_t *in, size_t n, uint8_t *dst) { size_t r = enc(in, n, dst + 1); if (r == 0) return 0; dst[0] = 7; return r + 1; }

bool ctl_half_update(bag *b, uint32_t need) {                              /* R7: capacity updated before the allocation succeeded */
    if (need <= b->cap) return true;
    b->cap = need;
    uint16_t *nv = realloc(b->vals, (size_t)b->cap * 2);
    if (!nv) return false;
    b->vals = nv; return true;
}

bool ctl_realloc_in_place(bag *b, uint32_t need) {                         /* R8: the classic p = realloc(p, n) */
    b->vals = realloc(b->vals, (size_t)need * 2);
    if (!b->vals) return false;
    b->cap = need; return true;
}

/* ---- clean ---- */
size_t ctl_clean_joint(const uint64_t *in, size_t n, uint64_t *out) {
    uint64_t *a = malloc(n * 8), *b = malloc(n * 8);
    if (!a || !b) { free(a); free(b); return 0; }
    memcpy(a, in, n * 8); memcpy(b, a, n * 8); memcpy(out, b, n * 8);
    free(a); free(b); return n;
}
bool ctl_clean_grow(bag *b, uint16_t v) { if (b->n == b->cap && !grow(b)) return false; b->vals[b->n++] = v; return true; }
bag *ctl_clean_ctor(void) {
    bag *b = calloc(1, sizeof *b); if (!b) return NULL;
    b->vals = malloc(8); if (!b->vals) { free(b); return NULL; }
    b->cap = 4; return b;
}
size_t ctl_clean_goto(const uint64_t *in, size_t n, uint64_t *out) {
    size_t r = 0; uint64_t *a = NULL, *b = NULL;
    a = malloc(n * 8); if (!a) goto done;
    b = malloc(n * 8); if (!b) goto done;
    memcpy(a, in, n * 8); memcpy(b, a, n * 8); memcpy(out, b, n * 8); r = n;
done:
    free(a); free(b); return r;
}
