/* controls for E-TABLE (C08-B2, C06-A2) */
#include <stdint.h>
typedef enum ctlKind { CTL_A = 0, CTL_B = 1, CTL_C = 2 } ctlKind;
typedef struct ctlObj { ctlKind kind; uint32_t n; } ctlObj;
uint32_t ctl_missing_case(const ctlObj *o) { switch (o->kind) { case CTL_A: return 1; case CTL_B: return o->n; default: break; } return 0; }
uint32_t ctl_clean_all_cases(const ctlObj *o) { switch (o->kind) { case CTL_A: return 1; case CTL_B: return o->n; case CTL_C: return 3; } return 0; }
