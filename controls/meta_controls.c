/* controls for E-META (C16) */
#include <stdint.h>
#include <stddef.h>
#include <string.h>
typedef struct ctlMeta { uint64_t min; uint64_t count; uint64_t encodedSize; uint32_t width; } ctlMeta;
static size_t put(uint8_t *d, uint64_t v) { d[0] = (uint8_t)v; return 1 + (v > 255); }
size_t ctl_meta_missing(uint8_t *dst, const uint64_t *v, size_t count, ctlMeta *meta) {
    if (count == 0) return 0;
    uint8_t *p = dst; for (size_t i = 0; i < count; i++) p += put(p, v[i]);
    if (meta) { meta->min = v[0]; meta->count = count; meta->encodedSize = (size_t)(p - dst); }      /* width never written */
    return (size_t)(p - dst);
}
size_t ctl_meta_size_off(uint8_t *dst, const uint64_t *v, size_t count, ctlMeta *meta) {
    if (count == 0) return 0;
    uint8_t *p = dst; for (size_t i = 0; i < count; i++) p += put(p, v[i]);
    if (meta) { meta->min = v[0]; meta->count = count; meta->width = (uint32_t)put(dst, v[0]); meta->encodedSize = (size_t)(p - dst) + 1; }
    return (size_t)(p - dst);
}
size_t ctl_meta_count_wrong(uint8_t *dst, const uint64_t *v, size_t count, ctlMeta *meta) {
    if (count == 0) return 0;
    uint8_t *p = dst; for (size_t i = 0; i < count; i++) p += put(p, v[i]);
    if (meta) { meta->min = v[0]; meta->count = count - 1; meta->width = (uint32_t)put(dst, v[0]); meta->encodedSize = (size_t)(p - dst); }
    return (size_t)(p - dst);
}
size_t ctl_meta_placeholder(const uint8_t *src, ctlMeta *meta) { meta->min = src[0]; meta->count = 0; meta->width = src[1]; meta->encodedSize = 1; return 2; }
size_t ctl_clean_meta(uint8_t *dst, const uint64_t *v, size_t count, ctlMeta *meta) {
    if (count == 0) { if (meta) memset(meta, 0, sizeof *meta); return 0; }
    uint8_t *p = dst; for (size_t i = 0; i < count; i++) p += put(p, v[i]);
    if (meta) { meta->min = v[0]; meta->count = count; meta->width = (uint32_t)put(dst, v[0]); meta->encodedSize = (size_t)(p - dst); }
    return (size_t)(p - dst);
}
