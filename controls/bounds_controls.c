/* controls for E-BOUNDS (C13, C14) */
#include <stdint.h>
#include <stddef.h>
#include <stdbool.h>
#include <string.h>
static size_t rd(const uint8_t *s, uint64_t *v) { *v = s[0]; return 1; }
size_t ctl_dec_noguard(const uint8_t *src, uint64_t *values, size_t maxCount) {
    uint64_t n; src += rd(src, &n); (void)maxCount;
    for (size_t i = 0; i < n; i++) values[i] = src[i];
    return n;
}
size_t ctl_dec_offbyone(const uint8_t *src, uint64_t *values, size_t maxCount) {
    uint64_t n; src += rd(src, &n);
    if (n > maxCount + 1) return 0;
    for (size_t i = 0; i < n; i++) values[i] = src[i];
    return n;
}
static void fill(const uint8_t *src, uint64_t *out, size_t n) { for (size_t i = 0; i < n; i++) out[i] = src[i]; }
size_t ctl_dec_callee(const uint8_t *src, uint64_t *values, size_t maxCount) {
    uint64_t n; src += rd(src, &n); (void)maxCount;
    fill(src, values, n); return n;
}
size_t ctl_dec_tmp(const uint8_t *src, uint64_t *values, size_t maxCount) {
    uint64_t n; src += rd(src, &n); uint8_t tmp[16];
    if (n > maxCount) return 0;
    for (size_t i = 0; i < n; i++) tmp[i] = src[i];          /* n is not bounded by 16 */
    for (size_t i = 0; i < n; i++) values[i] = tmp[i];
    return n;
}
size_t ctl_clean_guard(const uint8_t *src, uint64_t *values, size_t maxCount) {
    uint64_t n; src += rd(src, &n);
    if (maxCount < n) return 0;
    for (size_t i = 0; i != n; i++) values[i] = src[i];
    return n;
}
size_t ctl_clean_clamp(const uint8_t *src, uint64_t *values, size_t maxCount) {
    uint64_t n; src += rd(src, &n);
    size_t m = n > maxCount ? maxCount : n;
    for (size_t i = 0; i < m; i++) values[i] = src[i];
    return m;
}
static bool fits(uint64_t n, size_t cap) { return n <= cap; }
size_t ctl_clean_helper(const uint8_t *src, uint64_t *values, size_t maxCount) {
    uint64_t n; src += rd(src, &n);
    if (!fits(n, maxCount)) return 0;
    fill(src, values, n); return n;
}
size_t ctl_clean_while(const uint8_t *src, uint64_t *values, size_t maxCount) {
    size_t d = 0;
    while (d < maxCount && src[d] != 0) { values[d] = src[d]; d++; }
    return d;
}
size_t ctl_clean_forward(const uint8_t *src, uint64_t *values, size_t maxCount) { return ctl_clean_guard(src, values, maxCount); }

/* ---- input side (C14) ---- */
size_t ctl_rd_unused_len(const uint8_t *src, size_t len, uint64_t *out) { (void)len; uint64_t n = src[0]; for (size_t i = 0; i < n; i++) out[i] = src[1 + i]; return n; }
size_t ctl_rd_check_after(const uint8_t *src, size_t len, uint64_t *out) {
    const uint8_t *p = src, *end = src + len; uint64_t v;
    size_t w = rd(p, &v) + (size_t)p[1];        /* reads p[0], p[1] before the test */
    if (p + w > end) return 0;
    *out = v; return w;
}
size_t ctl_rd_clean(const uint8_t *src, size_t len, uint64_t *out) {
    if (len < 2) return 0;
    uint64_t n = src[0];
    if (n + 1 > len) return 0;
    for (size_t i = 0; i < n; i++) out[i] = src[1 + i];
    return n;
}
size_t ctl_rd_clean_end(const uint8_t *src, size_t len, uint64_t *out) {
    const uint8_t *p = src, *end = src + len; size_t k = 0;
    while (p < end) { out[k++] = *p; p++; }
    return k;
}
