/* Positive / negative controls for E-PTS (C17, C15-S1, C08-B1).  Not library code. */
#include <stdint.h>
#include <stddef.h>
#include <stdlib.h>
#include <string.h>

typedef struct box { uint16_t *vals; uint32_t n; } box;
typedef struct iter { const box *b; uint32_t pos; } iter;

static uint64_t cache[4];                 /* mutable global: must be flagged */

uint64_t ctl_static_cache(const uint64_t *in, size_t n) {
    uint64_t s = 0;
    for (size_t i = 0; i < n; i++) s += in[i];
    cache[n & 3] = s;                     /* write outside params */
    return s;
}

void ctl_const_deep_write(const box *b) { b->vals[0] = 1; }   /* legal C, writes through a const operand */

static iter mk(const box *b) { iter it; it.b = b; it.pos = 0; return it; }
static void bump(iter *it) { ((box *)it->b)->n++; it->pos++; }  /* writes the captured const object */
void ctl_iter_capture_write(const box *b) { iter it = mk(b); bump(&it); }

int ctl_stateful_callee(void) { return rand(); }

/* clean: local iterator over a const object, only the iterator's own fields are written */
static void step(iter *it) { it->pos++; }
uint32_t ctl_clean_iter(const box *b) { iter it = mk(b); uint32_t s = 0; while (it.pos < b->n) { s += b->vals[it.pos]; step(&it); } return s; }
/* clean: per-call heap scratch */
uint64_t ctl_clean_scratch(const uint64_t *in, size_t n, uint64_t *out) {
    uint64_t *tmp = malloc(n * 8); if (!tmp) return 0;
    memcpy(tmp, in, n * 8); for (size_t i = 0; i < n; i++) out[i] = tmp[n - 1 - i];
    free(tmp); return n;
}
