/* controls for E-UNINIT / E-META (C15, C16) */
#include <stdint.h>
#include <stddef.h>
#include <stdlib.h>
#include <string.h>
typedef struct ctlMeta { uint64_t min; uint64_t count; uint32_t width; } ctlMeta;
typedef struct ctlOut { ctlMeta m; uint64_t size; } ctlOut;

uint64_t ctl_uninit_local(uint64_t x) { ctlMeta m; m.min = x; return m.min + m.count; }              /* count never written */
static uint64_t useCount(const ctlMeta *m, uint64_t n) { return m->count != n ? n : m->min; }
uint64_t ctl_uninit_callee(uint64_t n) { ctlMeta m; return useCount(&m, n); }                          /* callee reads before write */
static void fillSome(ctlMeta *m, uint64_t n) { m->min = n; m->width = 1; }
void ctl_uninit_copyout(ctlOut *out, uint64_t n) { ctlMeta m; fillSome(&m, n); out->m = m; out->size = n; }  /* count copied out unwritten */
ctlMeta *ctl_ctor_partial(uint64_t n) { ctlMeta *m = malloc(sizeof *m); if (!m) return NULL; m->min = n; m->width = 2; return m; }

static int fillAll(ctlMeta *m, uint64_t n) { if (n == 0) return 0; m->min = n; m->count = n; m->width = 1; return 1; }
uint64_t ctl_clean_status(uint64_t n) { ctlMeta m; if (!fillAll(&m, n)) return 0; return m.min + m.count + m.width; }  /* written on the success class */
uint64_t ctl_clean_memset(uint64_t n) { ctlMeta m; memset(&m, 0, sizeof m); m.min = n; ctlOut o; o.m = m; o.size = 1; return o.m.count + o.size; }
ctlMeta *ctl_clean_ctor(uint64_t n) { ctlMeta *m = calloc(1, sizeof *m); if (!m) return NULL; m->min = n; return m; }
