/* controls for E-UNINIT / E-META (C15, C16) */
#include <stdint.h>
#include <stddef.h>
#include <stdlib.h>
#include <string.h>
typedef struct ctlMeta { uint64_t min; uint64_t count; uint32_t width; } ctlMeta;
typedef struct ctlOut { ctlMeta m; uint64_t size; } ctlOut;

uint64_t ctl_uninit_local(uint64_t x) { ctlMeta m; m.min = x; return m.min + m.count; }              /* count never written */
static uint64_t useCount(const ctlMeta *m, uint64_t n) { return m->count != n ? n : m->min; }
uint64_t ctl_uninit_callee(uint64_t n) { ctlMeta m; return useCount(&m, n); }                          /* callee reads before write */
static void fillSome(ctlMeta *m, uint64_t n) { m->min = n; m->width = 1; }
void ctl_uninit_copyout(ctlOut *out, uint64_t n) { ctlMeta m; fillSome(&m, n); out->m = m; out->size = n; }  /* count copied out unwritten */
ctlMeta *ctl_ctor_partial(uint64_t n) { ctlMeta *m = malloc(sizeof *m); if (!m) return NULL; m->min = n; m->width = 2; return m; }

static int fillAll(ctlMeta *m, uint64_t n) { if (n == 0) return 0; m->min = n; m->count = n; m->width = 1; return 1; }
uint64_t ctl_clean_status(uint64_t n) { ctlMeta m; if (!fillAll(&m, n)) return 0; return m.min + m.count + m.width; }  /* written on the success class */
uint64_t ctl_clean_memset(uint64_t n) { ctlMeta m; memset(&m, 0, sizeof m); m.min = n; ctlOut o; o.m = m; o.size = 1; return o.m.count + o.size; }
ctlMeta *ctl_clean_ctor(uint64_t n) { ctlMeta *m = calloc(1, sizeof *m); if (!m) return NULL; m->min = n; return m; }

static uint64_t sumall(const uint64_t *a, size_t n) { uint64_t s = 0; for (size_t i = 0; i < n; i++) s += a[i]; return s; }
uint64_t ctl_array_partial(const uint64_t *in, size_t n) {      /* S3: odd positions never written, then read whole */
    uint64_t *t = malloc(n * 8); if (!t) return 0;
    for (size_t i = 0; i < n; i++) { if (in[i] & 1) continue; t[i] = in[i]; }
    uint64_t r = sumall(t, n); free(t); return r;
}
uint64_t ctl_clean_array(const uint64_t *in, size_t n) {
    uint64_t *t = malloc(n * 8); if (!t) return 0;
    for (size_t i = 0; i < n; i++) { t[i] = (in[i] & 1) ? 0 : in[i]; }
    uint64_t r = sumall(t, n); free(t); return r;
}
