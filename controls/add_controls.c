/* controls for C12 */
#include <stdint.h>
#include <stdbool.h>
#include <string.h>
static uint32_t wlen(uint64_t v) { uint32_t e = 1; while ((v >>= 8) != 0) e++; return e; }
static uint64_t get(const uint8_t *p, uint32_t w) { uint64_t r = 0; memcpy(&r, p, w); return r; }
static void put(uint8_t *p, uint64_t v) { memcpy(p, &v, wlen(v)); }
uint32_t ctl_add_measures_old(uint8_t *p, uint32_t w, int64_t add, bool force) {
    int64_t cur = (int64_t)get(p, w); long long nv;
    if (__builtin_saddll_overflow(cur, add, &nv)) return 0;
    uint32_t nw = wlen((uint64_t)cur);
    if (nw > w && !force) return nw;
    put(p, (uint64_t)nv); return nw;
}
uint32_t ctl_add_ge(uint8_t *p, uint32_t w, int64_t add, bool force) {
    int64_t cur = (int64_t)get(p, w); long long nv;
    if (__builtin_saddll_overflow(cur, add, &nv)) return 0;
    uint32_t nw = wlen((uint64_t)nv);
    if (nw >= w && !force) return nw;
    put(p, (uint64_t)nv); return nw;
}
uint32_t ctl_add_overflow_writes(uint8_t *p, uint32_t w, int64_t add, bool force) {
    int64_t cur = (int64_t)get(p, w); long long nv;
    if (__builtin_saddll_overflow(cur, add, &nv)) { put(p, 0); return 0; }
    uint32_t nw = wlen((uint64_t)nv);
    if (nw > w && !force) return nw;
    put(p, (uint64_t)nv); return nw;
}
uint32_t ctl_clean_add(uint8_t *p, uint32_t w, int64_t add, bool force) {
    int64_t cur = (int64_t)get(p, w); long long nv;
    if (__builtin_saddll_overflow(cur, add, &nv)) return 0;
    uint32_t nw = wlen((uint64_t)nv);
    if (!(nw <= w) && !force) return nw;
    put(p, (uint64_t)nv); return nw;
}
