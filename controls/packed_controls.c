/* controls for E2 (C09): a packed 12-bit/32-bit-slot Set whose split path shifts `high` by startBit, and a Get that always reads two slots */
#include <stdint.h>
#include <string.h>
void ctlBad12Set(void *_dst, uint32_t offset, uint16_t val) {
    uint32_t *dst = (uint32_t *)_dst; uint64_t sb = (uint64_t)offset * 12; uint32_t *out = &dst[sb / 32]; uint32_t s = sb % 32, avail = 32 - s;
    if (12 <= avail) { uint32_t c; memcpy(&c, out, 4); c = (uint32_t)((c & ~((uint64_t)0xfff << s)) | ((uint64_t)val << s)); memcpy(out, &c, 4); }
    else { uint64_t low = (uint64_t)val << s, high = (uint64_t)val >> s; uint32_t a, b; memcpy(&a, &out[0], 4); memcpy(&b, &out[1], 4);
           a = (uint32_t)((a & ~((uint64_t)0xfff << s)) | low); b = (uint32_t)((b & ~((uint64_t)0xfff >> avail)) | high); memcpy(&out[0], &a, 4); memcpy(&out[1], &b, 4); }
}
uint16_t ctlBad12Get(const void *src_, uint32_t offset) { const uint32_t *src = src_; uint64_t sb = (uint64_t)offset * 12; const uint32_t *in = &src[sb / 32]; uint32_t s = sb % 32, avail = 32 - s;
    if (12 <= avail) { uint32_t c; memcpy(&c, in, 4); return (c >> s) & 0xfff; }
    uint32_t a, b; memcpy(&a, &in[0], 4); memcpy(&b, &in[1], 4); return (uint16_t)((a >> s) | (((uint64_t)b << avail) & 0xfff)); }
void ctlBad12SetHalf(void *d, uint32_t o) { ctlBad12Set(d, o, ctlBad12Get(d, o) / 2); }
void ctlBad12SetIncr(void *d, uint32_t o, int64_t by) { ctlBad12Set(d, o, (uint16_t)(ctlBad12Get(d, o) + by)); }
uint16_t ctlLeak12Get(const void *src_, uint32_t offset) { const uint32_t *src = src_; uint64_t sb = (uint64_t)offset * 12; const uint32_t *in = &src[sb / 32]; uint32_t s = sb % 32;
    uint32_t a, b; memcpy(&a, &in[0], 4); memcpy(&b, &in[1], 4); uint64_t both = ((uint64_t)b << 32) | a; return (uint16_t)((both >> s) & 0xfff); }
void ctlLeak12Set(void *_dst, uint32_t offset, uint16_t val) { uint32_t *dst = _dst; uint64_t sb = (uint64_t)offset * 12; uint32_t *out = &dst[sb / 32]; uint32_t s = sb % 32;
    uint32_t a, b; memcpy(&a, &out[0], 4); memcpy(&b, &out[1], 4); uint64_t both = ((uint64_t)b << 32) | a; both = (both & ~((uint64_t)0xfff << s)) | ((uint64_t)val << s);
    a = (uint32_t)both; b = (uint32_t)(both >> 32); memcpy(&out[0], &a, 4); memcpy(&out[1], &b, 4); }
void ctlLeak12SetHalf(void *d, uint32_t o) { ctlLeak12Set(d, o, ctlLeak12Get(d, o) / 2); }
void ctlLeak12SetIncr(void *d, uint32_t o, int64_t by) { ctlLeak12Set(d, o, (uint16_t)(ctlLeak12Get(d, o) + by)); }
/* P4: the bit position is formed in 32-bit arithmetic before it is widened */
uint16_t ctlWrap12Get(const void *src_, uint32_t offset) { const uint32_t *src = src_; uint64_t sb = (uint64_t)(offset * 12); const uint32_t *in = &src[sb / 32]; uint32_t s = sb % 32, avail = 32 - s;
    if (12 <= avail) { uint32_t c; memcpy(&c, in, 4); return (c >> s) & 0xfff; }
    uint32_t a, b; memcpy(&a, &in[0], 4); memcpy(&b, &in[1], 4); return (uint16_t)((a >> s) | (((uint64_t)b << avail) & 0xfff)); }
void ctlWrap12Set(void *_dst, uint32_t offset, uint16_t val) {
    uint32_t *dst = (uint32_t *)_dst; uint64_t sb = (uint64_t)(offset * 12); uint32_t *out = &dst[sb / 32]; uint32_t s = sb % 32, avail = 32 - s;
    if (12 <= avail) { uint32_t c; memcpy(&c, out, 4); c = (uint32_t)((c & ~((uint64_t)0xfff << s)) | ((uint64_t)val << s)); memcpy(out, &c, 4); }
    else { uint64_t low = (uint64_t)val << s, high = (uint64_t)val >> avail; uint32_t a, b; memcpy(&a, &out[0], 4); memcpy(&b, &out[1], 4);
           a = (uint32_t)((a & ~((uint64_t)0xfff << s)) | low); b = (uint32_t)((b & ~((uint64_t)0xfff >> avail)) | high); memcpy(&out[0], &a, 4); memcpy(&out[1], &b, 4); }
}
void ctlWrap12SetHalf(void *d, uint32_t o) { ctlWrap12Set(d, o, ctlWrap12Get(d, o) / 2); }
void ctlWrap12SetIncr(void *d, uint32_t o, int64_t by) { ctlWrap12Set(d, o, (uint16_t)(ctlWrap12Get(d, o) + by)); }
