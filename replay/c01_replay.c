/* Triage replay for C01 findings (by hand): clang -fsanitize=undefined,alignment -g -I/repo/src replay/c01_replay.c /repo/src/varintExternalBigEndian.c -o /tmp/c01r */
#include <stdio.h>
#include <string.h>
#include "varintExternal.h"
#include "varintExternalBigEndian.h"
int main(void) {
    int64_t v = -5, w;
    w = v; varintPrepareSigned64to40_(w); varintRestoreSigned40to64_(w);
    printf("40-bit sign helpers: -5 -> %lld (expected -5)\n", (long long)w);
    w = -5; varintPrepareSigned64to56_(w); varintRestoreSigned56to64_(w);
    printf("56-bit sign helpers: -5 -> %lld (expected -5)\n", (long long)w);
    uint8_t buf[16]; memset(buf, 0, sizeof buf);
    varintExternalBigEndianPutFixedWidth(buf + 1, 0x0102030405060708ULL, VARINT_WIDTH_64B);     /* misaligned 8-byte slot */
    printf("BE put at odd address: %02x %02x .. %02x\n", buf[1], buf[2], buf[8]);
    return 0;
}
