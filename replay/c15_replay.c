/* Triage replay for C15 findings (by hand, MemorySanitizer):
 * clang -fsanitize=memory -g -O0 -I/repo/src replay/c15_replay.c /repo/src/varintAdaptive.c /repo/src/varintFOR.c /repo/src/varintPFOR.c \
 *   /repo/src/varintDelta.c /repo/src/varintDict.c /repo/src/varintBitmap.c /repo/src/varintExternal.c /repo/src/varintTagged.c -o /tmp/c15r */
#include <stdio.h>
#include <string.h>
#include "varintAdaptive.h"
int main(int argc, char **argv) {
    uint64_t v[64], out[64]; uint8_t buf[4096]; varintAdaptiveMeta m;
    for (int i = 0; i < 64; i++) v[i] = 1000 + (uint64_t)i;
    if (argc > 1 && !strcmp(argv[1], "for")) {       /* forMeta.count read uninitialised inside varintFOREncode */
        size_t n = varintAdaptiveEncodeWith(buf, v, 64, VARINT_ADAPTIVE_FOR, &m);
        printf("for: %zu\n", n); return 0;
    }
    /* pforMeta.thresholdValue copied out uninitialised and then observable by the caller */
    size_t n = varintAdaptiveEncodeWith(buf, v, 64, VARINT_ADAPTIVE_PFOR, NULL);
    size_t d = varintAdaptiveDecode(buf, out, 64, &m);
    if (m.encodingMeta.pforMeta.thresholdValue == 12345) printf("x");
    printf("pfor: %zu %zu\n", n, d); return 0;
}
