/* C03 triage: varintBP128MaxBytes leaves no room for the tagged count (Encode64) / first value (delta encoders) written before the blocks.
 * Build: clang -g -fsanitize=address -I/repo/src replay/c03_bp128_replay.c /repo/src/varintBP128.c /repo/src/varintTagged.c */
#include "varintBP128.h"
#include <stdio.h>
#include <stdlib.h>
int main(void) {
    int bad = 0;
    {   /* one 64-bit value: 1 (count) + 2 (partial header) + 8 */
        uint64_t v[1] = {UINT64_MAX};
        size_t need = varintBP128MaxBytes(1);
        uint8_t *dst = malloc(need);
        size_t wrote = varintBP128Encode64(dst, v, 1, NULL);
        printf("Encode64 count=1: advertised=%zu written=%zu\n", need, wrote);
        bad |= wrote > need; free(dst);
    }
    {   /* 128 values: 9 (first value) + partial block of 127 64-bit deltas */
        uint64_t v[128];
        for (int i = 0; i < 128; i++) v[i] = (i & 1) ? 1 : UINT64_MAX; /* deltas wrap to 64 bits */
        size_t need = varintBP128MaxBytes(128);
        uint8_t *dst = malloc(need);
        size_t wrote = varintBP128DeltaEncode64(dst, v, 128, NULL);
        printf("DeltaEncode64 count=128: advertised=%zu written=%zu\n", need, wrote);
        bad |= wrote > need; free(dst);
    }
    return bad;
}
