/* Triage replay for C16 findings (by hand).
 * gcc -g -I/repo/src replay/c16_replay.c /repo/src/varintBP128.c /repo/src/varintAdaptive.c /repo/src/varintFOR.c /repo/src/varintPFOR.c /repo/src/varintDelta.c \
 *   /repo/src/varintDict.c /repo/src/varintBitmap.c /repo/src/varintExternal.c /repo/src/varintTagged.c -o /tmp/c16r */
#include <stdio.h>
#include <string.h>
#include "varintBP128.h"
#include "varintAdaptive.h"
int main(void) {
    uint64_t v[300]; uint8_t buf[8192]; varintBP128Meta m;
    for (int i = 0; i < 300; i++) v[i] = (uint64_t)i * 3;
    memset(&m, 0xAB, sizeof m);
    size_t n = varintBP128DeltaEncode64(buf, v, 300, &m);
    printf("BP128DeltaEncode64: n=%zu count=%zu blocks=%zu lastBlockSize=%zx (expected 0x2b = 43)\n", n, m.count, m.blockCount, m.lastBlockSize);
    varintAdaptiveMeta am; memset(&am, 0xCD, sizeof am);
    uint64_t out[300];
    n = varintAdaptiveEncodeWith(buf, v, 300, VARINT_ADAPTIVE_DELTA, NULL);
    size_t d = varintAdaptiveDecode(buf, out, 300, &am);
    printf("AdaptiveDecode: encoded=%zu decoded=%zu meta.encodedSize=%zx (never written)\n", n, d, am.encodedSize);
    varintAdaptiveReadMeta(buf, &am);
    printf("AdaptiveReadMeta(DELTA): originalCount=%zu encodedSize=%zu (truth: 300, %zu)\n", am.originalCount, am.encodedSize, n);
    return 0;
}
