/* Triage replay for C11 (by hand): gcc -DNDEBUG -I<src> replay/c11_replay.c -o /tmp/c11r   (VBITS narrower than 64 bits) */
#define VBITS uint8_t
#include <stdio.h>
#include <string.h>
#include "varintBitstream.h"
int main(void) {
    uint8_t s[4]; memset(s, 0, sizeof s);
    varintBitstreamSet(s, 0, 3, 5);       /* bits 0..2 := 101 */
    varintBitstreamSet(s, 3, 3, 2);       /* bits 3..5 := 010 */
    printf("first=%llu second=%llu (expected 5 and 2)\n", (unsigned long long)varintBitstreamGet(s, 0, 3), (unsigned long long)varintBitstreamGet(s, 3, 3));
    return 0;
}
