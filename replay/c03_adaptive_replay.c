/* C03 triage: varintAdaptiveEncode vs varintAdaptiveMaxSize.  The unique-count sampler (count > 10000) looks at every 10th element:
 * if those are all equal it reports ~10 unique values, DICT is selected, and the dictionary of the 18001 really distinct 9-byte values
 * plus 2-byte indices is larger than 1 + 9*count.
 * Build: clang -g -fsanitize=address -I/repo/src replay/c03_adaptive_replay.c /repo/src/*.c -lm */
#include "varintAdaptive.h"
#include <stdio.h>
#include <stdlib.h>
int main(void) {
    enum { N = 20000 };
    uint64_t *v = malloc(N * sizeof(*v));
    for (size_t i = 0; i < N; i++) v[i] = (i % 10 == 0) ? 7 : (UINT64_MAX - i * 3);
    size_t need = varintAdaptiveMaxSize(N);
    uint8_t *dst = malloc(need);
    varintAdaptiveMeta meta;
    size_t wrote = varintAdaptiveEncode(dst, v, N, &meta);
    printf("advertised=%zu written=%zu encoding=%d\n", need, wrote, (int)meta.encodingType);
    return wrote > need;
}
