/* Replay for a C03 finding: varintPFORComputeThreshold computes the percentile index as (count * threshold) / 100 in 32-bit
 * arithmetic.  For count > 2^32 / threshold (45.2 million at the default 95) the product wraps, the "95th percentile" becomes a
 * low percentile, nearly every value is an exception (14 extra bytes each) and the adaptive PFOR arm writes more than
 * varintAdaptiveMaxSize(count) promises.
 *
 *   cc -O2 -I/repo/src -o /tmp/c03wrap replay/c03_pfor_percentile_wrap_replay.c /repo/src/varintAdaptive.c /repo/src/varintPFOR.c \
 *      /repo/src/varintFOR.c /repo/src/varintDelta.c /repo/src/varintDict.c /repo/src/varintBitmap.c /repo/src/varintTagged.c \
 *      /repo/src/varintExternal.c -lm && /tmp/c03wrap
 * prints the advertised maximum and the bytes actually written; exit 1 when the encoder wrote more than advertised. */
#include <stdio.h>
#include <stdlib.h>
#include <stdint.h>
#include "varintAdaptive.h"
#include "varintPFOR.h"

int main(void) {
    const size_t count = 46000000;
    uint64_t *values = malloc(count * sizeof(uint64_t));
    if (!values) return 2;
    for (size_t i = 0; i < count; i++) values[i] = (uint64_t)i * 40000000000ULL;      /* distinct, spread over 2^60 */
    const size_t advertised = varintAdaptiveMaxSize(count);
    const size_t room = (size_t)30 * count;
    uint8_t *dst = malloc(room);
    if (!dst) return 2;
    varintPFORMeta pm;
    varintPFORComputeThreshold(values, (uint32_t)count, VARINT_PFOR_THRESHOLD_95, &pm);
    printf("count %zu: exceptions %u (%.1f%%), width %d\n", count, pm.exceptionCount, 100.0 * pm.exceptionCount / count, (int)pm.width);
    const size_t written = varintAdaptiveEncodeWith(dst, values, count, VARINT_ADAPTIVE_PFOR, NULL);
    printf("varintAdaptiveMaxSize = %zu, written = %zu\n", advertised, written);
    if (written > advertised) { printf("FAIL: %zu bytes beyond the advertised maximum\n", written - advertised); return 1; }
    printf("PASS\n");
    return 0;
}
