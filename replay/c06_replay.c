/* Triage replay for C06 (by hand): gcc -I<src> replay/c06_replay.c <src>/varintAdaptive.c <src>/varintFOR.c <src>/varintPFOR.c <src>/varintDelta.c <src>/varintDict.c \
 *   <src>/varintBitmap.c <src>/varintExternal.c <src>/varintTagged.c -o /tmp/c06r */
#include <stdio.h>
#include "varintAdaptive.h"
static void go(const char *what, const uint64_t *v, size_t n) {
    uint8_t buf[4096]; uint64_t out[64]; varintAdaptiveMeta m;
    size_t e = varintAdaptiveEncode(buf, v, n, &m); size_t d = varintAdaptiveDecode(buf, out, n, NULL);
    printf("%s: encoding=%d encoded=%zu decoded=%zu ->", what, (int)m.encodingType, e, d);
    for (size_t i = 0; i < d; i++) printf(" %llu", (unsigned long long)out[i]);
    printf("\n");
}
int main(void) {
    uint64_t desc[5] = {5, 4, 3, 2, 1};
    uint64_t dup[12] = {1, 2, 3, 4, 5, 6, 7, 8, 9, 10, 11, 11};     /* 11 of 12 unique: ratio 0.917 */
    go("descending", desc, 5); go("one duplicate", dup, 12);
    return 0;
}
