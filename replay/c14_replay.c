/* Triage replay for C14 (by hand, ASan).  Heap copies sized exactly to the declared length so that any over-read is caught.
 * clang -fsanitize=address -g -I/repo/src replay/c14_replay.c /repo/src/varintDict.c /repo/src/varintBitmap.c /repo/src/varintBP128.c /repo/src/varintRLE.c \
 *   /repo/src/varintElias.c /repo/src/varintExternal.c /repo/src/varintTagged.c -o /tmp/c14r && /tmp/c14r <case> */
#include <stdio.h>
#include <stdlib.h>
#include <string.h>
#include "varintDict.h"
#include "varintBitmap.h"
#include "varintBP128.h"
#include "varintRLE.h"
#include "varintElias.h"
static uint8_t *exact(const uint8_t *b, size_t n) { uint8_t *p = malloc(n ? n : 1); memcpy(p, b, n); return p; }
int main(int argc, char **argv) {
    const char *c = argc > 1 ? argv[1] : "";
    if (!strcmp(c, "dict")) { uint8_t b[1] = {255}; uint8_t *p = exact(b, 1); size_t n = 0; uint64_t *r = varintDictDecode(p, 1, &n); printf("dict -> %p\n", (void *)r); free(p); return 0; }
    if (!strcmp(c, "dictwrap")) {   /* dictSize 1, value 7, count 2^61+1 -> count*indexWidth wraps to 1 */
        uint8_t b[32]; size_t k = 0; k += varintTaggedPut64(b + k, 1); k += varintTaggedPut64(b + k, 7); k += varintTaggedPut64(b + k, (1ULL << 61) + 1); b[k++] = 0; b[k++] = 0;
        uint8_t *p = exact(b, k); size_t n = 0; uint64_t *r = varintDictDecode(p, k, &n); printf("dictwrap -> %p n=%zu\n", (void *)r, n); free(p); free(r); return 0; }
    if (!strcmp(c, "bitmap")) { uint8_t b[5] = {0, 100, 0, 0, 0}; uint8_t *p = exact(b, 5); varintBitmap *vb = varintBitmapDecode(p, 5); printf("bitmap -> %p\n", (void *)vb); if (vb) varintBitmapFree(vb); free(p); return 0; }
    if (!strcmp(c, "bp128")) { uint8_t b[1] = {255}; uint8_t *p = exact(b, 1); printf("bp128 -> %zu\n", varintBP128GetCount(p, 1)); free(p); return 0; }
    if (!strcmp(c, "rle")) { uint8_t b[2] = {5, 255}; uint8_t *p = exact(b, 2); printf("rle -> %zu\n", varintRLEGetRunCount(p, 2)); free(p); return 0; }
    if (!strcmp(c, "elias")) { uint8_t b[2] = {0, 0}; uint8_t *p = exact(b, 2); uint64_t out[4]; printf("elias -> %zu\n", varintEliasGammaDecodeArray(p, 16, out, 4)); free(p); return 0; }
    return 2;
}
