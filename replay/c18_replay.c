/* Triage replay for the C18/C08 findings (run by hand; never part of a registered check).
 * Build: gcc -g -O0 -I/repo/src replay/c18_replay.c /repo/src/varintBitmap.c /repo/src/varintPFOR.c /repo/src/varintExternal.c \
 *        /repo/src/varintTagged.c -Wl,--wrap=malloc -Wl,--wrap=calloc -o /tmp/c18r && /tmp/c18r <case>
 * Fails the k-th allocation after arm(k). */
#include <stdio.h>
#include <stdlib.h>
#include <string.h>
#include "varintBitmap.h"
#include "varintPFOR.h"
void *__real_malloc(size_t); void *__real_calloc(size_t, size_t);
static long countdown = -1;
static int fail_now(void) { if (countdown < 0) return 0; if (countdown == 0) { countdown = -1; return 1; } countdown--; return 0; }
void *__wrap_malloc(size_t n) { return fail_now() ? NULL : __real_malloc(n); }
void *__wrap_calloc(size_t a, size_t b) { return fail_now() ? NULL : __real_calloc(a, b); }
static void arm(long k) { countdown = k; }

int main(int argc, char **argv) {
    const char *c = argc > 1 ? argv[1] : "";
    if (!strcmp(c, "and-null")) {            /* R1: Create fails inside And -> NULL deref */
        varintBitmap *a = varintBitmapCreate(), *b = varintBitmapCreate();
        varintBitmapAdd(a, 1); varintBitmapAdd(b, 1);
        arm(0); varintBitmap *r = varintBitmapAnd(a, b);
        printf("and returned %p\n", (void *)r); return 0;
    }
    if (!strcmp(c, "or-lost")) {             /* R5: Add fails inside Or (array->bitmap conversion) -> success with a missing element */
        varintBitmap *a = varintBitmapCreate(), *b = varintBitmapCreate();
        for (int i = 0; i < 4096; i++) varintBitmapAdd(a, (uint16_t)(i * 2));
        varintBitmapAdd(b, 9999);
        arm(2);                               /* Clone: 2 mallocs; 3rd allocation = calloc in arrayToBitmap_ */
        varintBitmap *r = varintBitmapOr(a, b);
        printf("or returned %p card=%u contains(9999)=%d (expected card 4097, contains 1)\n", (void *)r, r ? varintBitmapCardinality(r) : 0, r ? varintBitmapContains(r, 9999) : -1);
        return 0;
    }
    if (!strcmp(c, "addrange-discard")) {    /* C08-B3 / R6: long range on a non-empty set */
        varintBitmap *a = varintBitmapCreate();
        varintBitmapAdd(a, 5); varintBitmapAdd(a, 60000);
        varintBitmapAddRange(a, 100, 5000);
        printf("card=%u contains(5)=%d contains(60000)=%d contains(100)=%d (expected 4902,1,1,1)\n", varintBitmapCardinality(a), varintBitmapContains(a, 5), varintBitmapContains(a, 60000), varintBitmapContains(a, 100));
        varintBitmapAddRange(a, 10000, 20000);   /* RUNS container: old runs block leaked (see valgrind) */
        printf("card=%u contains(100)=%d\n", varintBitmapCardinality(a), varintBitmapContains(a, 100));
        varintBitmapFree(a); return 0;
    }
    if (!strcmp(c, "addrange-oom")) {        /* R2: malloc fails -> set silently emptied, void return */
        varintBitmap *a = varintBitmapCreate();
        varintBitmapAdd(a, 5);
        arm(0); varintBitmapAddRange(a, 100, 5000);
        printf("after failed AddRange: card=%u contains(5)=%d (nothing reported)\n", varintBitmapCardinality(a), varintBitmapContains(a, 5));
        return 0;
    }
    if (!strcmp(c, "pfor-oom")) {            /* R2: exception list allocation fails -> outliers truncated, success returned */
        uint64_t v[100], out[100]; uint8_t buf[4096]; varintPFORMeta m;
        for (int i = 0; i < 100; i++) v[i] = 10 + (uint64_t)i;
        v[50] = 1ULL << 40;
        arm(1);                               /* 1st malloc: sorted copy in ComputeThreshold; 2nd: exceptions */
        size_t n = varintPFOREncode(buf, v, 100, 95, &m);
        size_t d = varintPFORDecode(buf, out, &m);
        printf("encode returned %zu, decode %zu, v[50]=%llu out[50]=%llu\n", n, d, (unsigned long long)v[50], (unsigned long long)out[50]);
        arm(0);
        n = varintPFOREncode(buf, v, 100, 95, &m);
        printf("threshold OOM: encode returned %zu meta.count=%u\n", n, m.count);
        return 0;
    }
    return 2;
}
