/* C06 / C02 triage: patched frame-of-reference used the all-ones pattern of the offset width as the exception marker, but sized the
 * width for `range` itself: a normal value whose offset is 2^(8w)-1 was decoded as an exception slot (UINT64_MAX).
 * Reachable through varintAdaptiveEncode when PFOR is selected.
 * Build: clang -g -fsanitize=address,undefined -I/repo/src replay/c06_pfor_marker_replay.c /repo/src/varintPFOR.c /repo/src/varintTagged.c /repo/src/varintExternal.c */
#include "varintPFOR.h"
#include <stdio.h>
#include <string.h>
static int trip(const uint64_t *v, uint32_t n, const char *what) {
    uint64_t o[256]; uint8_t buf[8192]; varintPFORMeta m, m2; memset(&m2, 0, sizeof(m2));
    size_t w = varintPFOREncode(buf, v, n, VARINT_PFOR_THRESHOLD_95, &m);
    varintPFORDecode(buf, o, &m2);
    int bad = 0;
    for (uint32_t i = 0; i < n; i++) bad += o[i] != v[i];
    printf("%s: width=%d marker=%llx exceptions=%u bytes=%zu mismatches=%d\n", what, (int)m.width, (unsigned long long)m.exceptionMarker, m.exceptionCount, w, bad);
    return bad;
}
int main(void) {
    uint64_t a[100], b[100];
    for (int i = 0; i < 100; i++) a[i] = i < 90 ? (uint64_t)i : 255;              /* range 255: offset 255 == one-byte marker */
    for (int i = 0; i < 100; i++) b[i] = i < 50 ? 0 : UINT64_MAX;                 /* range UINT64_MAX: no spare pattern in 8 bytes */
    return (trip(a, 100, "range 255") + trip(b, 100, "range 2^64-1")) != 0;
}
