/* Triage replay for C07 (by hand): gcc -I<src> replay/c07_replay.c <src>/varintFloat.c <src>/varintExternal.c -lm -o /tmp/c07r */
#include <stdio.h>
#include <math.h>
#include "varintFloat.h"
int main(void) {
    uint8_t buf[256]; double out[2]; varintFloatPrecision sel;
    double v1[1] = {1.2345678901234567};
    size_t n = varintFloatEncodeAuto(buf, v1, 1, 1e-9, VARINT_FLOAT_MODE_INDEPENDENT, &sel);
    varintFloatDecode(buf, 1, out);
    printf("auto(1e-9): precision %d, relative error %.3g (requested 1e-9)\n", (int)sel, fabs(out[0] - v1[0]) / v1[0]);
    double v2[1] = {1.9999999};
    n = varintFloatEncode(buf, v2, 1, VARINT_FLOAT_PRECISION_MEDIUM, VARINT_FLOAT_MODE_INDEPENDENT);
    varintFloatDecode(buf, 1, out);
    printf("MEDIUM 1.9999999 -> %.17g\n", out[0]);
    double v3[2] = {1e-200, 1e200};
    n = varintFloatEncode(buf, v3, 2, VARINT_FLOAT_PRECISION_FULL, VARINT_FLOAT_MODE_COMMON_EXPONENT);
    varintFloatDecode(buf, 2, out);
    printf("COMMON_EXPONENT {1e-200, 1e200} -> {%g, %g}\n", out[0], out[1]); (void)n;
    return 0;
}
