/* Triage replay for C10 (by hand): gcc -I<src> replay/c10_replay.c <src>/varintDimension.c <src>/varintExternal.c <src>/varintTagged.c -lm -o /tmp/c10r */
#include <stdio.h>
#include <string.h>
#include "varintDimension.h"
int main(void) {
    varintDimensionPair d = varintDimensionPairDimension(3, (size_t)1 << 33);      /* cols needs 5 bytes */
    printf("dimension(3, 2^33): rows width %d, cols width %d (expected 1 and 5)\n", (int)VARINT_DIMENSION_PAIR_WIDTH_ROW_COUNT(d), (int)VARINT_DIMENSION_PAIR_WIDTH_COL_COUNT(d));
    uint8_t m[64]; memset(m, 0, sizeof m);
    varintDimensionPair d2 = varintDimensionPairEncode(m, 4, 16);
    varintDimensionPairEntrySetBit(m, 1, 3, true, d2);
    varintDimensionPairEntrySetBit(m, 1, 3, false, d2);
    printf("SetBit(true) then SetBit(false): bit reads %d (expected 0)\n", (int)varintDimensionPairEntryGetBit(m, 1, 3, d2));
    return 0;
}
