/* Triage replay for C12 (by hand): gcc -I/repo/src replay/c12_replay.c /repo/src/varintExternal.c -o /tmp/c12r */
#include <stdio.h>
#include "varintExternal.h"
int main(void) {
    uint8_t buf[3] = {0xff, 0xAA, 0xBB};                 /* a 1-byte external varint holding 255, followed by foreign bytes */
    varintWidth w = varintExternalAddNoGrow(buf, VARINT_WIDTH_8B, 1);
    printf("AddNoGrow(255 + 1) returned %d, bytes now %02x %02x %02x (expected: returns 2, bytes ff aa bb untouched)\n", w, buf[0], buf[1], buf[2]);
    return 0;
}
