/* Triage replay for C13 (by hand, ASan):
 * clang -fsanitize=address -g -I/repo/src replay/c13_replay.c /repo/src/varintAdaptive.c /repo/src/varintFOR.c /repo/src/varintPFOR.c /repo/src/varintDelta.c \
 *   /repo/src/varintDict.c /repo/src/varintBitmap.c /repo/src/varintExternal.c /repo/src/varintTagged.c -o /tmp/c13r && /tmp/c13r pfor|bitmap */
#include <stdio.h>
#include <stdlib.h>
#include <string.h>
#include "varintAdaptive.h"
int main(int argc, char **argv) {
    uint64_t v[100]; uint8_t buf[4096];
    for (int i = 0; i < 100; i++) v[i] = 10 + (uint64_t)i;
    varintAdaptiveEncodingType t = (argc > 1 && !strcmp(argv[1], "bitmap")) ? VARINT_ADAPTIVE_BITMAP : VARINT_ADAPTIVE_PFOR;
    size_t n = varintAdaptiveEncodeWith(buf, v, 100, t, NULL);
    uint64_t *out = malloc(10 * sizeof(uint64_t));               /* capacity 10 < 100 encoded values */
    size_t d = varintAdaptiveDecode(buf, out, 10, NULL);
    printf("encoded %zu bytes, decode with capacity 10 returned %zu\n", n, d);
    free(out); return 0;
}
