/* C03 triage: varintPFORSize sizes an exception's index with the tagged length of its ordinal, varintPFOREncode writes the
 * tagged length of the index itself.  Build: clang -fsanitize=address -I/repo/src replay/c03_replay.c /repo/src/*.c -lm */
#include "varintPFOR.h"
#include <stdio.h>
#include <stdlib.h>
int main(void) {
    enum { N = 3000 };
    uint64_t *v = malloc(N * sizeof(*v));
    for (int i = 0; i < N; i++) v[i] = 1;
    for (int i = N - 10; i < N; i++) v[i] = UINT64_MAX; /* 10 exceptions at indices >= 2288 (3 tagged bytes each) */
    varintPFORMeta meta;
    varintPFORComputeThreshold(v, N, VARINT_PFOR_THRESHOLD_95, &meta);
    size_t need = varintPFORSize(&meta);
    uint8_t *dst = malloc(need);
    size_t wrote = varintPFOREncode(dst, v, N, VARINT_PFOR_THRESHOLD_95, &meta);
    printf("advertised=%zu written=%zu\n", need, wrote);
    return wrote > need;
}
